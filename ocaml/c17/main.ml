(* c17 model driver: one case per line
     <code_file> <debug_file> <debug id text> <code id text>
   each token: N (absent), - (empty string) or the bytes in hex.
   output: eight fields joined by ';' : N | P | - | hex *)
let bytes_of_tok (t : string) : z list =
  if t = "-" then []
  else List.init (String.length t / 2) (fun i -> z_of_int (int_of_string ("0x" ^ String.sub t (2 * i) 2)))
let opt_of_tok t = if t = "N" then None else Some (bytes_of_tok t)
let hex_of (l : z list) : string =
  if l = [] then "-" else String.concat "" (List.map (fun b -> Printf.sprintf "%02x" (int_of_z b)) l)
let show_pred ((tag, p) : z * z list) : string =
  match int_of_z tag with 1 -> hex_of p | 2 -> "ELSEWHERE" | _ -> "P"
let url_mode (cab : bool) =
  let root = bytes_of_tok "2f726f6f742f" in        (* /root/ *)
  try
    while true do
      let line = input_line stdin in
      if String.length line > 0 && line.[0] <> '#' then begin
        match split_ws line with
        | ["B"; suffix] ->
          (* a.pdb/5A9832E5287241C1838ED98914E9B7FF1/a.sym *)
          let rel = List.map (fun c -> z_of_int (Char.code c))
              (List.of_seq (String.to_seq "a.pdb/5A9832E5287241C1838ED98914E9B7FF1/a.sym")) in
          print_endline ("B|" ^ show_pred (base_case (bytes_of_tok suffix) rel))
        | ["R"; cf; cid; loc] ->
          print_endline ("R|" ^ String.concat "," (List.map show_pred (redirect_case root (bytes_of_tok cf) (opt_of_tok cid) (bytes_of_tok loc))))
        | [cf; df; did; cid] ->
          let r = url_case cab root (bytes_of_tok cf) (opt_of_tok df) (opt_of_tok did) (opt_of_tok cid) in
          print_endline ("U|" ^ String.concat "|" (List.map (fun l -> String.concat "," (List.map show_pred l)) r))
        | _ -> print_endline "E;;bad case line"
      end
    done
  with End_of_file -> ()
(* --fs: predictions for the filesystem probe: R:<http locate_file per kind>|S:<simple locate_file per kind>|C:<sorted created files> *)
let fs_mode () =
  try
    while true do
      let line = input_line stdin in
      if String.length line > 0 && line.[0] <> '#' then begin
        match split_ws line with
        | [cf; df; did; cid] ->
          let (((found, plain), rh), rs) = fs_case (bytes_of_tok cf) (opt_of_tok df) (opt_of_tok did) (opt_of_tok cid) in
          if not found then print_endline "NOSITE|the flow model has no fetch_lookup / locate_file site"
          else if not plain then print_endline "SKIP"
          else begin
            let show l = String.concat "," (List.map (function None -> "N" | Some p -> hex_of p) l) in
            let made = List.sort_uniq compare (List.filter_map (function None -> None | Some p -> Some (hex_of p)) rh) in
            print_endline ("R:" ^ show rh ^ "|S:" ^ show rs ^ "|C:" ^ String.concat "," made)
          end
        | _ -> print_endline "E;;bad case line"
      end
    done
  with End_of_file -> ()
(* --join: full reference resolution.  case `J <base scheme hex> <base path hex> <reference hex>`;
   answer S|<path> (same scheme and authority), A|<scheme>|<authority text>, O|<scheme>|<rest> *)
let join_mode () =
  try
    while true do
      let line = input_line stdin in
      if String.length line > 0 && line.[0] <> '#' then begin
        match split_ws line with
        | ["J"; sch; bp; r] ->
          let ((tag, a), b) = resolve_case (bytes_of_tok sch) (bytes_of_tok bp) (bytes_of_tok r) in
          print_endline (match int_of_z tag with
              | 0 -> "S|" ^ hex_of a
              | 1 -> "A|" ^ hex_of a ^ "|" ^ hex_of b
              | _ -> "O|" ^ hex_of a ^ "|" ^ hex_of b)
        | _ -> print_endline "E;;bad case line"
      end
    done
  with End_of_file -> ()
let () =
  if Array.length Sys.argv > 1 && Sys.argv.(1) = "--join" then (join_mode (); exit 0);
  if Array.length Sys.argv > 1 && Sys.argv.(1) = "--fs" then (fs_mode (); exit 0);
  if Array.length Sys.argv > 1 && Sys.argv.(1) = "--url" then (url_mode false; exit 0);
  if Array.length Sys.argv > 1 && Sys.argv.(1) = "--url-cab" then (url_mode true; exit 0);

  try
    while true do
      let line = input_line stdin in
      if String.length line > 0 && line.[0] <> '#' then begin
        match split_ws line with
        | [cf; df; did; cid] ->
          let r = run_case (bytes_of_tok cf) (opt_of_tok df) (opt_of_tok did) (opt_of_tok cid) in
          (* eight path fields, then the lookup(module, kind) == direct builder flag *)
          let fields = List.filteri (fun i _ -> i < 8) r and flag = List.nth r 8 in
          print_endline (String.concat ";" (List.map (fun (tag, p) ->
            match int_of_z tag with 0 -> "N" | 1 -> hex_of p | _ -> "P") fields)
            ^ "|L" ^ string_of_int (int_of_z (fst flag))
            ^ "|P" ^ String.concat ";" (List.map (function
                | None -> "N"
                | Some (a, b) ->
                  let show = function
                    | None -> "!"
                    | Some [] -> "-"
                    | Some l -> String.concat "," (List.map hex_of l) in
                  show a ^ ":" ^ show b) (run_case_obs fields)))
        | _ -> print_endline "E;;bad case line"
      end
    done
  with End_of_file -> ()
