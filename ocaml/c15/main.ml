(* c15 model driver.  input: <D|R> <facts>\t<view of the real JSON (compact, UTF-8)>\t<hex of the pretty rendering of that view>\t<the
   confidences of the real compact output: <f32::to_bits>:<printed text> joined by , | ->
   (facts format: harness/src/bin/c15.rs).  output:
   <model's serialisation, UTF-8 | P;;>\t<1|0: the model's parser accepts the real view and re-serialises it to the
   same code points>\t<model confidence bits of the bit flips, joined by ,>\t<1|0|R: wf_ok st (R = wf_ok holds but the registers are not from the register file of the context kind: regs_ok)>\t<1|0: real_conforms
   on the code points of the real view>\t<1|0: real_widths width view>\t<hex of the UTF-8 bytes of the model's pretty
   rendering | P;;>\t<1|0: pretty_ok: the whitespace-tolerant parser of c15_pretty_parse accepts the real pretty text and
   yields the value of the real compact text>\t<1|0: real_consistent: the self-consistency checker of c15_consistent on the real view>\t<1|0: real_offsets: the
   module-offset checker of c15_offsets_checker on the real view>\t<1|0: real_sorted: keys_sorted (c15_keys_sorted) on the real view; wf field K =
   the register names / soft_errors objects of the state are not sorted (keys_hyp)>\t<the model's TEXT of every confidence (render_f32 of the model's bits), joined by ,>\t<1|0:
   conf_text_ok (theorem c15_confidence_text) accepts every real text for the real bits>\t<1|0: real_fn_offsets: the function-offset judgement of c15_function_offsets on the
   real view against the function bases of the state>   (wf field: M = wf_ok and regs_ok hold but a frame's module is not a member of the module list) *)
(* UTF-8 is done by the extracted Gallina encoder / strict decoder (Driver.encode_utf8 / decode_utf8) *)
let bytes_of_string (s : string) : z list = List.init (String.length s) (fun i -> z_of_int (Char.code s.[i]))
let add_cps (b : Buffer.t) (cps : z list) = List.iter (fun z -> Buffer.add_char b (Char.chr (int_of_z z))) (encode_utf8 cps)

let bytes_of_hex (h : string) : z list =
  if h = "-" then [] else List.init (String.length h / 2) (fun i -> z_of_int (int_of_string ("0x" ^ String.sub h (2 * i) 2)))
let hex_of_cps (b : Buffer.t) (cps : z list) = List.iter (fun z -> Buffer.add_string b (Printf.sprintf "%02x" (int_of_z z))) (encode_utf8 cps)

let str_of_tok (t : string) : z list =
  (* s<hex>.<hex>... *)
  if String.length t <= 1 then []
  else List.map (fun h -> z_of_int (int_of_string ("0x" ^ h))) (String.split_on_char '.' (String.sub t 1 (String.length t - 1)))

let () =
  try
    while true do
      let line = input_line stdin in
      if String.length line > 0 && line.[0] <> '#' then begin
        let tab = String.index line '\t' in
        let head = String.sub line 0 tab in
        let tail = String.sub line (tab + 1) (String.length line - tab - 1) in
        let tab2 = String.index tail '\t' in
        let real_view = String.sub tail 0 tab2 in
        let tail2 = String.sub tail (tab2 + 1) (String.length tail - tab2 - 1) in
        let tab3 = String.index tail2 '\t' in
        let real_pretty_hex = String.sub tail2 0 tab3 in
        let real_confs = String.sub tail2 (tab3 + 1) (String.length tail2 - tab3 - 1) in
        let toks = Array.of_list (split_ws head) in
        let pos = ref 0 in
        let next () = let t = toks.(!pos) in incr pos; t in
        let nz () = z_of_string (next ()) in
        let expect s = let t = next () in if t <> s then failwith ("expected " ^ s ^ " got " ^ t) in
        let ostr () = let t = next () in if t = "-" then None else Some (str_of_tok t) in
        let onum () = let t = next () in if t = "-" then None else Some (z_of_string t) in
        let rec nat_of_int i = if i <= 0 then O else S (nat_of_int (i - 1)) in
        let prof = if next () = "R" then Release else Debug in
        expect "W"; let w = mk_width (nz ()) in
        expect "PID"; let pid = onum () in
        expect "REQ"; let req = (let t = next () in if t = "-" then None else Some (nat_of_int (int_of_string t))) in
        expect "CRASH";
        let crash = (let t = next () in
          if t = "-" then None else begin
            let reason = str_of_tok t in
            let addr = nz () in
            expect "ADJ";
            let adj = (match next () with
              | "-" -> None
              | "nc" -> let a = nz () in Some (AdjNonCanonical a)
              | _ -> let o = nz () in Some (AdjNull o)) in
            expect "INSTR"; let instr = ostr () in
            expect "ACC";
            let acc = (let t = next () in if t = "-" then None else
              Some (List.init (int_of_string t) (fun _ ->
                let a = nz () in let sz = onum () in let g = next () in let ty = nz () in
                { a_addr = a; a_size = sz; a_guard = (g = "1"); a_type = ty }))) in
            expect "IPU";
            let ipu = (match next () with
              | "-" -> None
              | "none" -> Some IpuNone
              | _ -> let a = nz () in let g = next () in Some (IpuUpdate (a, g = "1"))) in
            expect "FLIPS";
            let nf = int_of_string (next ()) in
            let flips = List.init nf (fun _ ->
              let a = nz () in let reg = ostr () in let nc = next () in let nl = next () in let lo = next () in
              let nb = nz () in let po = next () in
              { bf_addr = a; bf_reg = reg; bf_nc = (nc = "1"); bf_null = (nl = "1"); bf_low = (lo = "1");
                bf_nearby = nb; bf_poison = (po = "1") }) in
            expect "INC";
            let ni = int_of_string (next ()) in
            let inc = List.init ni (fun _ -> nz ()) in
            Some { cr_reason = reason; cr_addr = addr; cr_adjusted = adj; cr_instr = instr; cr_accesses = acc;
                   cr_ipu = ipu; cr_flips = flips; cr_incons = inc }
          end) in
        expect "SYS";
        let osi = nz () in let osraw = nz () in let osver = ostr () in let cpui = nz () in
        let cpuinfo = ostr () in let cpucount = nz () in let micro = onum () in
        let sys = { sy_os = osi; sy_os_raw = osraw; sy_os_ver = osver; sy_cpu = cpui; sy_cpu_info = cpuinfo;
                    sy_cpu_count = cpucount; sy_microcode = micro } in
        expect "LSB";
        let lsb = (let t = next () in if t = "-" then None else
          let i = str_of_tok t in let r = str_of_tok (next ()) in let c = str_of_tok (next ()) in let d = str_of_tok (next ()) in
          Some (((i, r), c), d)) in
        expect "MAPC"; let mapc = onum () in
        let str () = str_of_tok (next ()) in
        let count () = int_of_string (next ()) in
        let ocount () = let t = next () in if t = "-" then None else Some (int_of_string t) in
        expect "CERTS";
        let nc = count () in
        let certs = List.init nc (fun _ -> let n = str () in let sj = str () in (n, sj)) in
        expect "STATS";
        let ns = count () in
        let stats = List.init ns (fun _ ->
          let n = str () in let url = ostr () in let ld = next () in let co = next () in
          let extra = (match next () with
            | "-" -> None
            | "X" -> let df = str () in let di = str () in Some (df, di)
            | t -> failwith ("STATS: expected X or - got " ^ t)) in
          (n, { ss_url = url; ss_loaded = (ld = "1"); ss_corrupt = (co = "1"); ss_extra = extra })) in
        expect "ASSERT"; let assertion = ostr () in
        expect "LIMITS";
        let lim () = (match next () with "e" -> LErr | "u" -> LUnlimited | t -> LLimited (z_of_string t)) in
        let limits = (match ocount () with
          | None -> None
          | Some n -> Some (List.init n (fun _ ->
              let nm = str () in let so = lim () in let ha = lim () in let un = str () in
              { li_name = nm; li_soft = so; li_hard = ha; li_unit = un }))) in
        expect "MAC";
        let mac = (match ocount () with
          | None -> None
          | Some n -> Some (List.init n (fun _ ->
              let th = onum () in let dm = onum () in let ac = onum () in
              let mp = ostr () in let ms = ostr () in let sg = ostr () in let bt = ostr () in let m2 = ostr () in
              { mc_thread = th; mc_dialog = dm; mc_abort = ac; mc_module = mp; mc_message = ms; mc_signature = sg;
                mc_backtrace = bt; mc_message2 = m2 }))) in
        expect "BOOT"; let bootargs = ostr () in
        expect "HANDLES";
        let handles = (match ocount () with
          | None -> None
          | Some n -> Some (List.init n (fun _ ->
              let h = onum () in let tn = ostr () in let on = ostr () in
              { h_handle = h; h_type = tn; h_object = on }))) in
        expect "SOFT";
        let (soft, keep_soft) = (match next () with
          | "-" -> (None, true)
          | "x" -> (None, false)
          | t -> (match parse_soft (bytes_of_hex (String.sub t 1 (String.length t - 1))) with
                  | Some j -> (Some j, true)
                  | None -> failwith "SOFT: the model's parser rejects the compact rendering of the state's soft_errors value")) in
        expect "TH";
        let n = int_of_string (next ()) in
        let threads = List.init n (fun _ ->
          let id = nz () in
          let name = ostr () in
          let lasterr = ostr () in
          expect "NF";
          let nf = int_of_string (next ()) in
          let frames = List.init nf (fun _ ->
            let instr = nz () in
            let md = (let t = next () in if t = "-" then None else let b = nz () in Some (str_of_tok t, b)) in
            let fn = ostr () in
            let fb = onum () in
            let file = ostr () in
            let ln = onum () in
            let trust = nz () in
            expect "UNL";
            let u = int_of_string (next ()) in
            let unl = List.init u (fun _ ->
              let nm = str_of_tok (next ()) in
              expect "K";
              let k = int_of_string (next ()) in
              let offs = List.init k (fun _ -> nz ()) in
              (nm, offs)) in
            expect "INL";
            let q = int_of_string (next ()) in
            let inl = List.init q (fun _ ->
              let fnm = str_of_tok (next ()) in let fl = ostr () in let li = onum () in
              { in_function = fnm; in_file = fl; in_line = li }) in
            { fr_instr = instr; fr_module = md; fr_function = fn; fr_function_base = fb; fr_file = file;
              fr_line = ln; fr_trust = trust; fr_unloaded = unl; fr_inlines = inl }) in
          { th_id = id; th_name = name; th_last_error = lasterr; th_frames = frames }) in
        expect "RK"; let ctx_kind = nz () in
        expect "REGS";
        let r = int_of_string (next ()) in
        let regs = List.init r (fun _ ->
          let nm = str_of_tok (next ()) in let v = nz () in let d = int_of_string (next ()) in ((nm, v), nat_of_int d)) in
        expect "MODS";
        let m = int_of_string (next ()) in
        let mods = List.init m (fun _ ->
          let b = nz () in let s = nz () in let cf = str () in let df = str () in let di = str () in
          let ci = str () in
          let vsig = nz () in let vst = nz () in let fhi = nz () in let flo = nz () in let phi = nz () in let plo = nz () in
          let ver = mk_version osi vsig vst fhi flo phi plo in
          { m_base = b; m_size = s; m_file = cf; m_debug_file = df; m_debug_id = di; m_code_id = ci; m_version = ver }) in
        expect "UNLM";
        let u = int_of_string (next ()) in
        let unl = List.init u (fun _ ->
          let b = nz () in let s = nz () in let nm = str () in let ci = str () in
          { m_base = b; m_size = s; m_file = nm; m_debug_file = []; m_debug_id = []; m_code_id = ci; m_version = None }) in
        if !pos <> Array.length toks then failwith ("trailing facts token " ^ toks.(!pos));
        let st = { s_width = w; s_pid = pid; s_threads = threads; s_requesting = req; s_registers = regs;
                   s_modules = mods; s_unloaded = unl; s_crash = crash; s_sys = sys; s_lsb = lsb; s_mapcount = mapc;
                   s_certinfo = certs; s_symstats = stats; s_assertion = assertion; s_limits = limits; s_mac_crash = mac;
                   s_bootargs = bootargs; s_handles = handles; s_soft = soft } in
        let b = Buffer.create 4096 in
        let report = run_report prof keep_soft st in
        (match report with
         | Some j -> add_cps b (render_compact j)
         | None -> Buffer.add_string b "P;;");
        let decoded = decode_utf8 (bytes_of_string real_view) in
        let real_cps = (match decoded with Some l -> l | None -> []) in
        let ok = decoded <> None && reparse_ok real_cps in
        Buffer.add_char b '\t';
        Buffer.add_string b (if ok then "1" else "0");
        Buffer.add_char b '\t';
        (match crash with
         | Some c -> Buffer.add_string b (String.concat "," (List.map (fun f -> string_of_z (flip_confidence_bits f)) c.cr_flips))
         | None -> ());
        Buffer.add_char b '\t';
        Buffer.add_string b (if wf_ok st then (if regs_ok ctx_kind st then (if mods_ok st then (if keys_ok st then "1" else "K") else "M") else "R") else "0");
        Buffer.add_char b '\t';
        Buffer.add_string b (if real_conforms real_cps then "1" else "0");
        Buffer.add_char b '\t';
        Buffer.add_string b (if real_widths w real_cps then "1" else "0");
        Buffer.add_char b '\t';
        (match report with
         | Some j -> hex_of_cps b (render_pretty j)
         | None -> Buffer.add_string b "P;;");
        Buffer.add_char b '\t';
        let pretty_cps = (match decode_utf8 (bytes_of_hex real_pretty_hex) with Some l -> l | None -> []) in
        Buffer.add_string b (if decoded <> None && pretty_ok pretty_cps real_cps then "1" else "0");
        Buffer.add_char b '\t';
        Buffer.add_string b (if real_consistent real_cps then "1" else "0");
        Buffer.add_char b '\t';
        Buffer.add_string b (if real_offsets real_cps then "1" else "0");
        Buffer.add_char b '\t';
        Buffer.add_string b (if real_sorted real_cps then "1" else "0");
        Buffer.add_char b '\t';
        (match crash with
         | Some c -> Buffer.add_string b (String.concat "," (List.map (fun f ->
                       String.concat "" (List.map (fun z -> String.make 1 (Char.chr (int_of_z z))) (flip_confidence_text f))) c.cr_flips))
         | None -> ());
        Buffer.add_char b '\t';
        let conf_ok = (real_confs = "-" || real_confs = "") || List.for_all (fun item ->
          match String.index_opt item ':' with
          | None -> false
          | Some i -> real_confidence_ok (z_of_string (String.sub item 0 i))
                        (bytes_of_string (String.sub item (i + 1) (String.length item - i - 1))))
          (String.split_on_char ',' real_confs) in
        Buffer.add_string b (if conf_ok then "1" else "0");
        Buffer.add_char b '\t';
        Buffer.add_string b (if real_fn_offsets st real_cps then "1" else "0");
        print_endline (Buffer.contents b)
      end
    done
  with End_of_file -> ()
