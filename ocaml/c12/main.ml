(* c12 model driver: one case per line (all tokens decimal)
     mode nt {nl {key kind}*nl}*nt nk {susp outc cf ci df di}*nk ns {t}*ns
   mode 0: the schedule lists task ids, polled in that order, then round-robin to completion.
   mode 1: wake-driven executor (each schedule entry picks among the currently woken tasks);
           the third field is then the sequence of polled tasks.
   output: OK;log;midreq/midproc/middone;results;req/proc;stats;rounds
     log = keys joined by '.' ('-' if empty); results = tasks joined by '|', lookups by '.',
     each S<key> (symbols of that key) or E; stats = leaf:loaded:corrupt joined by ',' *)
let leaf_of_cf = [| 0; 1; 1; 2; 3 |]
let nleaf = 4
let outcome_of_int = function
  | 0 -> OOk | 1 -> ONotFound | 2 -> OMissing | 3 -> OLoad | 4 -> OParse
  | _ -> failwith "bad outcome"
let nat_of_int i = nat_of_z (z_of_int i)
let int_of_nat n = int_of_z (z_of_nat n)
let join sep f l = if l = [] then "-" else String.concat sep (List.map f l)
let () =
  try
    while true do
      let line = input_line stdin in
      if String.length line > 0 && line.[0] <> '#' then begin
        let toks = Array.of_list (split_ws line) in
        let pos = ref 0 in
        let next () = let t = toks.(!pos) in incr pos; int_of_string t in
        let mode = next () in
        let nt = next () in
        let ts = List.init nt (fun _ ->
          let nl = next () in
          List.init nl (fun _ -> let k = next () in let _kind = next () in nat_of_int k)) in
        let nk = next () in
        let scripts = List.init nk (fun _ ->
          let su = next () in let oc = next () in let cf = next () in
          let _ = next () in let _ = next () in let _ = next () in
          ((nat_of_int su, outcome_of_int oc), nat_of_int leaf_of_cf.(cf))) in
        let ns = next () in
        let sched = List.init ns (fun _ -> next ()) in
        let b = Buffer.create 256 in
        let add = Buffer.add_string b in
        let pn n = string_of_int (int_of_nat n) in
        let pres rs = String.concat "|" (List.map (fun r ->
          join "." (fun (k, oc) -> match oc with OOk -> "S" ^ pn k | _ -> "E") r) rs) in
        let pstats st = join "," (fun (l, oc) ->
          let bi x = if x then 1 else 0 in
          Printf.sprintf "%s:%d:%d" (pn l) (bi (stat_loaded oc)) (bi (stat_corrupt oc))) st in
        if mode = 0 then begin
          let o = run_case ts scripts (nat_of_int nleaf) (List.map nat_of_int sched) in
          if o_hung o then add "HUNG;" else add "OK;";
          add (join "." pn (o_log o)); add ";";
          add (pn (o_mid_req o) ^ "/" ^ pn (o_mid_proc o) ^ "/" ^ pn (o_mid_done o)); add ";";
          add (pres (o_results o)); add ";";
          add (pn (o_req o) ^ "/" ^ pn (o_proc o)); add ";";
          add (pstats (o_stats o)); add ";"; add (pn (o_rounds o))
        end else begin
          let o = run_wcase ts scripts (nat_of_int nleaf) (List.map nat_of_int sched) in
          if w_lost o then add "LOST;" else if w_fuel o then add "HUNG;" else add "OK;";
          add (join "." pn (w_log o)); add ";";
          add (join "." pn (w_trace o)); add ";";
          add (pres (w_results o)); add ";";
          add (pn (w_req o) ^ "/" ^ pn (w_proc o)); add ";";
          add (pstats (w_stats o)); add ";0"
        end;
        print_endline (Buffer.contents b)
      end
    done
  with End_of_file -> ()
