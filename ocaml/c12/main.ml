(* c12 model driver: one case per line (all tokens decimal)
     mode nt {nl {key kind}*nl}*nt nk {susp outc cf ci df di}*nk ns {t}*ns
   mode 0: the schedule lists task ids, polled in that order, then round-robin to completion.
   mode 1: wake-driven executor (each schedule entry picks among the currently woken tasks);
           the third field is then the sequence of polled tasks.
   mode 2: concurrent HttpSymbolSupplier::locate_file calls; lookup kind = FileKind (0 BreakpadSym, 1 Binary,
           2 ExtraDebugInfo); per key: susp = server delay, outc = bit mask "server has the file of kind i";
           log = file keys 3*key+kind fetched from the server (sorted); results S<file key> / E.
   mode 3: mode 1 plus drops: a pick 100+u drops task u if it is waiting for a lock.
   mode 4: the tasks are the children of one futures_util::future::join_all; last field = parent polls
           (a non-empty schedule = group sizes of a nested join_all: same poll order, ignored here).
   mode 7: through minidump_processor::process_minidump (one thread per task, one frame per lookup); the processor model
           (C12/ProcModel.v, walker regenerated from processor.rs / minidump-unwind) must agree with the printed answer;
   mode 5: multi-threaded tokio runtime; mode 6: join_all polled by hand, possibly > 30 children (FuturesUnordered).
           The schedule is not under the case's control: the model runs round-robin and only the
           schedule-independent fields are printed (sorted log; c12_quiescent_observables_schedule_independent).
   output: OK;log;midreq/midproc/middone;results;req/proc;stats;rounds;obs   (obs: the tasks' own checks, always -)
     log = keys joined by '.' ('-' if empty); results = tasks joined by '|', lookups by '.',
     each S<key> (symbols of that key) or E; stats = leaf:loaded:corrupt joined by ','
   lookup kind 10+alt (modes 0, 1, 4, 5): an ADAPTIVE lookup - fill_symbol on module key, or on module alt when the task's
     previous lookup got no symbols *)
let leaf_of_cf = [| 0; 1; 1; 2; 3; 4; 5 |]
let nleaf = 6
let outcome_of_int = function
  | 0 -> OOk | 1 -> ONotFound | 2 -> OMissing | 3 -> OLoad | 4 -> OParse
  | _ -> failwith "bad outcome"
let nat_of_int i = nat_of_z (z_of_int i)
let int_of_nat n = int_of_z (z_of_nat n)
let join sep f l = if l = [] then "-" else String.concat sep (List.map f l)
let () =
  try
    while true do
      let line = input_line stdin in
      if String.length line > 0 && line.[0] <> '#' then begin
        let toks = Array.of_list (split_ws line) in
        let pos = ref 0 in
        let next () = let t = toks.(!pos) in incr pos; int_of_string t in
        let mode = next () in
        let nt = next () in
        let ts_raw = List.init nt (fun _ ->
          let nl = next () in
          List.init nl (fun _ -> let k = next () in let kind = next () in (k, kind))) in
        let nk = next () in
        let keys_raw = List.init nk (fun _ ->
          let su = next () in let oc = next () in let cf = next () in
          let ci = next () in let df = next () in let di = next () in (su, oc, cf, ci, df, di)) in
        let scripts = if mode = 2 then [] else List.map (fun (su, oc, cf, _, _, _) ->
          ((nat_of_int su, outcome_of_int oc), nat_of_int leaf_of_cf.(cf))) keys_raw in
        (* adaptive requesters (lookup kind 10+alt: ask for module alt instead when the task's previous lookup got no symbols):
           by c12_adaptive_refines every mode's model runs on the fixed lists obtained by unfolding the strategies along the
           scripted answers; mode 0 also runs the adaptive model itself (C12/AdaptModel.v) *)
        let adaptive = List.exists (List.exists (fun (_, kind) -> kind >= 10)) ts_raw in
        let rows = List.map (List.map (fun (k, kind) ->
          (nat_of_int k, nat_of_int (if kind >= 10 then kind - 10 else k)))) ts_raw in
        let ts = if adaptive then unfold_rows rows scripts
                 else List.map (List.map (fun (k, _) -> nat_of_int k)) ts_raw in
        (* modes 0, 5, 6, 7 and 2: next to the hand-written model, the interpreter of C12/ProgModel.v runs the program
           regenerated from the Rust source *)
        let pts = if adaptive then List.map (List.map (fun k -> (k, nat_of_int 0))) ts
                  else List.map (List.map (fun (k, kind) -> (nat_of_int k, nat_of_int kind))) ts_raw in
        let ns = next () in
        let sched = List.init ns (fun _ -> next ()) in
        let agree = ref true in
        let b = Buffer.create 256 in
        let add = Buffer.add_string b in
        let pn n = string_of_int (int_of_nat n) in
        let pres rs = String.concat "|" (List.map (fun r ->
          join "." (fun (k, oc) -> match oc with OOk -> "S" ^ pn k | _ -> "E") r) rs) in
        let pstats st = join "," (fun (l, oc) ->
          let bi x = if x then 1 else 0 in
          Printf.sprintf "%s:%d:%d" (pn l) (bi (stat_loaded oc)) (bi (stat_corrupt oc))) st in
        if mode = 0 then begin
          let o = run_case ts scripts (nat_of_int nleaf) (List.map nat_of_int sched) in
          agree := (o = run_pcase pts scripts (nat_of_int nleaf) (List.map nat_of_int sched));
          if adaptive then
            agree := !agree && (o = run_acase rows scripts (nat_of_int nleaf) (List.map nat_of_int sched));
          if o_hung o then add "HUNG;" else add "OK;";
          add (join "." pn (o_log o)); add ";";
          add (pn (o_mid_req o) ^ "/" ^ pn (o_mid_proc o) ^ "/" ^ pn (o_mid_done o)); add ";";
          add (pres (o_results o)); add ";";
          add (pn (o_req o) ^ "/" ^ pn (o_proc o)); add ";";
          add (pstats (o_stats o)); add ";"; add (pn (o_rounds o))
        end else if mode = 5 || mode = 6 || mode = 7 then begin
          let o = run_case ts scripts (nat_of_int nleaf) [] in
          agree := (o = run_pcase pts scripts (nat_of_int nleaf) []);
          (* mode 7: next to it the processor model (C12/ProcModel.v) on the walker regenerated from processor.rs and
             minidump-unwind: same modules located, same answer for every frame, same counters, same leaf names in the
             stats the ProcessState gets (which module of a shared leaf name wins depends on the schedule) *)
          if mode = 7 then begin
            let po = run_proccase ts scripts (nat_of_int nleaf) in
            let sorted l = List.sort compare (List.map int_of_nat l) in
            agree := !agree && not (o_hung po) && int_of_nat (o_mid_done po) = 2
                     && sorted (o_log po) = sorted (o_log o) && o_results po = o_results o
                     && o_req po = o_req o && o_proc po = o_proc o
                     && List.map fst (o_stats po) = List.map fst (o_stats o)
          end;
          if o_hung o then add "HUNG;" else add "OK;";
          add (join "." string_of_int (List.sort compare (List.map int_of_nat (o_log o)))); add ";-;";
          add (pres (o_results o)); add ";";
          add (pn (o_req o) ^ "/" ^ pn (o_proc o)); add ";";
          add (pstats (o_stats o)); add ";0"
        end else if mode = 2 then begin
          (* file mode: per file key 3*key+kind: lookup(module, kind) exists, fetch delay, server has it *)
          let fscripts = List.concat (List.map (fun (su, mask, cf, ci, df, di) ->
            List.map (fun kind ->
              let lk = (match kind with
                        | 1 -> cf <> 0 && ci <> 0 && df <> 0 && di <> 0
                        | _ -> df <> 0 && di <> 0) in
              ((lk, nat_of_int su), (mask lsr kind) land 1 = 1)) [0; 1; 2]) keys_raw) in
          let fts = List.map (List.map (fun (k, kind) -> (nat_of_int k, nat_of_int kind))) ts_raw in
          let o = run_fcase fts fscripts in
          (let po = run_pfcase fts fscripts in
           (* the file closure has no counters: compare the slot part *)
           agree := (w_log o = w_log po && w_results o = w_results po && w_trace o = w_trace po && w_fuel o = w_fuel po));
          let has_lk fk = (match List.nth_opt fscripts fk with Some ((lk, _), _) -> lk | None -> false) in
          if w_fuel o then add "HUNG;" else add "OK;";
          let log = List.sort compare (List.filter has_lk (List.map int_of_nat (w_log o))) in
          add (join "." string_of_int log); add ";-;";
          add (pres (w_results o)); add ";-;-;0"
        end else begin
          let picks = List.map nat_of_int sched in
          let o = (match mode with
                   | 1 -> run_wcase ts scripts (nat_of_int nleaf) picks
                   | 3 -> run_dcase ts scripts (nat_of_int nleaf) picks
                   | _ -> run_jcase ts scripts (nat_of_int nleaf)) in
          if w_lost o then add "LOST;" else if w_fuel o then add "HUNG;" else add "OK;";
          add (join "." pn (w_log o)); add ";";
          add (if mode = 4 then "-" else join "." pn (w_trace o)); add ";";
          add (pres (w_results o)); add ";";
          add (pn (w_req o) ^ "/" ^ pn (w_proc o)); add ";";
          add (pstats (w_stats o)); add ";";
          add (if mode = 4 then join "." pn (w_trace o) else "0")
        end;
        (* the hand-written model (the printed answer) and the interpreter on the regenerated program must agree
           (c12_source_program_refines_model says they do while the program is the canonical one) *)
        add (if !agree then ";-" else ";program-differs-from-model");
        print_endline (Buffer.contents b)
      end
    done
  with End_of_file -> ()
