(* c19 model driver; see harness/src/bin/c19.rs for the case format *)
let fmt_flips (l : z list list) : string =
  String.concat "," (List.map (fun f -> String.concat ":" (List.map string_of_z f)) l)

let () =
  try
    while true do
      let line = input_line stdin in
      if String.length line > 0 && line.[0] <> '#' then begin
        let toks = Array.of_list (split_ws line) in
        let pos = ref 0 in
        let next () = let t = toks.(!pos) in incr pos; t in
        let nz () = z_of_string (next ()) in
        let parse_ctx () =
          match next () with
          | "-" -> None
          | "A" -> Some (z_of_int 8, List.init 17 (fun _ -> nz ()))
          | "X" -> Some (z_of_int 4, List.init 10 (fun _ -> nz ()))
          | "R" -> Some (z_of_int 8, List.init 33 (fun _ -> nz ()))
          | "W" -> Some (z_of_int 8, List.init 39 (fun _ -> nz ()))
          | "N" -> Some (z_of_int 4, List.init 2 (fun _ -> nz ()))   (* raw context of a 32-bit architecture: pc sp *)
          | "V" ->
            (* only the registers of the mask are valid (valid_registers() yields just those) *)
            let mask = int_of_string (next ()) in
            let all = List.init 17 (fun _ -> nz ()) in
            Some (z_of_int 8, List.filteri (fun i _ -> (mask lsr i) land 1 = 1) all)
          | _ -> failwith "ctx" in
        let parse_regions () =
          let kind = nz () in
          let n = int_of_string (next ()) in
          (kind, List.init n (fun _ -> let a = nz () in let b = nz () in let p = nz () in ((a, b), p))) in
        let out =
          match next () with
          | "T" ->
            let a = nz () in let reg = nz () in let br = nz () in
            let ctx = parse_ctx () in
            let (kind, regs) = parse_regions () in
            let op = nz () in
            fmt_flips (run_try a reg br ctx kind regs op)
          | "P" ->
            let c = nz () in let os = nz () in let code = nz () in let np = nz () in
            let i0 = nz () in let i1 = nz () in let ea = nz () in
            let ctx = parse_ctx () in
            let instr = next () in
            let (kind, regs) = parse_regions () in
            if instr <> "-" && ctx <> None then "?"
            else fmt_flips (run_pipeline c os code np i0 i1 ea ctx kind regs)
          | "Q" ->
            let arch = nz () in let os = nz () in let code = nz () in let flags = nz () in let np = nz () in
            let i0 = nz () in let i1 = nz () in let ea = nz () in
            let ctx = (match parse_ctx () with None -> None | Some (_, l) -> Some l) in
            let _instr = next () in
            let _stack = next () in
            let dec =
              (match next () with
               | "-" -> `None
               | "U" -> `Unknown
               | "D" ->
                 let lea = (next () = "1") in
                 let ms = (next () = "1") in
                 let imp = nz () in let ipk = nz () in let ipv = nz () in
                 let n = int_of_string (next ()) in
                 `Dec (((((lea, ms), imp), ipk), ipv), List.init n (fun _ ->
                         let b = nz () in let i = nz () in let sc = nz () in let d = nz () in (((b, i), sc), d)))
               | _ -> failwith "dec") in
            let (kind, regs) = parse_regions () in
            (match dec with
             | `Unknown -> "?"
             | _ ->
               let d = (match dec with `Dec (h, ops) -> Some (h, ops) | _ -> None) in
               let ((adj, flips), (acc, ip)) = run_q arch os code flags np i0 i1 ea ctx d kind regs in
               let adjs = (match adj with
                   | [_] -> "none"
                   | [k; v] -> (if int_of_z k = 1 then "nc:" else "null:") ^ string_of_z v
                   | _ -> failwith "adj") in
               let accs = (match acc with
                   | [[x]] -> string_of_z x
                   | l -> String.concat "," (List.map (fun e -> String.concat ":" (List.map string_of_z e)) l)) in
               let ips = String.concat ":" (List.map string_of_z ip) in
               adjs ^ "#" ^ fmt_flips flips ^ "#" ^ accs ^ "#" ^ ips)
          | _ -> failwith "kind" in
        print_endline out
      end
    done
  with End_of_file -> ()
