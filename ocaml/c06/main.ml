(* c06 model driver: same '|'-separated case lines as harness/src/bin/c06.rs *)
let bytes_of_string (s : string) : z list =
  List.init (String.length s) (fun i -> z_of_int (Char.code s.[i]))
let string_of_bytes (b : z list) : string =
  String.concat "" (List.map (fun c -> String.make 1 (Char.chr (int_of_z c))) b)
let unhex (s : string) : z list =
  if s = "-" then [] else List.init (String.length s / 2) (fun i -> z_of_int (int_of_string ("0x" ^ String.sub s (2 * i) 2)))
let parse_regs (s : string) =
  if s = "-" || s = "" then [] else
  List.map (fun kv -> match String.split_on_char '=' kv with
    | [k; v] -> (bytes_of_string k, z_of_string v) | _ -> failwith "reg") (String.split_on_char ',' s)
let rec deltas = function
  | a :: t :: r -> (z_of_string a, bytes_of_string t) :: deltas r
  | _ -> []
(* names at which the mock walker's state is observed: every "REG:" token of every text, without ':' and a leading '$' *)
let names_of (texts : string list) : z list list =
  List.concat_map (fun t ->
    List.filter_map (fun tok ->
      let n = String.length tok in
      if n > 0 && tok.[n - 1] = ':' then
        let b = String.sub tok 0 (n - 1) in
        let b = if String.length b > 0 && b.[0] = '$' then String.sub b 1 (String.length b - 1) else b in
        Some (bytes_of_string b)
      else None)
      (List.filter (fun x -> x <> "") (String.split_on_char ' ' (String.map (fun c -> if c = '\t' || c = '\012' then ' ' else c) t))))
    texts
let opt_str = function Some v -> string_of_z v | None -> "-"
let fmt_regs l =
  String.concat "," (List.map (fun (k, v) -> k ^ "=" ^ v)
    (List.sort compare (List.map (fun (n, v) -> (string_of_bytes n, string_of_z v)) l)))
let () =
  try
    while true do
      let line = input_line stdin in
      if String.length line > 0 && line.[0] <> '#' then begin
        let f = Array.of_list (String.split_on_char '|' line) in
        let rest i = Array.to_list (Array.sub f i (Array.length f - i)) in
        let o, kind =
          if f.(0) = "A" then begin
            let ds = deltas (rest 9) in
            let texts = f.(8) :: List.map (fun (_, t) -> string_of_bytes t) ds in
            run_mock_gen (z_of_string f.(1)) (z_of_string f.(2)) (z_of_string f.(3)) (z_of_string f.(4))
              (parse_regs f.(5)) (z_of_string f.(6)) (unhex f.(7)) (bytes_of_string f.(8)) ds (names_of texts), 'A'
          end else if f.(0) = "M" then begin
            let recs = List.map (fun r -> String.split_on_char ';' r) (rest 6) in
            let mk = function
              | ia :: isz :: init :: ds -> { c_init = (z_of_string ia, bytes_of_string init); c_size = z_of_string isz; c_add = deltas ds }
              | _ -> failwith "rec" in
            let texts = List.concat_map (function
              | _ :: _ :: init :: ds -> init :: List.map (fun (_, t) -> string_of_bytes t) (deltas ds)
              | _ -> []) recs in
            run_mock_file_gen (z_of_string f.(1)) (z_of_string f.(2)) (parse_regs f.(3)) (z_of_string f.(4)) (unhex f.(5))
              (List.map mk recs) (names_of texts), 'A'
          end else begin
            let k = match f.(1) with "x86" -> 0 | "amd64" -> 1 | "arm64" | "arm64_old" (* arm64_old.rs = arm64.rs modulo the context type: pinned by translate/c06_cfi_ops.py *) -> 2 | "arm" -> 3 | "mips" -> 4 | "mips64" -> 5 | _ -> failwith "arch" in
            let valid = if f.(3) = "all" then None
              else Some (if f.(3) = "-" then [] else List.map bytes_of_string (String.split_on_char ',' f.(3))) in
            run_real2_gen (z_of_int k) (parse_regs f.(2)) valid (z_of_string f.(4)) (unhex f.(5))
              (z_of_string f.(6)) (z_of_string f.(7)) (bytes_of_string f.(8)) (deltas (rest 9)), 'B'
          end in
        let st = int_of_z (o_status o) in
        if st = 2 then print_endline "P;;model"
        else if st = 0 then print_endline "N"
        else if kind = 'A' then
          print_endline (Printf.sprintf "S|cfa=%s|ra=%s|regs=%s|cleared=%s" (opt_str (o_cfa o)) (opt_str (o_ra o))
            (fmt_regs (o_regs o)) (String.concat "," (List.sort compare (List.map string_of_bytes (o_cleared o)))))
        else begin
          let names = List.sort compare (List.map (fun (n, _) -> string_of_bytes n) (o_regs o)) in
          print_endline (Printf.sprintf "S|valid=%s|regs=%s" (String.concat "," names) (fmt_regs (o_regs o)))
        end
      end
    done
  with End_of_file -> ()
