(* c07 model driver: same '|'-separated case lines as harness/src/bin/c07.rs *)
let bytes_of_string (s : string) : z list =
  List.init (String.length s) (fun i -> z_of_int (Char.code s.[i]))
let string_of_bytes (b : z list) : string =
  String.concat "" (List.map (fun c -> String.make 1 (Char.chr (int_of_z c))) b)
let unhex (s : string) : z list =
  if s = "-" then [] else List.init (String.length s / 2) (fun i -> z_of_int (int_of_string ("0x" ^ String.sub s (2 * i) 2)))
let parse_regs (s : string) =
  if s = "-" || s = "" then [] else
  List.map (fun kv -> match String.split_on_char '=' kv with
    | [k; v] -> (bytes_of_string k, z_of_string v) | _ -> failwith "reg") (String.split_on_char ',' s)
(* split off the first n space-separated fields; the remainder (may contain spaces) is returned whole *)
let rec fields n s =
  if n = 0 then ([], s) else
  match String.index_opt s ' ' with
  | None -> ([s], "")
  | Some i -> let (fs, rest) = fields (n - 1) (String.sub s (i + 1) (String.length s - i - 1)) in
              (String.sub s 0 i :: fs, rest)
let chr1 s = z_of_int (Char.code s.[0])
let parse_rec (r : string) =
  let (k, rest) = fields 1 r in
  match k with
  | ["W"] ->
      let (p, prog) = fields 10 rest in
      let p = Array.of_list p in
      let n i = z_of_string p.(i) in
      RWin (chr1 p.(0), n 1, n 2, n 3, n 4, n 5, n 6, n 7, n 8, chr1 p.(9), bytes_of_string prog)
  | ["C"] ->
      let (p, rules) = fields 2 rest in
      let p = Array.of_list p in
      RCfi (z_of_string p.(0), z_of_string p.(1), bytes_of_string rules)
  | _ -> failwith "rec"
(* the text of the symbol file, formatted exactly as harness/src/bin/c07.rs does *)
let hex (x : z) : string = ZA.format "%x" (z_to_zt x)
let rec_text (r : string) : string =
  let (k, rest) = fields 1 r in
  match k with
  | ["W"] ->
      let (p, prog) = fields 10 rest in
      let p = Array.of_list p in
      let n i = hex (z_of_string p.(i)) in
      Printf.sprintf "STACK WIN %s %s %s %s %s %s %s %s %s %s %s" p.(0) (n 1) (n 2) (n 3) (n 4) (n 5) (n 6) (n 7) (n 8) p.(9) prog
  | ["C"] ->
      let (p, rules) = fields 2 rest in
      let p = Array.of_list p in
      Printf.sprintf "STACK CFI INIT %s %s %s" (hex (z_of_string p.(0))) (hex (z_of_string p.(1))) rules
  | _ -> failwith "rec"
let names_of (texts : string list) : z list list =
  List.concat_map (fun t ->
    List.filter_map (fun tok ->
      let n = String.length tok in
      if n > 0 && tok.[n - 1] = ':' then
        let b = String.sub tok 0 (n - 1) in
        let b = if String.length b > 0 && b.[0] = '$' then String.sub b 1 (String.length b - 1) else b in
        Some (bytes_of_string b)
      else None)
      (List.filter (fun x -> x <> "") (String.split_on_char ' ' t)))
    texts
let six = ["eip"; "esp"; "ebp"; "ebx"; "esi"; "edi"]
let opt_str = function Some v -> string_of_z v | None -> "-"
let fmt_regs l =
  String.concat "," (List.map (fun (k, v) -> k ^ "=" ^ v)
    (List.sort compare (List.map (fun (n, v) -> (string_of_bytes n, string_of_z v)) l)))
let () =
  try
    while true do
      let line = input_line stdin in
      if String.length line > 0 && line.[0] <> '#' then begin
        let f = Array.of_list (String.split_on_char '|' line) in
        let rest i = Array.to_list (Array.sub f i (Array.length f - i)) in
        if f.(0) = "G" then begin
          (* whole walk: W;eip,esp,ebp;... *)
          let funcs = if f.(4) = "-" then [] else
            List.map (fun fu -> match String.split_on_char ' ' fu with
              | [a; s; p] -> ((z_of_string a, z_of_string s), z_of_string p) | _ -> failwith "func") (String.split_on_char ';' f.(4)) in
          let show frames = "W;" ^ String.concat ";" (List.map (fun r ->
            string_of_z (x_eip r) ^ "," ^ string_of_z (x_esp r) ^ "," ^ string_of_z (x_ebp r)) frames) in
          let recs = List.map parse_rec (rest 5) in
          let a1 = show (run_walk7 (parse_regs f.(1)) (z_of_string f.(2)) (unhex f.(3)) funcs recs) in
          (* the same walk over the evaluators COMPILED from walker.rs (Gen/C07WinEval.v) *)
          let a3 = show (run_walk7_src (parse_regs f.(1)) (z_of_string f.(2)) (unhex f.(3)) funcs recs) in
          if a1 = a3 then print_endline a1 else print_endline ("D;;record-model=" ^ a1 ^ " source-model=" ^ a3)
        end else
        let o, o2, o3, kind =
          if f.(0) = "A" then begin
            let recs = List.map parse_rec (rest 7) in
            let cfi_texts = List.filter_map (function RCfi (_, _, t) -> Some (string_of_bytes t) | _ -> None) recs in
            let names = List.map bytes_of_string (six @ List.map (fun n -> "$" ^ n) six) @ names_of cfi_texts in
            let lines = List.map bytes_of_string ("MODULE windows x86 ABCD1234 m" :: List.map rec_text (rest 7)) in
            run_mock7 (z_of_string f.(1)) (z_of_string f.(2)) (f.(3) = "1") (parse_regs f.(4))
              (z_of_string f.(5)) (unhex f.(6)) recs names,
            run_mock7_text (z_of_string f.(1)) (z_of_string f.(2)) (f.(3) = "1") (parse_regs f.(4))
              (z_of_string f.(5)) (unhex f.(6)) lines names,
            run_mock7_src (z_of_string f.(1)) (z_of_string f.(2)) (f.(3) = "1") (parse_regs f.(4))
              (z_of_string f.(5)) (unhex f.(6)) recs names, 'A'
          end else if f.(0) = "F" then begin
            let below = if f.(1) = "." then [] else
              List.map (fun x -> if x = "-" then None else Some (z_of_string x)) (String.split_on_char ',' f.(1)) in
            let valid = if f.(3) = "all" then None
              else Some (if f.(3) = "-" then [] else List.map bytes_of_string (String.split_on_char ',' f.(3))) in
            let lines = List.map bytes_of_string ("MODULE Linux x86 ABCD1234 m1" :: List.map rec_text (rest 6)) in
            run_frames7 below (parse_regs f.(2)) valid (z_of_string f.(4)) (unhex f.(5)) (List.map parse_rec (rest 6)),
            run_frames7_text below (parse_regs f.(2)) valid (z_of_string f.(4)) (unhex f.(5)) lines,
            run_frames7_src below (parse_regs f.(2)) valid (z_of_string f.(4)) (unhex f.(5)) (List.map parse_rec (rest 6)), 'F'
          end else begin
            let valid = if f.(2) = "all" then None
              else Some (if f.(2) = "-" then [] else List.map bytes_of_string (String.split_on_char ',' f.(2))) in
            let lines = List.map bytes_of_string ("MODULE Linux x86 ABCD1234 m1" :: List.map rec_text (rest 5)) in
            run_real7 (parse_regs f.(1)) valid (z_of_string f.(3)) (unhex f.(4)) (List.map parse_rec (rest 5)),
            run_real7_text (parse_regs f.(1)) valid (z_of_string f.(3)) (unhex f.(4)) lines,
            run_real7_src (parse_regs f.(1)) valid (z_of_string f.(3)) (unhex f.(4)) (List.map parse_rec (rest 5)), 'B'
          end in
        let render o =
          let st = int_of_z (o_status o) in
          if st = 2 then "P;;model"
          else if st = 4 then "E"
          else if st = 0 then "N"
          else if kind = 'A' then
            Printf.sprintf "S|cfa=%s|ra=%s|regs=%s|cleared=%s" (opt_str (o_cfa o)) (opt_str (o_ra o))
              (fmt_regs (o_regs o)) (String.concat "," (List.sort compare (List.map string_of_bytes (o_cleared o))))
          else begin
            let names = List.sort compare (List.map (fun (n, _) -> string_of_bytes n) (o_regs o)) in
            Printf.sprintf "S|valid=%s|regs=%s" (String.concat "," names) (fmt_regs (o_regs o))
          end in
        let a1 = render o and a2 = render o2 and a3 = render o3 in
        (* the record-level model (the one the older theorems are stated about), the text-level model and the model
           COMPILED from walker.rs / mod.rs on this run (Source.src_walk_frame over Gen/C07WinEval.v) must agree *)
        if a1 = a2 && a1 = a3 then print_endline a1
        else print_endline ("D;;record-model=" ^ a1 ^ " text-model=" ^ a2 ^ " source-model=" ^ a3)
      end
    done
  with End_of_file -> ()
