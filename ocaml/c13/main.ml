(* c13 model driver.  R <hex limits stream> -> the names of the "proc_limits" array in the order
   print_json emits them; every other case (the direct oracle) is outside the model: "?" *)
let unhex (s : string) : z list =
  if s = "-" then []
  else List.init (String.length s / 2) (fun i -> z_of_int (int_of_string ("0x" ^ String.sub s (2 * i) 2)))
let hex (l : z list) : string =
  if l = [] then "-" else String.concat "" (List.map (fun b -> Printf.sprintf "%02x" (int_of_z b)) l)

let q_observe_arm = ["r4"; "r5"; "r6"; "r7"; "r8"; "r9"; "r10"; "r11"; "fp"; "r14"; "lr"; "r0"; "r12"]
let q_observe = ["x19"; "x20"; "x21"; "x22"; "x23"; "x24"; "x25"; "x26"; "x27"; "x28"; "x29"; "fp"; "x30"; "lr"; "x0"]

let () =
  try
    while true do
      let line = input_line stdin in
      if String.length line > 0 && line.[0] <> '#' then begin
        let toks = split_ws line in
        let out =
          match toks with
          | "R" :: h :: _ ->
            (match run_limits_json (unhex h) with
             | None -> "P;;"
             | Some l ->
               let lim = function Unlimited -> "u" | Limited v -> string_of_z v in
               "R " ^ String.concat "," (List.map (fun (n, ((s, h), u)) -> Printf.sprintf "%s:%s:%s:%s" (hex n) (lim s) (lim h) (hex u)) l))
          | "E" :: spec :: mods :: _ ->
            (* E c1:m1+m2,c2:m1 m1,m2,m3   (ASCII tokens) *)
            let bytes_of (t : string) : z list = List.init (String.length t) (fun i -> z_of_int (Char.code t.[i])) in
            let str_of (l : z list) : string = String.concat "" (List.map (fun b -> String.make 1 (Char.chr (int_of_z b))) l) in
            let certs = List.map (fun e ->
                match String.split_on_char ':' e with
                | [c; ms] -> (bytes_of c, List.map (fun m -> bytes_of (m ^ ".dll")) (String.split_on_char '+' ms))
                | _ -> failwith "cert") (String.split_on_char ',' spec) in
            let ms = List.map (fun m -> bytes_of (m ^ ".dll")) (String.split_on_char ',' mods) in
            "E " ^ String.concat "," (List.map (fun o -> match o with None -> "-" | Some c -> str_of c) (run_certs certs ms))
          | "B" :: regs :: _ ->
            (* B rcx,rdx,rcx | <dump spec>: the registers of the crashing instruction's memory operand in operand order *)
            let bytes_of (t : string) : z list = List.init (String.length t) (fun i -> z_of_int (Char.code t.[i])) in
            let str_of (l : z list) : string = String.concat "" (List.map (fun b -> String.make 1 (Char.chr (int_of_z b))) l) in
            let r = run_bitflip_sources (List.map bytes_of (String.split_on_char ',' regs)) in
            "B " ^ (if r = [] then "none" else String.concat "," (List.map str_of r))
          | "U" :: addrs :: rest ->
            (* U a1,a2 base:size:namehex;...   -> per address the (name, offsets) entries, once for the JSON and once for the text report *)
            let mods = match rest with
              | m :: _ when m <> "-" -> List.map (fun e -> match String.split_on_char ':' e with
                  | [b; sz; n] -> ((unhex n, z_of_string b), z_of_string sz) | _ -> failwith "umod") (String.split_on_char ';' m)
              | _ -> [] in
            let al = List.map z_of_string (String.split_on_char ',' addrs) in
            let one = function
              | None -> "P;;"
              | Some [] -> "-"
              | Some ents -> String.concat "," (List.map (fun (n, offs) -> hex n ^ "@" ^ String.concat "|" (List.map string_of_z offs)) ents) in
            let r = String.concat ";" (List.map one (run_unloaded mods al)) in
            "U " ^ r ^ " T " ^ r
          | "L" :: lsb :: status :: cpuinfo :: _ ->
            let ((fields, line), (pid, mc)) = run_linux (unhex lsb) (unhex status) (unhex cpuinfo) in
            Printf.sprintf "L %s pid=%s mc=%s line=%s" (String.concat "," (List.map hex fields)) (string_of_z pid)
              (match mc with None -> "-" | Some v -> "0x" ^ ZA.format "%x" (z_to_zt v)) (hex line)
          | "Q" :: callee :: lines :: rest ->
            let arm = (rest = ["arm"]) in
            (* Q x19=1019,...,fp=1029 x29=728,x19=!;fp=872,x29=422   (! = an expression that fails) *)
            let bytes_of (t : string) : z list = List.init (String.length t) (fun i -> z_of_int (Char.code t.[i])) in
            let kv (e : string) = match String.split_on_char '=' e with [k; v] -> (k, v) | _ -> failwith "k=v" in
            let cal = List.map (fun e -> let (k, v) = kv e in (bytes_of k, z_of_string v)) (String.split_on_char ',' callee) in
            let written = List.concat_map (fun l -> if l = "-" then [] else List.map (fun e -> let (k, v) = kv e in
                (bytes_of k, if v = "!" then None else Some (z_of_string v))) (String.split_on_char ',' l)) (String.split_on_char ';' lines) in
            let observe = List.map bytes_of (if arm then q_observe_arm else q_observe) in
            "Q " ^ String.concat "," (List.map (fun o -> match o with None -> "-" | Some v -> string_of_z v) (run_cfi_rules arm written cal observe))
          | "P" :: scr :: nts :: rest ->
            (* P <susp,outc;...> <nt> <trees> | <dump spec>   (the model ignores the dump: the trees ARE the threads) *)
            let toks = ref rest in
            let next () = match !toks with t :: r -> toks := r; t | [] -> failwith "P: short case" in
            let nat_of_int i = a_nat_of_z (z_of_int i) in
            let int_of_nat n = int_of_z (a_z_of_nat n) in
            let outcome_of_int = function 0 -> OOk | 1 -> ONotFound | 2 -> OMissing | 3 -> OLoad | _ -> OParse in
            let scripts = List.map (fun e -> match String.split_on_char ',' e with
                | [a; b] -> (nat_of_int (int_of_string a), outcome_of_int (int_of_string b)) | _ -> failwith "script") (String.split_on_char ';' scr) in
            let rec tree () =
              let t = next () in
              let v = int_of_string (String.sub t 1 (String.length t - 1)) in
              if t.[0] = 'd' then a_done (nat_of_int v)
              else (let ok = tree () in let err = tree () in a_ask (nat_of_int v) ok err) in
            let trees = List.init (int_of_string nts) (fun _ -> tree ()) in
            let ((_, logs), (calls, (stats, (req, proc)))) = run_adaptive scripts trees [] (nat_of_int 400) in
            let join sep f l = if l = [] then "-" else String.concat sep (List.map f l) in
            Printf.sprintf "P %s;%s;%s;%d/%d"
              (join "|" (fun l -> join "." (fun (k, _) -> string_of_int (int_of_nat k)) l) logs)
              (join "." (fun k -> string_of_int (int_of_nat k)) calls)
              (join "," (fun st -> match st with None -> "-" | Some o -> (if stat_loaded o then "L" else "l") ^ (if stat_corrupt o then "C" else "c")) stats)
              (int_of_nat req) (int_of_nat proc)
          | "A" :: rest ->
            (* A nk {susp outc}*nk nt {tree}*nt ns {t}*ns ; tree = d<v> | k<key> <ok subtree> <err subtree> *)
            let toks = ref rest in
            let next () = match !toks with t :: r -> toks := r; t | [] -> failwith "A: short case" in
            let nat_of_int i = a_nat_of_z (z_of_int i) in
            let int_of_nat n = int_of_z (a_z_of_nat n) in
            let outcome_of_int = function 0 -> OOk | 1 -> ONotFound | 2 -> OMissing | 3 -> OLoad | _ -> OParse in
            let nk = int_of_string (next ()) in
            let scripts = List.init nk (fun _ -> let su = int_of_string (next ()) in let oc = int_of_string (next ()) in
                                                  (nat_of_int su, outcome_of_int oc)) in
            let rec tree () =
              let t = next () in
              let v = int_of_string (String.sub t 1 (String.length t - 1)) in
              if t.[0] = 'd' then a_done (nat_of_int v)
              else (let ok = tree () in let err = tree () in a_ask (nat_of_int v) ok err) in
            let nt = int_of_string (next ()) in
            let trees = List.init nt (fun _ -> tree ()) in
            let ns = int_of_string (next ()) in
            let sched = List.init ns (fun _ -> nat_of_int (int_of_string (next ()))) in
            let ((res, logs), (calls, (stats, (req, proc)))) = run_adaptive scripts trees sched (nat_of_int 200) in
            let join sep f l = if l = [] then "-" else String.concat sep (List.map f l) in
            Printf.sprintf "A %s;%s;%s;%s;%d/%d"
              (join "," (fun r -> match r with None -> "?" | Some v -> string_of_int (int_of_nat v)) res)
              (join "|" (fun l -> join "." (fun (k, o) -> Printf.sprintf "%d:%d" (int_of_nat k) (if o = OOk then 1 else 0)) l) logs)
              (join "." (fun k -> string_of_int (int_of_nat k)) calls)
              (join "," (fun st -> match st with None -> "-" | Some o -> (if stat_loaded o then "L" else "l") ^ (if stat_corrupt o then "C" else "c")) stats)
              (int_of_nat req) (int_of_nat proc)
          | _ -> "?" in
        print_endline out
      end
    done
  with End_of_file -> ()
