(* c13 model driver.  R <hex limits stream> -> the names of the "proc_limits" array in the order
   print_json emits them; every other case (the direct oracle) is outside the model: "?" *)
let unhex (s : string) : z list =
  if s = "-" then []
  else List.init (String.length s / 2) (fun i -> z_of_int (int_of_string ("0x" ^ String.sub s (2 * i) 2)))
let hex (l : z list) : string =
  if l = [] then "-" else String.concat "" (List.map (fun b -> Printf.sprintf "%02x" (int_of_z b)) l)

let () =
  try
    while true do
      let line = input_line stdin in
      if String.length line > 0 && line.[0] <> '#' then begin
        let toks = split_ws line in
        let out =
          match toks with
          | "R" :: h :: _ ->
            (match run_limits_json (unhex h) with
             | None -> "P;;"
             | Some l -> "R " ^ String.concat "," (List.map hex l))
          | _ -> "?" in
        print_endline out
      end
    done
  with End_of_file -> ()
