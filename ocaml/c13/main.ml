(* c13 model driver.  R <hex limits stream> -> the names of the "proc_limits" array in the order
   print_json emits them; every other case (the direct oracle) is outside the model: "?" *)
let unhex (s : string) : z list =
  if s = "-" then []
  else List.init (String.length s / 2) (fun i -> z_of_int (int_of_string ("0x" ^ String.sub s (2 * i) 2)))
let hex (l : z list) : string =
  if l = [] then "-" else String.concat "" (List.map (fun b -> Printf.sprintf "%02x" (int_of_z b)) l)

let () =
  try
    while true do
      let line = input_line stdin in
      if String.length line > 0 && line.[0] <> '#' then begin
        let toks = split_ws line in
        let out =
          match toks with
          | "R" :: h :: _ ->
            (match run_limits_json (unhex h) with
             | None -> "P;;"
             | Some l -> "R " ^ String.concat "," (List.map hex l))
          | "E" :: spec :: mods :: _ ->
            (* E c1:m1+m2,c2:m1 m1,m2,m3   (ASCII tokens) *)
            let bytes_of (t : string) : z list = List.init (String.length t) (fun i -> z_of_int (Char.code t.[i])) in
            let str_of (l : z list) : string = String.concat "" (List.map (fun b -> String.make 1 (Char.chr (int_of_z b))) l) in
            let certs = List.map (fun e ->
                match String.split_on_char ':' e with
                | [c; ms] -> (bytes_of c, List.map (fun m -> bytes_of (m ^ ".dll")) (String.split_on_char '+' ms))
                | _ -> failwith "cert") (String.split_on_char ',' spec) in
            let ms = List.map (fun m -> bytes_of (m ^ ".dll")) (String.split_on_char ',' mods) in
            "E " ^ String.concat "," (List.map (fun o -> match o with None -> "-" | Some c -> str_of c) (run_certs certs ms))
          | "L" :: lsb :: status :: cpuinfo :: _ ->
            let ((fields, line), (pid, mc)) = run_linux (unhex lsb) (unhex status) (unhex cpuinfo) in
            Printf.sprintf "L %s pid=%s mc=%s line=%s" (String.concat "," (List.map hex fields)) (string_of_z pid)
              (match mc with None -> "-" | Some v -> "0x" ^ ZA.format "%x" (z_to_zt v)) (hex line)
          | _ -> "?" in
        print_endline out
      end
    done
  with End_of_file -> ()
