(* c09 / c10 model driver.  One case per line (same syntax as harness/src/symcase.rs):
     <segment>* | <schedule token>*      segment = x<hex> | r<hh>*<count> | t<ignored label>     schedule = <n> | <n>*<k>
   The bytes are cut into '\n'-terminated lines (each kept run-length encoded, without its
   '\n') and the rest after the last '\n'; the model only needs the length of that rest.
   Answer:  R=<OK|E<code>:<line>|P<tag>|FUEL>;cb=<bytes>,<calls>;nr=<reads>;ms=<max space>;ev=<hash of the read/callback event sequence>,<events>;T=<canonical symbol table>
            ;;cap=<final capacity>;dropped=<lines discarded>;S=<what C10's spec says>;ST=<its table>
            ;X=<buffer transitions: grows,shifts,discard iterations,recoveries,zero reads,full-buffer reads>;K=<record kinds in the input>;EK=<kind of the rejected line> *)
let parse_case (line : string) : (int * int) list * string list =
  let rec go toks runs =
    match toks with
    | [] -> (List.rev runs, [])
    | "|" :: rest -> (List.rev runs, rest)
    | t :: rest ->
      let len = String.length t in
      if t.[0] = 'x' then begin
        let runs = ref runs in
        if t <> "x-" then
          for i = 0 to (len - 1) / 2 - 1 do
            runs := (int_of_string ("0x" ^ String.sub t (1 + 2 * i) 2), 1) :: !runs
          done;
        go rest !runs
      end else if t.[0] = 'r' then begin
        let star = String.index t '*' in
        let b = int_of_string ("0x" ^ String.sub t 1 (star - 1)) in
        let c = int_of_string (String.sub t (star + 1) (len - star - 1)) in
        go rest (if c > 0 then (b, c) :: runs else runs)
      end else if t.[0] = 't' then go rest runs
      else failwith ("bad segment " ^ t)
  in
  go (split_ws line) []

(* lines (reversed runs -> in order), tail *)
let split_lines (runs : (int * int) list) =
  let lines = ref [] and cur = ref [] in
  List.iter (fun (b, c) ->
      if b = 10 then begin
        lines := List.rev !cur :: !lines;
        cur := [];
        for _ = 2 to c do lines := [] :: !lines done
      end else cur := (b, c) :: !cur) runs;
  (List.rev !lines, List.rev !cur)

let expand_sched (toks : string list) =
  List.concat_map (fun t ->
      match String.index_opt t '*' with
      | Some i ->
        let n = int_of_string (String.sub t 0 i) in
        let k = int_of_string (String.sub t (i + 1) (String.length t - i - 1)) in
        List.init k (fun _ -> z_of_int n)
      | None -> [z_of_int (int_of_string t)]) toks

(* ---- canonical text of a symbol table (the same text is produced by harness/src/symcase.rs) ----
   strings: up to 40 bytes as hex, longer ones as L<length>H<FNV-1a 64>; '-' for the empty string *)
let str_of_rle (s : (z * z) list) : string =
  let runs = List.map (fun (b, c) -> (int_of_z b, int_of_z c)) s in
  let len = List.fold_left (fun a (_, c) -> a + c) 0 runs in
  if len = 0 then "-"
  else if len <= 40 then begin
    let b = Buffer.create 80 in
    List.iter (fun (x, c) -> for _ = 1 to c do Buffer.add_string b (Printf.sprintf "%02x" x) done) runs;
    Buffer.contents b
  end else begin
    let h = ref 0xcbf29ce484222325L in
    List.iter (fun (x, c) ->
        for _ = 1 to c do
          h := Int64.mul (Int64.logxor !h (Int64.of_int x)) 0x100000001b3L
        done) runs;
    Printf.sprintf "L%dH%016Lx" len !h
  end

let zs = string_of_z
let cat sep f l = String.concat sep (List.map f l)
let render_map m = cat "," (fun (k, v) -> zs k ^ ":" ^ str_of_rle v) m
let render_win l =
  cat " " (fun ((s, e), w) ->
      Printf.sprintf "%s-%s:%s:%s:%s:%s:%s:%s:%s:%s:%s" (zs s) (zs e) (zs (wi_addr w)) (zs (wi_size w))
        (zs (wi_prolog w)) (zs (wi_epilog w)) (zs (wi_params w)) (zs (wi_saved w)) (zs (wi_locals w))
        (zs (wi_maxstack w))
        (match wi_thing w with
         | ProgramString p -> "P" ^ str_of_rle p
         | AllocatesBasePointer b -> if b then "B1" else "B0")) l
let render_table (t : table) : string =
  let funcs = cat " " (fun ((s, e), f) ->
      Printf.sprintf "%s-%s:%s:%s:%s:%s(%s)(%s)" (zs s) (zs e) (zs (sf_addr f)) (zs (sf_size f)) (zs (sf_psize f))
        (str_of_rle (sf_name f))
        (cat "," (fun ((ls, le), l) ->
             Printf.sprintf "%s-%s:%s:%s:%s:%s" (zs ls) (zs le) (zs (l_addr l)) (zs (l_size l)) (zs (l_file l)) (zs (l_line l)))
            (sf_lines f))
        (cat "," (fun i ->
             Printf.sprintf "%s/%s/%s/%s/%s/%s" (zs (i_depth i)) (zs (i_addr i)) (zs (i_size i)) (zs (i_cfile i))
               (zs (i_cline i)) (zs (i_origin i))) (sf_inls f))) (t_funcs t) in
  let cfis = cat " " (fun ((s, e), c) ->
      Printf.sprintf "%s-%s:%s:%s:%s(%s)" (zs s) (zs e) (zs (cr_addr (sc_init c))) (zs (sc_size c))
        (str_of_rle (cr_rules (sc_init c)))
        (cat "," (fun r -> zs (cr_addr r) ^ ":" ^ str_of_rle (cr_rules r)) (sc_add c))) (t_cfi t) in
  Printf.sprintf "M%s|%s#F%s#O%s#P%s#N%s#C%s#WD%s#WF%s#U%s"
    (str_of_rle (t_module_id t)) (str_of_rle (t_debug_file t))
    (render_map (t_files t)) (render_map (t_origins t))
    (cat "," (fun p -> zs (pb_addr p) ^ ":" ^ zs (pb_psize p) ^ ":" ^ str_of_rle (pb_name p)) (t_publics t))
    funcs cfis (render_win (t_win_fd t)) (render_win (t_win_fpo t))
    (match t_url t with Some u -> "S" ^ str_of_rle u | None -> "N")

(* kind of a line by its first bytes (for the input distribution only) *)
let prefix_of (l : (int * int) list) : string =
  let b = Buffer.create 24 in
  (try List.iter (fun (x, c) ->
       for _ = 1 to c do
         if Buffer.length b >= 20 then raise Exit;
         Buffer.add_char b (Char.chr (x land 255))
       done) l with Exit -> ());
  Buffer.contents b
let starts s p = String.length s >= String.length p && String.sub s 0 (String.length p) = p
let kind_of (l : (int * int) list) : string =
  let s = prefix_of l in
  if List.for_all (fun (x, _) -> x = 13) l then "blank"
  else if starts s "MODULE " then "MODULE"
  else if starts s "INFO URL " then "INFO_URL"
  else if starts s "INFO CODE_ID " then "INFO_CODE_ID"
  else if starts s "INFO " then "INFO_other"
  else if starts s "FILE " then "FILE"
  else if starts s "INLINE_ORIGIN " then "INLINE_ORIGIN"
  else if starts s "INLINE " then "INLINE"
  else if starts s "FUNC m " then "FUNC_m"
  else if starts s "FUNC " then "FUNC"
  else if starts s "PUBLIC m " then "PUBLIC_m"
  else if starts s "PUBLIC " then "PUBLIC"
  else if starts s "STACK WIN " then "STACK_WIN"
  else if starts s "STACK CFI INIT " then "STACK_CFI_INIT"
  else if starts s "STACK CFI " then "STACK_CFI"
  else if String.length s > 0 && (match s.[0] with '0'..'9' | 'a'..'f' | 'A'..'F' -> true | _ -> false) then "line_record"
  else "other"

let cls k c l =
  match int_of_z k with
  | 0 -> "OK"
  | 1 -> "E" ^ string_of_z c ^ ":" ^ string_of_z l
  | 2 -> "P" ^ string_of_z c
  | _ -> "FUEL"

(* chunks of the async run: the schedule's sizes (at least 1 byte each, at most what is left), then the rest as one chunk *)
let async_chunks (total : int) (sched : int list) : int list =
  let rec go left sch acc =
    if left <= 0 then List.rev acc
    else match sch with
      | [] -> List.rev (left :: acc)
      | c :: t -> let n = min (max 1 c) left in go (left - n) t (n :: acc)
  in
  go total sched []

let with_async = Array.length Sys.argv > 1 && Sys.argv.(1) = "async"

(* the byte-level run is made when  reads * (largest buffer offered + input length) <= spy_max_work  and the input is short *)
let spy_max_len = 131072
let spy_max_work = 1200000
let byte_z = Array.init 256 z_of_int

let () =
  try
    while true do
      let line = input_line stdin in
      if String.length line > 0 && line.[0] <> '#' then begin
        let runs, stoks = parse_case line in
        let lines, tail = split_lines runs in
        let conv l = List.map (fun (b, c) -> (z_of_int b, z_of_int c)) l in
        let tail_len = List.fold_left (fun a (_, c) -> a + c) 0 tail in
        let o = run_case (List.map conv lines) (z_of_int tail_len) (expand_sched stoks) in
        let t = match o_table o with Some t -> render_table t | None -> "-" in
        let st = match o_stable o with Some t -> render_table t | None -> "-" in
        let zlines = List.map conv lines and ztail = z_of_int tail_len and zs = expand_sched stoks in
        let tr = run_trace zlines ztail zs in
        let kinds = List.sort_uniq compare (List.map kind_of lines @ (if tail_len > 0 then ["unterminated"] else [])) in
        let ek = match first_rest zlines ztail zs with
          | Some l -> kind_of (List.map (fun (b, c) -> (int_of_z b, int_of_z c)) l)
          | None -> "-" in
        let async_part =
          if not with_async then "" else begin
            let total = List.fold_left (fun a l -> a + 1 + List.fold_left (fun a (_, c) -> a + c) 0 l) tail_len lines in
            let chunks = async_chunks total (List.map int_of_z zs) in
            let (ao, atr) = run_async zlines ztail (List.map z_of_int chunks) in
            Printf.sprintf ";A=%s;acb=%s,%s;aev=%s,%s;AT=%s"
              (cls (o_kind ao) (o_code ao) (o_line ao)) (string_of_z (o_cb ao)) (string_of_z (o_ncb ao))
              (string_of_z (tr_hash atr)) (string_of_z (tr_events atr))
              (match o_table ao with Some t -> render_table t | None -> "-")
          end in
        (* round 5: the run on real bytes (C09/Circular.v), when it is cheap enough: the same rule as harness/src/bin/c09.rs *)
        let total_len = List.fold_left (fun a (_, c) -> a + c) 0 runs in
        let nrd = int_of_z (o_nrd o) and msp = int_of_z (o_maxsp o) in
        let bytes_part =
          if with_async then ""
          else if int_of_z (o_kind o) > 1 || total_len > spy_max_len || nrd * (msp + total_len) > spy_max_work then ";sp=*"
          else begin
            let inp = List.concat_map (fun (b, c) -> List.init c (fun _ -> byte_z.(b land 255))) runs in
            let bo = run_bytes zlines ztail zs inp in
            Printf.sprintf ";sp=%s,%s:%s:%s:%s"
              (string_of_z (bo_spy bo)) (cls (bo_kind bo) (bo_code bo) (bo_line bo)) (string_of_z (bo_cb bo))
              (if bo_cbok bo then "1" else "0") (string_of_z (bo_left bo))
          end in
        let async_part = async_part ^ bytes_part in
        Printf.printf "R=%s;cb=%s,%s;nr=%s;ms=%s;ev=%s,%s;T=%s%s;;cap=%s;dropped=%s;S=%s;ST=%s;X=%s,%s,%s,%s,%s,%s;K=%s;EK=%s\n"
          (cls (o_kind o) (o_code o) (o_line o))
          (string_of_z (o_cb o)) (string_of_z (o_ncb o)) (string_of_z (o_nrd o)) (string_of_z (o_maxsp o))
          (string_of_z (tr_hash tr)) (string_of_z (tr_events tr)) t async_part
          (string_of_z (o_cap o)) (string_of_z (o_dropped o))
          (cls (o_skind o) (o_scode o) (o_sline o)) st
          (string_of_z (tr_grows tr)) (string_of_z (tr_shifts tr)) (string_of_z (tr_discards tr))
          (string_of_z (tr_recovered tr)) (string_of_z (tr_zero_reads tr)) (string_of_z (tr_full_reads tr))
          (String.concat "," kinds) ek
      end
    done
  with End_of_file -> ()
