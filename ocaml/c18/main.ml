(* c18 model driver: one case per line
     <variant> <name> <validity> <value> [<context_flags>|- [<fill>]]
     R <arch> <fill> <len>   (MinidumpContext::read: the context type chosen; Driver.run_read)
     W <variant> <n1>=<v1>,... [<fill>]   (a sequence of set_register calls; Driver.run_writes)
   context_flags: written into the model's context_flags field; fill: every 32-bit word of the base context
   (so every integer field holds the word repeated to its width); absent = the pattern base (sentinel)
   name: `-` = empty string, `~` = a space; validity: `A` or `S:n1,n2,...` (`S:` = empty set)
   output: the model's part of the harness answer (see harness/src/bin/c18.rs) *)
let name_of_string (s : string) : z list =
  if s = "-" then [] else List.init (String.length s) (fun i -> z_of_int (Char.code (if s.[i] = '~' then ' ' else s.[i])))
let string_of_name (n : z list) : string =
  String.concat "" (List.map (fun b -> String.make 1 (Char.chr (int_of_z b))) n)
let keys = ["mz"; "st"; "ga"; "gA"; "gr"; "iv"; "ch"; "sp"; "ip"; "spn"; "ipn"; "rn"; "vn"; "cr"; "cv"; "sz"; "fm"; "mg"; "mga"; "g0"; "sp0"; "ip0"; "sa"; "ia"; "ev"; "mf"]
let show_cell (c : cell) : string =
  match c with
  | CName n -> string_of_name n
  | CNum x -> string_of_z x
  | CB -> "B" | CN -> "N" | CP -> "P"
  | CNames l -> String.concat "," (List.map string_of_name l)
  | CSorted l -> String.concat "," (List.sort compare (List.map string_of_name l))
  | CPairs l -> String.concat "," (List.map (fun (n, x) -> string_of_name n ^ ":" ^ string_of_z x) l)
  | CBits l -> String.concat "" (List.map (fun b -> if b then "1" else "0") l)
let run_writes_line variant ops fill =
  let ops = List.map (fun p -> match String.index_opt p '=' with
      | Some i -> (name_of_string (String.sub p 0 i), z_of_string (String.sub p (i + 1) (String.length p - i - 1)))
      | None -> failwith "name=value") (String.split_on_char ',' ops) in
  match run_writes (name_of_string variant) ops fill with
  | None -> print_endline "E;;unknown context variant"
  | Some [wa; ch; sp; ip] ->
    print_endline ("wa=" ^ show_cell wa ^ ";ch=" ^ show_cell ch ^ ";sp=" ^ show_cell sp ^ ";ip=" ^ show_cell ip)
  | Some _ -> print_endline "P;;model: a write panicked"
let () =
  try
    while true do
      let line = input_line stdin in
      if String.length line > 0 && line.[0] <> '#' then begin
        let opt t = if t = "-" then None else Some (z_of_string t) in
        match (match split_ws line with
               | ["W"; variant; ops] -> run_writes_line variant ops None; Some ("", "", "", "", None, None)
               | ["W"; variant; ops; fill] -> run_writes_line variant ops (Some (z_of_string fill)); Some ("", "", "", "", None, None)
               | ["D"; arch; off; w; flags; e] ->
                 (match run_decode (z_of_string arch) (z_of_string off) (z_of_string w) (z_of_string flags) (e = "B") with
                  | Some (v, [regs; sp; ip]) ->
                    print_endline ("rd=" ^ string_of_name v ^ ";regs=" ^ show_cell regs ^ ";sp=" ^ show_cell sp ^ ";ip=" ^ show_cell ip)
                  | Some (v, _) -> print_endline ("rd=" ^ string_of_name v)
                  | None -> print_endline "E;;run_decode");
                 Some ("", "", "", "", None, None)
               | "R" :: arch :: fill :: len :: be ->
                 let show = function CNum x -> string_of_z x | _ -> "P" in
                 print_endline (match run_read (z_of_string arch) (z_of_string fill) (z_of_string len) (be = ["B"]) with
                                | RdVariant (v, sz, ip) -> "rd=" ^ string_of_name v ^ ";rsz=" ^ show sz ^ ";rip=" ^ show ip
                                | RdReadFailure -> "rd=RF"
                                | RdUnknown -> "rd=UC");
                 Some ("", "", "", "", None, None)
               | [a; b; c; d] -> Some (a, b, c, d, None, None)
               | [a; b; c; d; f] -> Some (a, b, c, d, opt f, None)
               | [a; b; c; d; f; w] -> Some (a, b, c, d, opt f, opt w)
               | _ -> None) with
        | Some ("", _, _, _, _, _) -> ()
        | Some (variant, nm, vspec, value, flags, fill) ->
          let v =
            if vspec = "A" then VAll
            else begin
              let l = String.sub vspec 2 (String.length vspec - 2) in
              VSome (if l = "" then [] else List.map name_of_string (String.split_on_char ',' l))
            end in
          (match run_case (name_of_string variant) (name_of_string nm) v (z_of_string value) flags fill with
           | None -> print_endline "E;;unknown context variant"
           | Some cells ->
             print_endline (String.concat ";" (List.map2 (fun k c -> k ^ "=" ^ show_cell c) keys cells)))
        | None -> print_endline "E;;bad case line"
      end
    done
  with End_of_file -> ()
