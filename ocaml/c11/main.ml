(* c11 model driver.  One case per line:
     M <mbase> <msize> [X <k> (<base> <size> <hassym>)*k] Q <n> <instr>*n R <item>*
   (X: further modules of the module list; module 0 = (mbase, msize) has symbols)
   items (all numbers decimal):
     F id name | O id name | P addr psize name | U addr size psize name
     L addr size line file | I depth cline cfile origin k (addr size)*k | W ty addr size psize tag
     Y bits                       text style from here on: 1 = CRLF line ends (whole file), 2 = upper-case hex, 4 = a leading zero on hex fields,
                                  8 = space-tab-space between the fields
     Z addr size psize name len   a FUNC line longer than MAX_BUFFER_CAPACITY (len >= 163840 padding bytes):
                                  SymbolFile::parse drops it in panic recovery, cur_item stays as it is, so the
                                  sub-records that follow go to the FUNC block that is still open (C09's model:
                                  [recovery] bumps the line count only); with no block open they fail the parse (E)
   L / I belong to the FUNC block opened by the last U (O does not close a block; F P U W do).
   answer:  T<tables>;<q1>;<q2>...   with q = D<out>/S<idx>:<out>|S-/G<name>|G-   or  P;;<tag> *)
let zs = string_of_z
let opt f = function None -> "-" | Some x -> f x

let fmt_out (o : sym_out) : string =
  let f3 = function None -> "-" | Some ((a, b), c) -> zs a ^ "," ^ zs b ^ "," ^ zs c in
  let fi ((n, f), l) = zs n ^ ":" ^ opt zs f ^ ":" ^ opt zs l in
  "fn=" ^ f3 o.o_func ^ "|src=" ^ f3 o.o_src ^ "|inl=" ^ String.concat "," (List.map fi o.o_inl)

let fmt_table (st : symtab) : string =
  let rng (s, e) = zs s ^ "-" ^ zs e in
  let line (r, l) = rng r ^ ":" ^ zs l.l_line ^ ":" ^ zs l.l_file in
  let inl e = String.concat "/" (List.map zs [e.i_depth; e.i_addr; e.i_size; e.i_cfile; e.i_cline; e.i_origin]) in
  let func (r, f) = rng r ^ ":" ^ zs f.fn_name ^ "(" ^ String.concat "," (List.map line f.fn_lines) ^ ")("
                    ^ String.concat "," (List.map inl f.fn_inls) ^ ")" in
  let pub p = zs p.p_addr ^ ":" ^ zs p.p_name ^ ":" ^ zs p.p_psize in
  let win (r, w) = rng r ^ ":" ^ zs w.w_psize ^ ":" ^ zs w.w_tag in
  "T" ^ String.concat " " (List.map func st.st_funcs) ^ "#" ^ String.concat " " (List.map pub st.st_publics)
  ^ "#" ^ String.concat " " (List.map win st.st_win_fd) ^ "#" ^ String.concat " " (List.map win st.st_win_fpo)


(* ------------------------------------------------------------------ round 5: the model reads the TEXT.
   The glue renders the case as the same Breakpad .sym text as harness/src/bin/c11.rs (names = letter + 4 digits +
   decoration, `m` flags, lower-case hex), hands its lines (run-length encoded; an over-long `Z` line is one run of
   padding and carries the decision "dropped") to C09's line recogniser + finish (Driver.table_of_text) and
   symbolicates on the table seen through nm / tg (Text2.symtab_of_table): the executable counterpart of
   c11_from_parse.  The table and every query answer must equal those computed from the records (build_symtab):
   a difference is printed as P;;text-model and shows up as a mismatch with the implementation. *)
let decor = [|
  "";
  " (anonymous namespace)::f<int, char const*>(void*) const";
  " h\xc3\xa9llo w\xc3\xb6rld \xce\xbb\xe2\x86\x92\xf0\x9f\x98\x80";
  "\tTab\there";
  "  two  spaces  ";
  "::operator()(unsigned long) [clone .cold]";
  " m 10 20 PUBLIC FUNC INLINE_ORIGIN";
  "`anonymous namespace'::<lambda_1>::operator()" |]
let name_str (letter : char) (n : z) : string =
  let i = int_of_z n in Printf.sprintf "%c%04d%s" letter i decor.(i mod 8)
let mflag (n : z) : string = if int_of_z n mod 3 = 0 then "m " else ""
(* text style (item Y): 1 = CRLF line ends (whole file), 2 = upper-case hex, 4 = one leading zero (within 16 / 8 digits) *)
let style = ref 0
let crlf = ref false
let hexw (w : int) (v : z) : string =
  let s = ZA.format (if !style land 2 <> 0 then "%X" else "%x") (z_to_zt v) in
  if !style land 4 <> 0 && String.length s < w then "0" ^ s else s
let hex (v : z) : string = hexw 16 v
(* style 8: the field separators number skip .. skip + n - 1 of the line (single spaces) become space, tab, space *)
let sep (skip : int) (n : int) (line : string) : string =
  if !style land 8 = 0 then line
  else begin
    let b = Buffer.create (String.length line + 2 * n) in
    let i = ref 0 in
    String.iter (fun ch ->
      if ch = ' ' then begin
        if !i >= skip && !i < skip + n then Buffer.add_string b " \t " else Buffer.add_char b ' ';
        incr i end
      else Buffer.add_char b ch) line;
    Buffer.contents b
  end
let mlen (n : z) : int = if int_of_z n mod 3 = 0 then 1 else 0
let hex8 (v : z) : string = hexw 8 v
let zbyte = Array.init 256 (fun i -> z_of_int i)
let zone = z_of_int 1
let rle_of_string (s : string) : (z * z) list =
  List.init (String.length s) (fun i -> (zbyte.(Char.code s.[i]), zone))
(* names come back in normal form (runs merged): expand, then read the four digits after the letter *)
let nm_of_rle (r : (z * z) list) : z =
  let b = Buffer.create 16 in
  List.iter (fun (c, k) -> for _ = 1 to max 1 (int_of_z k) do
                             if Buffer.length b < 8 then Buffer.add_char b (Char.chr (int_of_z c)) done) r;
  let s = Buffer.contents b in
  if String.length s >= 5 then z_of_string (string_of_int (int_of_string (String.sub s 1 4))) else z_of_int (-1)
let tg_of_win (w : win_info) : z = w.wi_prolog
(* bytes of text the front-end may still read in this run (VERIF_C11_TEXT_BUDGET, default below) *)
let text_budget = ref (try int_of_string (Sys.getenv "VERIF_C11_TEXT_BUDGET") with _ -> 2000000000)

let () =
  try
    while true do
      let line = input_line stdin in
      if String.length line > 0 && line.[0] <> '#' then begin
        (try
        let toks = Array.of_list (split_ws line) in
        let n = Array.length toks in
        let pos = ref 0 in
        let next () = let t = toks.(!pos) in incr pos; t in
        let nz () = z_of_string (next ()) in
        assert (next () = "M");
        let mbase = nz () in
        let msize = nz () in
        let extra =
          if toks.(!pos) = "X" then begin
            ignore (next ());
            let k = int_of_string (next ()) in
            List.init k (fun _ -> let b = nz () in let sz = nz () in let h = nz () in ((b, sz), h))
          end else [] in
        assert (next () = "Q");
        let nq = int_of_string (next ()) in
        let qs = List.init nq (fun _ -> nz ()) in
        assert (next () = "R");
        let files = ref [] and origins = ref [] and pubs = ref [] and funcs = ref []
        and wfd = ref [] and wfpo = ref [] in
        (* the text, line by line (latest first): (dropped?, run-length encoded line) *)
        style := 0; crlf := false;
        let text = ref [(false, rle_of_string "MODULE Linux x86_64 ABCD1234 m1")] in
        let emit s = text := (false, rle_of_string s) :: !text in
        (* current FUNC block: header + reversed sub-records *)
        let cur = ref None in
        (* a sub-record with no FUNC block open: the parse fails (answer E) *)
        let orphan = ref false in
        let close () =
          match !cur with
          | None -> ()
          | Some ((a, s, ps, nm), ls, is) ->
              funcs := { fr_addr = a; fr_size = s; fr_psize = ps; fr_name = nm;
                         fr_lines = List.rev ls; fr_inls = List.rev is } :: !funcs;
              cur := None in
        while !pos < n do
          match next () with
          | "Y" -> style := int_of_string (next ()); if !style land 1 <> 0 then crlf := true
          | "F" -> close (); let id = nz () in let nm = nz () in files := (id, nm) :: !files;
                   emit (sep 0 2 ("FILE " ^ zs id ^ " " ^ name_str 's' nm))
          | "O" -> let id = nz () in let nm = nz () in origins := (id, nm) :: !origins;
                   emit (sep 0 2 ("INLINE_ORIGIN " ^ zs id ^ " " ^ name_str 'o' nm))
          | "P" -> close (); let a = nz () in let ps = nz () in let nm = nz () in
                   pubs := { p_addr = a; p_name = nm; p_psize = ps } :: !pubs;
                   emit (sep 0 (3 + mlen nm) ("PUBLIC " ^ mflag nm ^ hex a ^ " " ^ hex8 ps ^ " " ^ name_str 'p' nm))
          | "U" -> close (); let a = nz () in let s = nz () in let ps = nz () in let nm = nz () in
                   cur := Some ((a, s, ps, nm), [], []);
                   emit (sep 0 (4 + mlen nm) ("FUNC " ^ mflag nm ^ hex a ^ " " ^ hex8 s ^ " " ^ hex8 ps ^ " " ^ name_str 'f' nm))
          | "L" -> let a = nz () in let s = nz () in let ln = nz () in let fl = nz () in
                   emit (sep 0 3 (hex a ^ " " ^ hex8 s ^ " " ^ zs ln ^ " " ^ zs fl));
                   (match !cur with
                    | Some (h, ls, is) -> cur := Some (h, { l_addr = a; l_size = s; l_file = fl; l_line = ln } :: ls, is)
                    | None -> orphan := true)
          | "I" -> let d = nz () in let cl = nz () in let cf = nz () in let og = nz () in
                   let k = int_of_string (next ()) in
                   let rs = List.init k (fun _ -> let a = nz () in let s = nz () in (a, s)) in
                   emit (sep 0 (4 + 2 * k) ("INLINE " ^ zs d ^ " " ^ zs cl ^ " " ^ zs cf ^ " " ^ zs og
                         ^ String.concat "" (List.map (fun (a, s) -> " " ^ hex a ^ " " ^ hex8 s) rs)));
                   (match !cur with
                    | Some (h, ls, is) ->
                        let is' = List.fold_left (fun acc (a, s) ->
                          { i_depth = d; i_addr = a; i_size = s; i_cfile = cf; i_cline = cl; i_origin = og } :: acc) is rs in
                        cur := Some (h, ls, is')
                    | None -> orphan := true)
          | "Z" -> let a = nz () in let s = nz () in let ps = nz () in let nm = nz () in
                   let len = int_of_string (next ()) in
                   if len < 163840 then failwith "Z must be over-long";
                   text := (true, rle_of_string (sep 0 4 ("FUNC " ^ hex a ^ " " ^ hex8 s ^ " " ^ hex8 ps ^ " " ^ name_str 'f' nm))
                                  @ [(zbyte.(Char.code 'x'), z_of_int len)]) :: !text
          | "W" -> close (); let ty = int_of_string (next ()) in
                   let a = nz () in let s = nz () in let ps = nz () in let tg = nz () in
                   let w = { w_addr = a; w_size = s; w_psize = ps; w_tag = tg } in
                   emit (sep 1 11 ("STACK WIN " ^ Printf.sprintf "%x" ty ^ " " ^ hex a ^ " " ^ hex8 s ^ " " ^ hex8 tg ^ " 0 " ^ hex8 ps
                         ^ " 0 0 0 " ^ (if ty = 4 then "1 $eip 4 + ^ =" else "0 0")));
                   if ty = 4 then wfd := w :: !wfd else if ty = 0 then wfpo := w :: !wfpo else ()
          | t -> failwith ("bad item " ^ t)
        done;
        close ();
        let rf = { rf_files = List.rev !files; rf_origins = List.rev !origins; rf_publics = List.rev !pubs;
                   rf_funcs = List.rev !funcs; rf_win_fd = List.rev !wfd; rf_win_fpo = List.rev !wfpo } in
        let fail = function
          | Panic t -> "P;;" ^ zs t
          | OutOfFuel -> "P;;fuel"
          | _ -> "P;;fail" in
        let lines_of_text () =
          let cr = (zbyte.(13), zone) in
          List.rev_map (fun (d, l) -> (d, if !crlf then l @ [cr] else l)) !text in
        let rec int_of_nat = function O -> 0 | S n -> 1 + int_of_nat n in
        let fmt_cache ((rq, pr), ents) =
          "C" ^ string_of_int (int_of_nat rq) ^ "," ^ string_of_int (int_of_nat pr) ^ "|"
          ^ String.concat "," (List.map (function None -> "-" | Some (l, c) -> (if l then "1" else "0") ^ (if c then "1" else "0")) ents) in
        let render st (l, ss) =
          (* D is printed from the model COMPILED from the Rust source of fill_symbol (Gen/C11Src.v); where the hand-written
             model answers differently (never on the unchanged tree: c11_compiled_fill_symbol) both are shown *)
          String.concat ";" (fmt_table st :: List.map (fun ((((a, b), g), c), cs) ->
            let d = match c with
              | Ret o when o = a -> fmt_out a
              | Ret o -> fmt_out o ^ "!hand-written-model=" ^ fmt_out a
              | Panic t -> "panic" ^ zs t ^ "!hand-written-model=" ^ fmt_out a
              | OutOfFuel -> "fuel!hand-written-model=" ^ fmt_out a
              | Fail -> "fail!hand-written-model=" ^ fmt_out a in
            (* S likewise from the compiled fill_source_line_info (with the compiled Symbolizer::fill_symbol inside) *)
            let fmt_s = function None -> "-" | Some (i, o) -> zs i ^ ":" ^ fmt_out o in
            let s = match cs with
              | Ret fr ->
                  let b2 = (match fr.sf_module with None -> None | Some i -> Some (i, fr.sf_out)) in
                  if b2 = b && (fr.sf_module <> None || fr.sf_out = empty_out) then fmt_s b
                  else (match fr.sf_module with None -> "-[" ^ fmt_out fr.sf_out ^ "]" | Some _ -> fmt_s b2) ^ "!hand-written-model=" ^ fmt_s b
              | Panic t -> "panic" ^ zs t ^ "!hand-written-model=" ^ fmt_s b
              | OutOfFuel -> "fuel!hand-written-model=" ^ fmt_s b
              | Fail -> "fail!hand-written-model=" ^ fmt_s b in
            "D" ^ d ^ "/S" ^ s ^ "/G" ^ opt zs g) l @ [fmt_cache ss]) in
        let from st = match run_case_st st mbase msize extra qs with Ret l -> render st l | r -> fail r in
        (* the table is printed (and the queries are answered) from the table built with the function COMPILED from the
           Line::Function arm of finish_item (Driver.table_of_src); where the hand-written build_symtab gives another table
           (never on the unchanged tree: c11_compiled_build_symtab) both are shown *)
        let ans =
          match table_of rf with
          | Ret st ->
              (match table_of_src Debug rf with
               | Ret st2 when fmt_table st2 = fmt_table st -> from st
               | Ret st2 -> from st2 ^ "!hand-written-table=" ^ fmt_table st
               | r -> "P;;compiled finish_item: " ^ fail r)
          | r -> fail r in
        (* the same from the text (skipped for very long texts: C09's recogniser works byte by byte on Coq integers) *)
        let ans =
          if !orphan then begin
            (* the record model has no answer here; the text model must reject the text as the parser does *)
            match table_of_text nm_of_rle tg_of_win (lines_of_text ()) with
            | Ret None -> "E"
            | Ret (Some _) -> "P;;text-model accepts sub-records without an open FUNC block"
            | r -> "P;;text-model " ^ fail r
          end
          else if !text_budget <= 0 then ans
          else begin
            let ds = lines_of_text () in
            text_budget := !text_budget - List.fold_left (fun n (_, l) -> n + List.length l) 0 ds;
            match table_of_text nm_of_rle tg_of_win ds with
            | Ret (Some st) -> let a2 = from st in if a2 = ans then ans else "P;;text-model " ^ a2
            | Ret None -> "P;;text-model rejects the text"
            | r -> "P;;text-model " ^ fail r
          end in
        print_endline ans
        with Exit -> print_endline "E")
      end
    done
  with End_of_file -> ()
