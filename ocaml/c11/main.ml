(* c11 model driver.  One case per line:
     M <mbase> <msize> [X <k> (<base> <size> <hassym>)*k] Q <n> <instr>*n R <item>*
   (X: further modules of the module list; module 0 = (mbase, msize) has symbols)
   items (all numbers decimal):
     F id name | O id name | P addr psize name | U addr size psize name
     L addr size line file | I depth cline cfile origin k (addr size)*k | W ty addr size psize tag
     Z addr size psize name len   a FUNC line longer than MAX_BUFFER_CAPACITY (len >= 163840 padding bytes):
                                  SymbolFile::parse drops it in panic recovery, cur_item stays as it is, so the
                                  sub-records that follow go to the FUNC block that is still open (C09's model:
                                  [recovery] bumps the line count only); with no block open they fail the parse (E)
   L / I belong to the FUNC block opened by the last U (O does not close a block; F P U W do).
   answer:  T<tables>;<q1>;<q2>...   with q = D<out>/S<idx>:<out>|S-/G<name>|G-   or  P;;<tag> *)
let zs = string_of_z
let opt f = function None -> "-" | Some x -> f x

let fmt_out (o : sym_out) : string =
  let f3 = function None -> "-" | Some ((a, b), c) -> zs a ^ "," ^ zs b ^ "," ^ zs c in
  let fi ((n, f), l) = zs n ^ ":" ^ opt zs f ^ ":" ^ opt zs l in
  "fn=" ^ f3 o.o_func ^ "|src=" ^ f3 o.o_src ^ "|inl=" ^ String.concat "," (List.map fi o.o_inl)

let fmt_table (st : symtab) : string =
  let rng (s, e) = zs s ^ "-" ^ zs e in
  let line (r, l) = rng r ^ ":" ^ zs l.l_line ^ ":" ^ zs l.l_file in
  let inl e = String.concat "/" (List.map zs [e.i_depth; e.i_addr; e.i_size; e.i_cfile; e.i_cline; e.i_origin]) in
  let func (r, f) = rng r ^ ":" ^ zs f.fn_name ^ "(" ^ String.concat "," (List.map line f.fn_lines) ^ ")("
                    ^ String.concat "," (List.map inl f.fn_inls) ^ ")" in
  let pub p = zs p.p_addr ^ ":" ^ zs p.p_name ^ ":" ^ zs p.p_psize in
  let win (r, w) = rng r ^ ":" ^ zs w.w_psize ^ ":" ^ zs w.w_tag in
  "T" ^ String.concat " " (List.map func st.st_funcs) ^ "#" ^ String.concat " " (List.map pub st.st_publics)
  ^ "#" ^ String.concat " " (List.map win st.st_win_fd) ^ "#" ^ String.concat " " (List.map win st.st_win_fpo)

let () =
  try
    while true do
      let line = input_line stdin in
      if String.length line > 0 && line.[0] <> '#' then begin
        (try
        let toks = Array.of_list (split_ws line) in
        let n = Array.length toks in
        let pos = ref 0 in
        let next () = let t = toks.(!pos) in incr pos; t in
        let nz () = z_of_string (next ()) in
        assert (next () = "M");
        let mbase = nz () in
        let msize = nz () in
        let extra =
          if toks.(!pos) = "X" then begin
            ignore (next ());
            let k = int_of_string (next ()) in
            List.init k (fun _ -> let b = nz () in let sz = nz () in let h = next () in ((b, sz), h = "1"))
          end else [] in
        assert (next () = "Q");
        let nq = int_of_string (next ()) in
        let qs = List.init nq (fun _ -> nz ()) in
        assert (next () = "R");
        let files = ref [] and origins = ref [] and pubs = ref [] and funcs = ref []
        and wfd = ref [] and wfpo = ref [] in
        (* current FUNC block: header + reversed sub-records *)
        let cur = ref None in
        let close () =
          match !cur with
          | None -> ()
          | Some ((a, s, ps, nm), ls, is) ->
              funcs := { fr_addr = a; fr_size = s; fr_psize = ps; fr_name = nm;
                         fr_lines = List.rev ls; fr_inls = List.rev is } :: !funcs;
              cur := None in
        while !pos < n do
          match next () with
          | "F" -> close (); let id = nz () in let nm = nz () in files := (id, nm) :: !files
          | "O" -> let id = nz () in let nm = nz () in origins := (id, nm) :: !origins
          | "P" -> close (); let a = nz () in let ps = nz () in let nm = nz () in
                   pubs := { p_addr = a; p_name = nm; p_psize = ps } :: !pubs
          | "U" -> close (); let a = nz () in let s = nz () in let ps = nz () in let nm = nz () in
                   cur := Some ((a, s, ps, nm), [], [])
          | "L" -> let a = nz () in let s = nz () in let ln = nz () in let fl = nz () in
                   (match !cur with
                    | Some (h, ls, is) -> cur := Some (h, { l_addr = a; l_size = s; l_file = fl; l_line = ln } :: ls, is)
                    | None -> raise Exit)
          | "I" -> let d = nz () in let cl = nz () in let cf = nz () in let og = nz () in
                   let k = int_of_string (next ()) in
                   let rs = List.init k (fun _ -> let a = nz () in let s = nz () in (a, s)) in
                   (match !cur with
                    | Some (h, ls, is) ->
                        let is' = List.fold_left (fun acc (a, s) ->
                          { i_depth = d; i_addr = a; i_size = s; i_cfile = cf; i_cline = cl; i_origin = og } :: acc) is rs in
                        cur := Some (h, ls, is')
                    | None -> raise Exit)
          | "Z" -> let _ = nz () in let _ = nz () in let _ = nz () in let _ = nz () in
                   let len = int_of_string (next ()) in
                   if len < 163840 then failwith "Z must be over-long"
          | "W" -> close (); let ty = int_of_string (next ()) in
                   let a = nz () in let s = nz () in let ps = nz () in let tg = nz () in
                   let w = { w_addr = a; w_size = s; w_psize = ps; w_tag = tg } in
                   if ty = 4 then wfd := w :: !wfd else if ty = 0 then wfpo := w :: !wfpo else ()
          | t -> failwith ("bad item " ^ t)
        done;
        close ();
        let rf = { rf_files = List.rev !files; rf_origins = List.rev !origins; rf_publics = List.rev !pubs;
                   rf_funcs = List.rev !funcs; rf_win_fd = List.rev !wfd; rf_win_fpo = List.rev !wfpo } in
        let fail = function
          | Panic t -> "P;;" ^ zs t
          | OutOfFuel -> "P;;fuel"
          | _ -> "P;;fail" in
        let ans =
          match table_of rf with
          | Ret st ->
              (match run_case rf mbase msize extra qs with
               | Ret l ->
                   String.concat ";" (fmt_table st :: List.map (fun ((a, b), g) ->
                     "D" ^ fmt_out a ^ "/S" ^ (match b with None -> "-" | Some (i, o) -> zs i ^ ":" ^ fmt_out o)
                     ^ "/G" ^ opt zs g) l)
               | r -> fail r)
          | r -> fail r in
        print_endline ans
        with Exit -> print_endline "E")
      end
    done
  with End_of_file -> ()
