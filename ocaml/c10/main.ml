(* c09 / c10 model driver.  One case per line (same syntax as harness/src/symcase.rs):
     <segment>* | <schedule token>*      segment = x<hex> | r<hh>*<count> | t<ignored label>     schedule = <n> | <n>*<k>
   The bytes are cut into '\n'-terminated lines (each kept run-length encoded, without its
   '\n') and the rest after the last '\n'; the model only needs the length of that rest.
   Answer:  R=<OK|E<code>:<line>|P<tag>|FUEL>;cb=<bytes>,<calls>;nr=<reads>;ms=<max space>;T=<files>,<origins>,<publics>,<url>
            ;;cap=<final capacity>;dropped=<lines discarded>;S=<what C10's spec says> *)
let parse_case (line : string) : (int * int) list * string list =
  let rec go toks runs =
    match toks with
    | [] -> (List.rev runs, [])
    | "|" :: rest -> (List.rev runs, rest)
    | t :: rest ->
      let len = String.length t in
      if t.[0] = 'x' then begin
        let runs = ref runs in
        if t <> "x-" then
          for i = 0 to (len - 1) / 2 - 1 do
            runs := (int_of_string ("0x" ^ String.sub t (1 + 2 * i) 2), 1) :: !runs
          done;
        go rest !runs
      end else if t.[0] = 'r' then begin
        let star = String.index t '*' in
        let b = int_of_string ("0x" ^ String.sub t 1 (star - 1)) in
        let c = int_of_string (String.sub t (star + 1) (len - star - 1)) in
        go rest (if c > 0 then (b, c) :: runs else runs)
      end else if t.[0] = 't' then go rest runs
      else failwith ("bad segment " ^ t)
  in
  go (split_ws line) []

(* lines (reversed runs -> in order), tail *)
let split_lines (runs : (int * int) list) =
  let lines = ref [] and cur = ref [] in
  List.iter (fun (b, c) ->
      if b = 10 then begin
        lines := List.rev !cur :: !lines;
        cur := [];
        for _ = 2 to c do lines := [] :: !lines done
      end else cur := (b, c) :: !cur) runs;
  (List.rev !lines, List.rev !cur)

let expand_sched (toks : string list) =
  List.concat_map (fun t ->
      match String.index_opt t '*' with
      | Some i ->
        let n = int_of_string (String.sub t 0 i) in
        let k = int_of_string (String.sub t (i + 1) (String.length t - i - 1)) in
        List.init k (fun _ -> z_of_int n)
      | None -> [z_of_int (int_of_string t)]) toks

let cls k c l =
  match int_of_z k with
  | 0 -> "OK"
  | 1 -> "E" ^ string_of_z c ^ ":" ^ string_of_z l
  | 2 -> "P" ^ string_of_z c
  | _ -> "FUEL"

let () =
  try
    while true do
      let line = input_line stdin in
      if String.length line > 0 && line.[0] <> '#' then begin
        let runs, stoks = parse_case line in
        let lines, tail = split_lines runs in
        let conv l = List.map (fun (b, c) -> (z_of_int b, z_of_int c)) l in
        let tail_len = List.fold_left (fun a (_, c) -> a + c) 0 tail in
        let o = run_case (List.map conv lines) (z_of_int tail_len) (expand_sched stoks) in
        let t =
          if int_of_z (o_kind o) = 0 then
            Printf.sprintf "%s,%s,%s,%d" (string_of_z (o_files o)) (string_of_z (o_origins o))
              (string_of_z (o_publics o)) (if o_url o then 1 else 0)
          else "-" in
        Printf.printf "R=%s;cb=%s,%s;nr=%s;ms=%s;T=%s;;cap=%s;dropped=%s;S=%s\n"
          (cls (o_kind o) (o_code o) (o_line o))
          (string_of_z (o_cb o)) (string_of_z (o_ncb o)) (string_of_z (o_nrd o)) (string_of_z (o_maxsp o)) t
          (string_of_z (o_cap o)) (string_of_z (o_dropped o))
          (cls (o_skind o) (o_scode o) (o_sline o))
      end
    done
  with End_of_file -> ()
