(* c10 model driver.  One case per line (same syntax as harness/src/bin/c10.rs):
     <segment>* | <schedule token>* [ | <stream token>* ]
     segment = x<hex> | r<hh>*<count> | t<ignored label>     schedule = <n> | <n>*<k>
     stream  = <n> | <n>*<k> (a body chunk of n bytes, n = 0: an empty chunk) | E (the body fails here); then the rest of the
               input as one chunk and the end of the body.  Without the third section: the schedule's sizes (>= 1) as chunks.
   The bytes are cut into '\n'-terminated lines (each kept run-length encoded, without its
   '\n') and the rest after the last '\n'; the model only needs the length of that rest.
   Answer:  R=<OK|E<code>:<line>|P<tag>|FUEL>;cb=<bytes>,<calls>;nr=<reads>;ms=<max space>;ev=<hash of the read/callback event sequence>,<events>;T=<canonical symbol table>
            ;;cap=<final capacity>;dropped=<lines discarded>;S=<what C10's spec says>;ST=<its table>
            ;X=<buffer transitions: grows,shifts,discard iterations,recoveries,zero reads,full-buffer reads>;K=<record kinds in the input>;EK=<kind of the rejected line> *)
let parse_case (line : string) : (int * int) list * string list =
  let rec go toks runs =
    match toks with
    | [] -> (List.rev runs, [])
    | "|" :: rest -> (List.rev runs, rest)
    | t :: rest ->
      let len = String.length t in
      if t.[0] = 'x' then begin
        let runs = ref runs in
        if t <> "x-" then
          for i = 0 to (len - 1) / 2 - 1 do
            runs := (int_of_string ("0x" ^ String.sub t (1 + 2 * i) 2), 1) :: !runs
          done;
        go rest !runs
      end else if t.[0] = 'r' then begin
        let star = String.index t '*' in
        let b = int_of_string ("0x" ^ String.sub t 1 (star - 1)) in
        let c = int_of_string (String.sub t (star + 1) (len - star - 1)) in
        go rest (if c > 0 then (b, c) :: runs else runs)
      end else if t.[0] = 't' then go rest runs
      else failwith ("bad segment " ^ t)
  in
  go (split_ws line) []

(* lines (reversed runs -> in order), tail *)
let split_lines (runs : (int * int) list) =
  let lines = ref [] and cur = ref [] in
  List.iter (fun (b, c) ->
      if b = 10 then begin
        lines := List.rev !cur :: !lines;
        cur := [];
        for _ = 2 to c do lines := [] :: !lines done
      end else cur := (b, c) :: !cur) runs;
  (List.rev !lines, List.rev !cur)

let expand_sched (toks : string list) =
  List.concat_map (fun t ->
      match String.index_opt t '*' with
      | Some i ->
        let n = int_of_string (String.sub t 0 i) in
        let k = int_of_string (String.sub t (i + 1) (String.length t - i - 1)) in
        List.init k (fun _ -> z_of_int n)
      | None -> [z_of_int (int_of_string t)]) toks

(* ---- canonical text of a symbol table (the same text is produced by harness/src/symcase.rs) ----
   strings: up to 40 bytes as hex, longer ones as L<length>H<FNV-1a 64>; '-' for the empty string *)
let str_of_rle (s : (z * z) list) : string =
  let runs = List.map (fun (b, c) -> (int_of_z b, int_of_z c)) s in
  let len = List.fold_left (fun a (_, c) -> a + c) 0 runs in
  if len = 0 then "-"
  else if len <= 40 then begin
    let b = Buffer.create 80 in
    List.iter (fun (x, c) -> for _ = 1 to c do Buffer.add_string b (Printf.sprintf "%02x" x) done) runs;
    Buffer.contents b
  end else begin
    let h = ref 0xcbf29ce484222325L in
    List.iter (fun (x, c) ->
        for _ = 1 to c do
          h := Int64.mul (Int64.logxor !h (Int64.of_int x)) 0x100000001b3L
        done) runs;
    Printf.sprintf "L%dH%016Lx" len !h
  end

let zs = string_of_z
let cat sep f l = String.concat sep (List.map f l)
let render_map m = cat "," (fun (k, v) -> zs k ^ ":" ^ str_of_rle v) m
let render_win l =
  cat " " (fun ((s, e), w) ->
      Printf.sprintf "%s-%s:%s:%s:%s:%s:%s:%s:%s:%s:%s" (zs s) (zs e) (zs (wi_addr w)) (zs (wi_size w))
        (zs (wi_prolog w)) (zs (wi_epilog w)) (zs (wi_params w)) (zs (wi_saved w)) (zs (wi_locals w))
        (zs (wi_maxstack w))
        (match wi_thing w with
         | ProgramString p -> "P" ^ str_of_rle p
         | AllocatesBasePointer b -> if b then "B1" else "B0")) l
let render_table (t : table) : string =
  let funcs = cat " " (fun ((s, e), f) ->
      Printf.sprintf "%s-%s:%s:%s:%s:%s(%s)(%s)" (zs s) (zs e) (zs (sf_addr f)) (zs (sf_size f)) (zs (sf_psize f))
        (str_of_rle (sf_name f))
        (cat "," (fun ((ls, le), l) ->
             Printf.sprintf "%s-%s:%s:%s:%s:%s" (zs ls) (zs le) (zs (l_addr l)) (zs (l_size l)) (zs (l_file l)) (zs (l_line l)))
            (sf_lines f))
        (cat "," (fun i ->
             Printf.sprintf "%s/%s/%s/%s/%s/%s" (zs (i_depth i)) (zs (i_addr i)) (zs (i_size i)) (zs (i_cfile i))
               (zs (i_cline i)) (zs (i_origin i))) (sf_inls f))) (t_funcs t) in
  let cfis = cat " " (fun ((s, e), c) ->
      Printf.sprintf "%s-%s:%s:%s:%s(%s)" (zs s) (zs e) (zs (cr_addr (sc_init c))) (zs (sc_size c))
        (str_of_rle (cr_rules (sc_init c)))
        (cat "," (fun r -> zs (cr_addr r) ^ ":" ^ str_of_rle (cr_rules r)) (sc_add c))) (t_cfi t) in
  Printf.sprintf "M%s|%s#F%s#O%s#P%s#N%s#C%s#WD%s#WF%s#U%s"
    (str_of_rle (t_module_id t)) (str_of_rle (t_debug_file t))
    (render_map (t_files t)) (render_map (t_origins t))
    (cat "," (fun p -> zs (pb_addr p) ^ ":" ^ zs (pb_psize p) ^ ":" ^ str_of_rle (pb_name p)) (t_publics t))
    funcs cfis (render_win (t_win_fd t)) (render_win (t_win_fpo t))
    (match t_url t with Some u -> "S" ^ str_of_rle u | None -> "N")

(* kind of a line by its first bytes (for the input distribution only) *)
let prefix_of (l : (int * int) list) : string =
  let b = Buffer.create 24 in
  (try List.iter (fun (x, c) ->
       for _ = 1 to c do
         if Buffer.length b >= 20 then raise Exit;
         Buffer.add_char b (Char.chr (x land 255))
       done) l with Exit -> ());
  Buffer.contents b
let starts s p = String.length s >= String.length p && String.sub s 0 (String.length p) = p
let kind_of (l : (int * int) list) : string =
  let s = prefix_of l in
  if List.for_all (fun (x, _) -> x = 13) l then "blank"
  else if starts s "MODULE " then "MODULE"
  else if starts s "INFO URL " then "INFO_URL"
  else if starts s "INFO CODE_ID " then "INFO_CODE_ID"
  else if starts s "INFO " then "INFO_other"
  else if starts s "FILE " then "FILE"
  else if starts s "INLINE_ORIGIN " then "INLINE_ORIGIN"
  else if starts s "INLINE " then "INLINE"
  else if starts s "FUNC m " then "FUNC_m"
  else if starts s "FUNC " then "FUNC"
  else if starts s "PUBLIC m " then "PUBLIC_m"
  else if starts s "PUBLIC " then "PUBLIC"
  else if starts s "STACK WIN " then "STACK_WIN"
  else if starts s "STACK CFI INIT " then "STACK_CFI_INIT"
  else if starts s "STACK CFI " then "STACK_CFI"
  else if String.length s > 0 && (match s.[0] with '0'..'9' | 'a'..'f' | 'A'..'F' -> true | _ -> false) then "line_record"
  else "other"

let cls k c l =
  match int_of_z k with
  | 0 -> "OK"
  | 1 -> "E" ^ string_of_z c ^ ":" ^ string_of_z l
  | 2 -> "P" ^ string_of_z c
  | _ -> "FUEL"

(* chunks of the async run: the schedule's sizes (at least 1 byte each, at most what is left), then the rest as one chunk *)
let async_chunks (total : int) (sched : int list) : int list =
  let rec go left sch acc =
    if left <= 0 then List.rev acc
    else match sch with
      | [] -> List.rev (left :: acc)
      | c :: t -> let n = min (max 1 c) left in go (left - n) t (n :: acc)
  in
  go total sched []

(* the body script of a case: explicit (third section; sizes clipped to what is left, nothing after a failure, the rest as a
   last chunk) or derived from the schedule *)
let split_bar (toks : string list) : string list * string list option =
  let rec go acc = function
    | [] -> (List.rev acc, None)
    | "|" :: rest -> (List.rev acc, Some rest)
    | t :: rest -> go (t :: acc) rest
  in
  go [] toks

let stream_script (total : int) (toks : string list) : sev list =
  let evs = List.concat_map (fun t ->
      if t = "E" then [None]
      else match String.index_opt t '*' with
        | Some i ->
          let n = int_of_string (String.sub t 0 i) in
          let k = int_of_string (String.sub t (i + 1) (String.length t - i - 1)) in
          List.init k (fun _ -> Some n)
        | None -> [Some (int_of_string t)]) toks in
  let rec go left evs acc =
    match evs with
    | [] -> List.rev (if left > 0 then SChunk (z_of_int left) :: acc else acc)
    | None :: _ -> List.rev (SFail :: acc)
    | Some n :: t -> let n = min n left in go (left - n) t (SChunk (z_of_int n) :: acc)
  in
  go total evs []

let with_async = Array.length Sys.argv > 1 && Sys.argv.(1) = "async"

(* a segment tF<k>: also run SymbolFile::parse over a reader whose k-th read() call fails (C10/ReadFail.v) *)
let fail_tag (line : string) : int option =
  let data = match String.index_opt line '|' with Some i -> String.sub line 0 i | None -> line in
  List.fold_left (fun acc t ->
      match acc with
      | Some _ -> acc
      | None ->
        if String.length t > 2 && String.sub t 0 2 = "tF" then int_of_string_opt (String.sub t 2 (String.length t - 2)) else None)
    None (split_ws data)

let () =
  try
    while true do
      let line = input_line stdin in
      if String.length line > 0 && line.[0] <> '#' then begin
        let runs, stoks0 = parse_case line in
        let stoks, script_toks = split_bar stoks0 in
        let lines, tail = split_lines runs in
        let conv l = List.map (fun (b, c) -> (z_of_int b, z_of_int c)) l in
        let tail_len = List.fold_left (fun a (_, c) -> a + c) 0 tail in
        let o = run_case (List.map conv lines) (z_of_int tail_len) (expand_sched stoks) in
        let t = match o_table o with Some t -> render_table t | None -> "-" in
        let st = match o_stable o with Some t -> render_table t | None -> "-" in
        let zlines = List.map conv lines and ztail = z_of_int tail_len and zs = expand_sched stoks in
        let tr = run_trace zlines ztail zs in
        let kinds = List.sort_uniq compare (List.map kind_of lines @ (if tail_len > 0 then ["unterminated"] else [])) in
        let ek = match first_rest zlines ztail zs with
          | Some l -> kind_of (List.map (fun (b, c) -> (int_of_z b, int_of_z c)) l)
          | None -> "-" in
        let async_part =
          if not with_async then "" else begin
            let total = List.fold_left (fun a l -> a + 1 + List.fold_left (fun a (_, c) -> a + c) 0 l) tail_len lines in
            let script = match script_toks with
              | Some toks -> stream_script total toks
              | None -> List.map (fun n -> SChunk (z_of_int n)) (async_chunks total (List.map int_of_z zs)) in
            let (ao, atr) = run_stream zlines ztail script in
            Printf.sprintf ";A=%s;acb=%s,%s;aev=%s,%s;AT=%s"
              (cls (o_kind ao) (o_code ao) (o_line ao)) (string_of_z (o_cb ao)) (string_of_z (o_ncb ao))
              (string_of_z (tr_hash atr)) (string_of_z (tr_events atr))
              (match o_table ao with Some t -> render_table t | None -> "-")
          end in
        let rf_part = match fail_tag line with
          | None -> ""
          | Some k ->
            let fo = run_rfail zlines ztail zs (z_of_int k) in
            Printf.sprintf ";F=%s;fcb=%s,%s;fnr=%s;FT=%s"
              (cls (o_kind fo) (o_code fo) (o_line fo)) (string_of_z (o_cb fo)) (string_of_z (o_ncb fo)) (string_of_z (o_nrd fo))
              (match o_table fo with Some t -> render_table t | None -> "-") in
        Printf.printf "R=%s;cb=%s,%s;nr=%s;ms=%s;ev=%s,%s;T=%s%s%s;;cap=%s;dropped=%s;S=%s;ST=%s;X=%s,%s,%s,%s,%s,%s;K=%s;EK=%s\n"
          (cls (o_kind o) (o_code o) (o_line o))
          (string_of_z (o_cb o)) (string_of_z (o_ncb o)) (string_of_z (o_nrd o)) (string_of_z (o_maxsp o))
          (string_of_z (tr_hash tr)) (string_of_z (tr_events tr)) t async_part rf_part
          (string_of_z (o_cap o)) (string_of_z (o_dropped o))
          (cls (o_skind o) (o_scode o) (o_sline o)) st
          (string_of_z (tr_grows tr)) (string_of_z (tr_shifts tr)) (string_of_z (tr_discards tr))
          (string_of_z (tr_recovered tr)) (string_of_z (tr_zero_reads tr)) (string_of_z (tr_full_reads tr))
          (String.concat "," kinds) ek
      end
    done
  with End_of_file -> ()
