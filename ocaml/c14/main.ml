(* c14 model driver; the case format is documented in harness/src/bin/c14.rs.
   answer: T=<id>:<name|->:<info>:<ip|->:<sp|->:<stack>:<room>:<unl>,...;R=<idx|->;X=<addr>:<family>:<payload+>|-;
           P=<pid|->;C=<ctime|->;TM=<time>;M=<base:size,...>;U=<base:size:name,...> *)
let oz = function Some x -> string_of_z x | None -> "-"

(* [tname] / [uname] print a thread name / an unloaded-module name of the dump record *)
let print_out tname uname o =
  let th = List.map (fun t ->
    let (ip, sp) = match t.to_ctx with Some ((_, ip), sp) -> (string_of_z ip, string_of_z sp) | None -> ("-", "-") in
    let unl = match t.to_unloaded with
      | None -> "!"
      | Some l -> String.concat "+" (List.map (fun (nm, off) -> uname nm ^ "." ^ string_of_z off) l) in
    String.concat ":" [string_of_z t.to_id; (match t.to_name with Some n -> tname n | None -> "-");
                       string_of_z t.to_info; ip; sp; string_of_z t.to_stack; string_of_z t.to_stack_room; unl])
    o.o_threads in
  let x = match o.o_exc with
    | None -> "-"
    | Some (((a, f), p), _) -> string_of_z a ^ ":" ^ string_of_z f ^ ":" ^ String.concat "+" (List.map string_of_z p) in
  let rs = match o.o_exc with
    | Some (_, Some l) -> "#" ^ String.concat "" (List.map (fun c -> String.make 1 (Char.chr (int_of_z c))) l)
    | _ -> "" in
  Printf.printf "T=%s;R=%s;X=%s;P=%s;C=%s;TM=%s;M=%s;U=%s%s\n"
    (String.concat "," th)
    (if int_of_z o.o_requesting < 0 then "-" else string_of_z o.o_requesting)
    x (oz o.o_pid) (oz o.o_ctime) (string_of_z o.o_time)
    (String.concat "," (List.map (fun (b, s) -> string_of_z b ^ ":" ^ string_of_z s) o.o_modules))
    (String.concat "," (List.map (fun ((b, s), nm) -> string_of_z b ^ ":" ^ string_of_z s ^ ":" ^ uname nm) o.o_unloaded)) rs

(* names read from the bytes of a dump are carried as integers (Bytes.pack_units: base 65537, digit = code unit + 1) *)
let unpack_name n =
  let b = Buffer.create 16 in
  let base = ZA.of_int 65537 in
  let rec go n =
    if ZA.sign n > 0 then begin
      Buffer.add_char b (Char.chr ((ZA.to_int (ZA.rem n base) - 1) land 255));
      go (ZA.div n base)
    end in
  go (z_to_zt n); Buffer.contents b

(* H <hex> ...: the bytes of a whole dump; the rest of the line (the generator's description) is not read *)
let h_case hex =
  let bytes = List.init (String.length hex / 2) (fun i -> z_of_int (int_of_string ("0x" ^ String.sub hex (2 * i) 2))) in
  match run_bytes Debug bytes with
  | None -> print_string "NONE\n"
  | Some o ->
      (* unloaded-module names are "u<nn>": the answer format carries the number *)
      let uname n = let s = unpack_name n in if String.length s > 1 && s.[0] = 'u' then String.sub s 1 (String.length s - 1) else "?" ^ s in
      print_out unpack_name uname o

let () =
  try
    while true do
      let line = input_line stdin in
      if String.length line > 0 && line.[0] <> '#' then begin
        let toks = Array.of_list (split_ws line) in
        if toks.(0) = "H" then h_case toks.(1) else
        let pos = ref 0 in
        let next () = let t = toks.(!pos) in incr pos; t in
        let nz () = z_of_string (next ()) in
        let expect s = let t = next () in if t <> s then failwith ("expected " ^ s ^ " got " ^ t) in
        (* arch token + 65536 = big-endian dump: byte order is invisible to the model *)
        let arch = z_of_int ((int_of_z (nz ())) land 0xffff) in
        let platform = nz () in
        let time = nz () in
        expect "T";
        let n = int_of_string (next ()) in
        let threads = List.init n (fun _ ->
          let id = nz () in let kind = nz () in let ip = nz () in let sp = nz () in
          let sidx = nz () in let sbase = nz () in
          { t_id = id; t_ctx = mk_ctx arch kind ip sp;
            t_stack = (if int_of_z sidx < 0 then None else Some sidx); t_sbase = sbase }) in
        expect "N";
        let k = int_of_string (next ()) in
        let names = List.init k (fun _ ->
          let id = nz () in let readable = nz () in let nm = nz () in
          (id, if int_of_z readable <> 0 then Some nm else None)) in
        expect "E";
        let present = int_of_string (next ()) in
        let tid = nz () in let code = nz () in let flags = nz () in let np = nz () in
        let i0 = nz () in let i1 = nz () in let i2 = nz () in let addr = nz () in
        let ck = nz () in let eip = nz () in let esp = nz () in
        let exc = if present = 0 then None else
          Some { e_tid = tid; e_code = code; e_flags = flags; e_nparams = np; e_info0 = i0; e_info1 = i1;
                 e_info2 = i2; e_addr = addr; e_ctx = mk_ctx arch ck eip esp } in
        expect "B";
        let present = int_of_string (next ()) in
        let v = nz () in let dt = nz () in let rt = nz () in
        (* present: 1 = the 12-byte structure, 2 = truncated to 8 bytes, 3 = 16 bytes; the model decides readability *)
        let bp = if present = 0 then None else
          bp_of_stream (z_of_int (match present with 2 -> 8 | 3 -> 16 | _ -> 12)) { b_validity = v; b_dump_tid = dt; b_req_tid = rt } in
        expect "M";
        let present = int_of_string (next ()) in
        let size = nz () in let f1 = nz () in let pid = nz () in let ct = nz () in
        let misc = if present = 0 then None else misc_of_stream size { mi_flags1 = f1; mi_pid = pid; mi_ctime = ct } in
        expect "L";
        let present = int_of_string (next ()) in
        let _kind = next () in let _lpid = next () in
        (* the bytes of the /proc/self/status stream, hex ("-" = empty); the model parses them (status_pid) *)
        let hex = next () in
        let text = if hex = "-" then [] else
          List.init (String.length hex / 2) (fun i -> z_of_int (int_of_string ("0x" ^ String.sub hex (2 * i) 2))) in
        let status = if present = 0 then None else Some text in
        expect "MOD";
        let m = int_of_string (next ()) in
        let mods = List.init m (fun _ -> let b = nz () in let s = nz () in (b, s)) in
        expect "UNL";
        let u = int_of_string (next ()) in
        let unl = List.init u (fun _ -> let b = nz () in let s = nz () in let nm = nz () in ((b, s), nm)) in
        expect "MEM";
        let r = int_of_string (next ()) in
        let mems = List.init r (fun _ -> let b = nz () in let s = nz () in (b, s)) in
        expect "LK";
        (* enumeration membership is no longer handed over: the model uses the tables regenerated from the source (gen_lk) *)
        let q = int_of_string (next ()) in
        let _ = List.init q (fun _ -> let en = nz () in let v = nz () in (en, v)) in
        (* NM <k> { enum value hexname }*k: the Debug names, in the two large Windows tables, of the values this case consults *)
        let bignames = if !pos < Array.length toks && toks.(!pos) = "NM" then begin
            incr pos;
            let k = int_of_string (next ()) in
            List.init k (fun _ -> let en = nz () in let v = nz () in let hx = next () in
              (en, v, List.init (String.length hx / 2) (fun i -> z_of_int (int_of_string ("0x" ^ String.sub hx (2 * i) 2)))))
          end else [] in
        let nm en v = match List.find_opt (fun (e2, v2, _) -> e2 = en && v2 = v) bignames with Some (_, _, n) -> Some n | None -> None in
        let d = { d_platform = platform; d_arch = arch; d_time = time; d_threads = threads; d_names = names;
                  d_exc = exc; d_bp = bp; d_misc = misc; d_status = status; d_modules = mods;
                  d_unloaded = unl; d_mems = mems } in
        print_out (fun n -> "n" ^ string_of_z n) string_of_z (run_case_nm nm Debug d)
      end
    done
  with End_of_file -> ()
