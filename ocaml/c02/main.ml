(* c02 model driver.  One case per line:
     E <int>*            -> hex of encode_dump (the extracted serializer) applied to the model tokens
     T <int>*            -> hex of one stream section: enc_bootargs / enc_crashpad (Driver.run_encode_stream)
     <hex> [ignored...]  -> observables of the extracted decode_dump on exactly these bytes:
                            sections joined by ';', each `status:item|item|...`, item = ints joined by ',' *)
let hexchar = "0123456789abcdef"
let hex_of_bytes (l : z list) : string =
  let b = Buffer.create 4096 in
  List.iter (fun x -> let v = int_of_z x in
              Buffer.add_char b hexchar.[(v lsr 4) land 15]; Buffer.add_char b hexchar.[v land 15]) l;
  if Buffer.length b = 0 then "-" else Buffer.contents b
let hv c = match c with '0'..'9' -> Char.code c - 48 | 'a'..'f' -> Char.code c - 87 | _ -> failwith "hex"
(* small integers 0..255 are shared *)
let small = Array.init 256 (fun i -> z_of_int i)
let bytes_of_hex (s : string) : z list =
  if s = "-" then [] else begin
    let n = String.length s / 2 in
    let r = ref [] in
    for i = n - 1 downto 0 do r := small.(hv s.[2*i] * 16 + hv s.[2*i+1]) :: !r done; !r end
let () =
  try
    while true do
      let line = input_line stdin in
      if String.length line > 0 && line.[0] <> '#' then begin
        if line.[0] = 'E' then begin
          let toks = List.tl (split_ws line) in
          match run_encode (List.map z_of_string toks) with
          | Some bs -> print_endline (hex_of_bytes bs)
          | None -> print_endline "ENCFAIL"
        end else if line.[0] = 'T' then begin
          (* T kind endian offset <model tokens>: the bytes of one round-4 stream section (extracted enc_bootargs / enc_crashpad) *)
          let toks = List.tl (split_ws line) in
          match run_encode_stream (List.map z_of_string toks) with
          | Some bs -> print_endline (hex_of_bytes bs)
          | None -> print_endline "ENCFAIL"
        end else begin
          let h = match String.index_opt line ' ' with Some i -> String.sub line 0 i | None -> line in
          match run_observe (bytes_of_hex h) with
          | None -> print_endline "READFAIL"
          | Some secs ->
            let b = Buffer.create 4096 in
            List.iteri (fun i (st, items) ->
              if i > 0 then Buffer.add_char b ';';
              Buffer.add_string b (string_of_z st); Buffer.add_char b ':';
              List.iteri (fun j it ->
                if j > 0 then Buffer.add_char b '|';
                List.iteri (fun k x -> if k > 0 then Buffer.add_char b ','; Buffer.add_string b (string_of_z x)) it) items) secs;
            print_endline (Buffer.contents b)
        end
      end
    done
  with End_of_file -> ()
