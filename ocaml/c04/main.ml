(* c04 model driver = the c05 walker driver (same case lines, trailing tokens such as E:... are ignored)
   plus layout requests served by the Coq builder C04.Model.scan_layout:
     L arch os base ip0 n (gap ra)*n nmods (mbase msize sym)*
   answer:  <case line> ## <expected chain: instr,resume,sp|...> ## <scan_wf_layout: 0|1>
   and by the mixed CFI / scan builder C04.Model.mix_layout (`M` lines, see mix_line below)
   ---- c05 description follows ----
   c05 model driver.  One case per line (all numbers decimal):
     arch os ip sp fp lr ngp gp_1..gp_ngp valid base hexbytes nmods (mbase msize sym)*nmods
   arch: 0 x86 1 amd64 2 arm 3 arm64 4 mips32 5 mips64 6 arm64_old;  os: 0 other 1 windows 2 ios
   valid: "*" = MinidumpContextValidity::All, "-" = empty set, else comma separated register names
   hexbytes: "-" = empty
   sym: "-" = no symbol file for the module, else  S:func_lo:func_size:cfi_lo:cfi_size:cfa_off:ra_kind:ra_arg:fp_off|-
        or  Y|func_lo|func_size|cfi_lo|cfi_size|<STACK CFI INIT rules, ~ for space>|<addr>=<STACK CFI delta rules>|...
        or  T|<line>|<line>|...  a whole symbol file (FUNC / STACK WIN / STACK CFI lines, ~ for space) after its MODULE line
   gp: the registers of CpuContext::REGISTERS other than ip/sp/fp/lr, in REGISTERS order
   Answer: <debug answer> ## <release answer>; an answer is  P  (panic),  OOF  (out of fuel), or frames joined by '|':
     instr,resume,sp,fp,lr,trust,valid names joined by '+',gp values joined by '+',module index or - *)
let name_of_z (x : z) : string =
  let rec go (v : ZA.t) acc =
    if ZA.equal v ZA.zero then acc
    else go (ZA.shift_right v 8) (String.make 1 (Char.chr (ZA.to_int (ZA.logand v (ZA.of_int 255)))) ^ acc) in
  go (z_to_zt x) ""
let z_of_name (s : string) : z =
  let v = ref ZA.zero in
  String.iter (fun c -> v := ZA.add (ZA.shift_left !v 8) (ZA.of_int (Char.code c))) s;
  z_of_zt !v
let trust_name = function 0 -> "none" | 1 -> "scan" | 2 -> "cfi_scan" | 3 -> "frame_pointer" | 4 -> "cfi" | 5 -> "prewalked" | _ -> "context"
let unhex (s : string) : z list =
  if s = "-" then [] else
  List.init (String.length s / 2) (fun i -> z_of_int (int_of_string ("0x" ^ String.sub s (2 * i) 2)))
let bytes_of_string (s : string) : z list = List.init (String.length s) (fun i -> z_of_int (Char.code s.[i]))
let untilde (s : string) : string = String.map (fun c -> if c = '~' then ' ' else c) s
let parse_sym (s : string) =
  if s = "-" then None else
  if String.length s > 2 && String.sub s 0 2 = "T|" then begin
    (* T|line|line|...  (~ for space): a whole symbol file after its MODULE line *)
    let lines = List.tl (String.split_on_char '|' s) in
    let all = "MODULE Linux x86 000000000000000000000000000000000 m" :: List.map untilde lines in
    match parse_symfile (List.map bytes_of_string all) with
    | Some t ->
        Some { s_func_lo = z_of_int 0; s_func_size = z_of_int 0; s_cfi_lo = z_of_int 0; s_cfi_size = z_of_int 0;
               s_cfa_off = z_of_int 0; s_ra_kind = z_of_int 0; s_ra_arg = z_of_int 0; s_fp_off = None; s_text = None;
               s_table = Some t }
    | None -> failwith ("symbol file rejected by the grammar: " ^ s)
  end else
  if String.length s > 2 && String.sub s 0 2 = "Y|" then begin
    (* Y|func_lo|func_size|cfi_lo|cfi_size|init rules (~ for space)|addr=delta rules|... *)
    match String.split_on_char '|' s with
    | "Y" :: flo :: fsz :: clo :: csz :: init :: deltas ->
        let ds = List.map (fun d ->
          match String.index_opt d '=' with
          | Some i -> (z_of_string (String.sub d 0 i), bytes_of_string (untilde (String.sub d (i + 1) (String.length d - i - 1))))
          | None -> failwith ("bad delta " ^ d)) deltas in
        Some { s_func_lo = z_of_string flo; s_func_size = z_of_string fsz; s_cfi_lo = z_of_string clo;
               s_cfi_size = z_of_string csz; s_cfa_off = z_of_int 0; s_ra_kind = z_of_int 0; s_ra_arg = z_of_int 0;
               s_fp_off = None; s_text = Some (bytes_of_string (untilde init), ds); s_table = None }
    | _ -> failwith ("bad sym " ^ s)
  end else
  match String.split_on_char ':' s with
  | [ "S"; flo; fsz; clo; csz; cfa; rk; ra; fp ] ->
      Some { s_func_lo = z_of_string flo; s_func_size = z_of_string fsz; s_cfi_lo = z_of_string clo;
             s_cfi_size = z_of_string csz; s_cfa_off = z_of_string cfa; s_ra_kind = z_of_string rk;
             s_ra_arg = z_of_string ra; s_fp_off = (if fp = "-" then None else Some (z_of_string fp)); s_text = None; s_table = None }
  | _ -> failwith ("bad sym " ^ s)
let fmt_frames mods ngp (fs : frame list) : string =
  String.concat "|" (List.map (fun f ->
    let r = f_regs f in
    let valid = match f_valid f with
      | VAll -> "*"
      | VSome l -> let l = List.sort_uniq compare (List.map name_of_z l) in if l = [] then "-" else String.concat "+" l in
    let gp = r_gp r in
    let gps = List.init ngp (fun i -> match List.nth_opt gp i with Some v -> string_of_z v | None -> "0") in
    String.concat "," [ string_of_z (f_instr f); string_of_z (f_resume f); string_of_z (r_sp r); string_of_z (r_fp r);
                        string_of_z (r_lr r); trust_name (int_of_z (trust_code (f_trust f))); valid;
                        (if gps = [] then "-" else String.concat "+" gps);
                        (match frame_module mods f with Some i -> string_of_z i | None -> "-") ]) fs)

let hex_of_words (pw : int) (ws : z list) : string =
  if ws = [] then "-" else begin
    let b = Buffer.create 256 in
    List.iter (fun w ->
      let v = ref (z_to_zt w) in
      for _ = 1 to pw do
        Buffer.add_string b (Printf.sprintf "%02x" (ZA.to_int (ZA.logand !v (ZA.of_int 255))));
        v := ZA.shift_right !v 8
      done) ws;
    Buffer.contents b
  end

let run_line (toks : string array) : string =
  let pos = ref 0 in
  let next () = let t = toks.(!pos) in incr pos; t in
  let archid = z_of_string (next ()) in
  let os = z_of_string (next ()) in
  let ip = z_of_string (next ()) in
  let sp = z_of_string (next ()) in
  let fp = z_of_string (next ()) in
  let lr = z_of_string (next ()) in
  let ngp = int_of_string (next ()) in
  let gp = List.init ngp (fun _ -> z_of_string (next ())) in
  let valid = next () in
  let all_valid = (valid = "*") in
  let names = if valid = "*" || valid = "-" then [] else List.map z_of_name (String.split_on_char ',' valid) in
  let base = z_of_string (next ()) in
  let bytes = unhex (next ()) in
  let nm = int_of_string (next ()) in
  let mods = List.init nm (fun _ ->
    let b = z_of_string (next ()) in
    let s = z_of_string (next ()) in
    let y = parse_sym (next ()) in ((b, s), y)) in
  let r = { r_ip = ip; r_sp = sp; r_fp = fp; r_lr = lr; r_gp = gp } in
  let one debug =
    match run_case true debug archid os r all_valid names base bytes mods (z_of_int 0) with
    | (Z0, fs) -> fmt_frames mods ngp fs
    | (Zpos XH, _) -> "P"
    | _ -> "OOF" in
  one true ^ " ## " ^ one false

let layout_line (toks : string array) : string =
  let pos = ref 1 in
  let next () = let t = toks.(!pos) in incr pos; t in
  let arch_s = next () in
  let os_s = next () in
  let base_s = next () in
  let ip0_s = next () in
  let n = int_of_string (next ()) in
  let specs = List.init n (fun _ -> let g = z_of_string (next ()) in let ra = z_of_string (next ()) in (g, ra)) in
  let nm = int_of_string (next ()) in
  let modtoks = List.init nm (fun _ -> let b = next () in let s = next () in let y = next () in (b, s, y)) in
  let archid = z_of_string arch_s in
  let pw = match int_of_string arch_s with 0 | 2 | 4 -> 4 | _ -> 8 in
  let ngp = match int_of_string arch_s with 0 -> 7 | 1 -> 14 | 2 -> 12 | 3 | 6 -> 29 | _ -> 9 in
  let ((r, words), chain) = layout_scan archid (z_of_string base_s) (z_of_string ip0_s) specs in
  (* instruction_seems_valid_by_symbols for modules without symbol files: x-1 non-zero and inside a module *)
  let iv (x : z) : bool =
    let v = ZA.pred (z_to_zt x) in
    ZA.sign v > 0 && List.exists (fun (b, s, _) ->
      let b = ZA.of_string b and s = ZA.of_string s in ZA.leq b v && ZA.lt v (ZA.add b s)) modtoks in
  let wf = layout_scan_wf archid (z_of_string base_s) iv specs in
  let names = match int_of_string arch_s with 0 -> "eip,esp" | 1 -> "rip,rsp" | 2 -> "r15,r13" | _ -> "pc,sp" in
  let case = String.concat " " ([ arch_s; os_s; string_of_z (r_ip r); string_of_z (r_sp r); string_of_z (r_fp r); string_of_z (r_lr r);
                                  string_of_int ngp ] @ List.init ngp (fun _ -> "0") @
                                [ names; base_s; hex_of_words pw words; string_of_int nm ] @
                                List.concat_map (fun (b, s, y) -> [ b; s; y ]) modtoks) in
  let exp = String.concat "|" (List.map (fun ((i, rs), sp) -> string_of_z i ^ "," ^ string_of_z rs ^ "," ^ string_of_z sp) chain) in
  case ^ " ## " ^ exp ^ " ## " ^ (if wf then "1" else "0")

(* M arch os base ip0 n (tech nfill fill_1..fill_nfill ra)*n nmods (mbase msize sym)*      tech: 0 = CFI, 1 = scan, 2 = frame pointer
   (the last fill word of a frame-pointer record is a placeholder: the Coq builder writes the saved frame pointer there and
   chooses the context's frame pointer)
   answer:  <case line> ## <expected chain: instr,resume,sp,trust,fp|...> ## <mix_wf_layout><rules_ok><walk with cfi_rules = chain>
   (three 0|1 flags); stack words, chain and preconditions all come from the extracted Coq builder of theorems
   c04_recovers_chain / c04_recovers_chain_rules *)
let mix_line (toks : string array) : string =
  let pos = ref 1 in
  let next () = let t = toks.(!pos) in incr pos; t in
  let arch_s = next () in
  let os_s = next () in
  let base_s = next () in
  let ip0_s = next () in
  let n = int_of_string (next ()) in
  let specs = List.init n (fun _ ->
    let t = z_of_string (next ()) in
    let nf = int_of_string (next ()) in
    let fill = List.init nf (fun _ -> z_of_string (next ())) in
    let ra = z_of_string (next ()) in ((t, fill), ra)) in
  let nm = int_of_string (next ()) in
  let modtoks = List.init nm (fun _ -> let b = next () in let s = next () in let y = next () in (b, s, y)) in
  let mods = List.map (fun (b, s, y) -> ((z_of_string b, z_of_string s), parse_sym y)) modtoks in
  let archid = z_of_string arch_s in
  let pw = match int_of_string arch_s with 0 | 2 | 4 -> 4 | _ -> 8 in
  let ngp = match int_of_string arch_s with 0 -> 7 | 1 -> 14 | 2 -> 12 | 3 | 6 -> 29 | _ -> 9 in
  let gp0 = List.init ngp (fun _ -> z_of_int 0) in
  let ((r, words), chain) = layout_mix archid (z_of_string base_s) (z_of_string ip0_s) gp0 specs in
  let wf = layout_mix_wf archid (z_of_string base_s) (z_of_string ip0_s) mods specs in
  let rok = layout_mix_rules_ok archid (z_of_string ip0_s) mods specs in
  let rwalk = layout_mix_rules_walk archid (z_of_string os_s) (z_of_string base_s) (z_of_string ip0_s) gp0 mods specs in
  let case = String.concat " " ([ arch_s; os_s; string_of_z (r_ip r); string_of_z (r_sp r); string_of_z (r_fp r); string_of_z (r_lr r);
                                  string_of_int ngp ] @ List.init ngp (fun _ -> "0") @
                                [ "*"; base_s; hex_of_words pw words; string_of_int nm ] @
                                List.concat_map (fun (b, s, y) -> [ b; s; y ]) modtoks) in
  let exp = String.concat "|" (List.map (fun ((((i, rs), sp), t), fp) ->
    string_of_z i ^ "," ^ string_of_z rs ^ "," ^ string_of_z sp ^ "," ^ trust_name (int_of_z t) ^ "," ^ string_of_z fp) chain) in
  let b x = if x then "1" else "0" in
  case ^ " ## " ^ exp ^ " ## " ^ b wf ^ b rok ^ b rwalk

let () =
  try
    while true do
      let line = input_line stdin in
      if String.length line > 0 && line.[0] <> '#' then begin
        let toks = Array.of_list (split_ws line) in
        print_endline (if toks.(0) = "L" then layout_line toks else if toks.(0) = "M" then mix_line toks else run_line toks)
      end
    done
  with End_of_file -> ()
