(* c16 model driver; case format: see harness/src/bin/c16.rs.
   The script of every server is turned into the event list the client observes
   (Driver.script_events); the lookup is run on the model, then a second lookup with every
   server answering 404.  For drop cases the model is additionally run with EDrop inserted at
   EVERY position at which the first lookup is still pending; the distinct predictions
   (one, by c16_no_stray_tmp / c16_failed_leaves_no_entry) are printed joined by '|'. *)
let unhex (s : string) : z list =
  if s = "-" then [] else
  List.init (String.length s / 2) (fun i -> z_of_int (int_of_string ("0x" ^ String.sub s (2 * i) 2)))
let crc_table = Array.init 256 (fun n ->
  let c = ref n in
  for _ = 0 to 7 do
    if !c land 1 <> 0 then c := (!c lsr 1) lxor 0xedb88320 else c := !c lsr 1
  done; !c)
let crc32 (l : z list) : int =
  let c = ref 0xffffffff in
  List.iter (fun b -> c := crc_table.((!c lxor (int_of_z b)) land 0xff) lxor (!c lsr 8)) l;
  !c lxor 0xffffffff
let hex_of (l : z list) : string =
  if l = [] then "-" else String.concat "" (List.map (fun b -> Printf.sprintf "%02x" (int_of_z b)) l)
let bytes_of_string (s : string) : z list = List.init (String.length s) (fun i -> z_of_int (Char.code s.[i]))

let rec split_at (l : z list) (offs : int list) (pos : int) : z list list =
  match offs with
  | [] -> [l]
  | o :: rest ->
    if o <= pos then split_at l rest pos
    else
      let n = o - pos in
      let rec take k acc l = if k = 0 then (List.rev acc, l) else match l with [] -> (List.rev acc, []) | x :: r -> take (k - 1) (x :: acc) r in
      let (a, b) = take n [] l in
      if b = [] then [a] else a :: split_at b rest o
let rec firstn n l = if n <= 0 then [] else match l with [] -> [] | x :: r -> x :: firstn (n - 1) r

let block (s : 'a) (with_q : bool) (with_d : bool) : string =
  let ((code, (nf, np)), url) = o_result s in
  let r = match int_of_z code with
    | 0 -> Printf.sprintf "OK:%s:%s:%s" (string_of_z nf) (string_of_z np) (match url with Some u -> hex_of u | None -> "N")
    | 1 -> "E:NotFound" | 2 -> "E:Parse" | 3 -> "DROPPED" | _ -> "PENDING" in
  let q = match o_log s with [] -> "-" | l -> String.concat "," (List.map string_of_z l) in
  let c = match o_cache s with
    | Some (File b) -> Printf.sprintf "%d:%d" (List.length b) (crc32 b)
    | _ -> "-" in
  let t = match o_tmp s with [] -> "-" | l -> String.concat "," (List.map string_of_z l) in
  Printf.sprintf "r=%s%s c=%s t=%s%s" r (if with_q then " q=" ^ q else "") c t
    (if with_d then (if o_cdir s then " d=1" else " d=0") else "")

(* shared-cache history (kM): the machine of C16/Shared.v with the operation programs extracted from
   the source; one prediction per snapshot: <cache len:crc | ->/<number of temp files> *)
let run_multi (toks : string array) : string =
  let df = unhex toks.(1) in
  let id = toks.(2) in
  let cf = unhex toks.(3) in
  let ci = toks.(4) in
  let pre = toks.(5) in
  let nc = int_of_string toks.(7) in
  let str_of l = String.concat "" (List.map (fun b -> String.make 1 (Char.chr (int_of_z b))) l) in
  let dfs = str_of df and cfs = str_of cf in
  let stem = if String.length dfs > 4 && String.lowercase_ascii (String.sub dfs (String.length dfs - 4) 4) = ".pdb"
    then String.sub dfs 0 (String.length dfs - 4) else dfs in
  let enc r s = String.concat r (String.split_on_char ' ' s) in
  let target = Printf.sprintf "%s/%s/%s.sym?code_file=%s&code_id=%s" (enc "%20" dfs) id (enc "%20" stem) (enc "+" cfs)
      (if ci = "N" then "" else String.lowercase_ascii ci) in
  let e = mk_env true true (z_of_int (-1)) true true in
  let server i = { s_id = z_of_int i; s_url = bytes_of_string (Printf.sprintf "http://127.0.0.1:PORT%d/%s" i target); s_env = e } in
  (* per client: status, no_head, delivered bytes, ending (0 clean, 1 error) *)
  let scripts = Array.init nc (fun i ->
    let parts = Array.of_list (String.split_on_char ';' toks.(8 + i)) in
    let status = int_of_string parts.(0) in
    let fr = parts.(1) in
    let cut = parts.(2) in
    let body = unhex parts.(4) in
    let blen = List.length body in
    let (no_head, delivered, ending) =
      if cut = "-" then (false, body, 0)
      else if cut = "h" then (true, [], 1)
      else
        let k = min blen (int_of_string (String.sub cut 1 (String.length cut - 1))) in
        if fr.[0] = 'E' && cut.[0] = 'c' then (false, firstn k body, 0)
        else if fr.[0] = 'L' && cut.[0] = 'c' && k >= blen then (false, body, 0)
        else (false, firstn k body, 1) in
    (status, no_head, delivered, ending)) in
  let sched = if toks.(8 + nc) = "-" then [] else
    List.map (fun x -> (int_of_string (String.sub x 0 (String.length x - 1)), x.[String.length x - 1]))
      (String.split_on_char ',' toks.(8 + nc)) in
  let pre_kind, pre_c =
    if pre = "-" then (0, []) else if pre = "D" then (2, [])
    else (1, unhex (String.sub pre 1 (String.length pre - 1))) in
  let all_servers = List.init nc server in
  let srv (i : z) : server list = let k = int_of_z i in if k >= 0 && k < nc then [server k] else all_servers in
  let s = ref (sh_start (sh_init (z_of_int pre_kind) pre_c) srv) in
  let stage = Array.make nc 0 in
  let started = Array.make nc false in
  let requested = Array.make nc false in
  let code i = let ((c, _), _) = sh_result !s (z_of_int i) in int_of_z c in
  let pending i = code i = 4 in
  let start i =
    if not started.(i) then begin
      started.(i) <- true;
      s := sh_begin !s (z_of_int i);
      if pending i then requested.(i) <- true
    end in
  let net i ev = s := sh_net !s (z_of_int i) ev in
  let advance i want =
    if started.(i) && pending i && requested.(i) then begin
      let (status, no_head, delivered, ending) = scripts.(i) in
      if stage.(i) < 1 && want >= 1 then begin
        if no_head then (net i ESendErr; stage.(i) <- 3)
        else (net i (EHead (z_of_int status)); stage.(i) <- (if status >= 400 then 3 else 1))
      end;
      let n = List.length delivered in
      let half = firstn (n / 2) delivered in
      let rec dropn k l = if k <= 0 then l else match l with [] -> [] | _ :: r -> dropn (k - 1) r in
      if stage.(i) < 2 && want = 2 then begin
        if half <> [] then net i (EChunk half);
        stage.(i) <- 2
      end;
      if stage.(i) < 3 && want >= 3 then begin
        let rest = if stage.(i) = 2 then dropn (n / 2) delivered else delivered in
        if rest <> [] then net i (EChunk rest);
        net i (if ending = 0 then EEof else EBodyErr);
        stage.(i) <- 3
      end
    end in
  let snap () =
    let c = match sh_cache !s with
      | Some (File b) -> Printf.sprintf "%d:%d" (List.length b) (crc32 b)
      | _ -> "-" in
    Printf.sprintf "%s/%s" c (string_of_z (sh_ntmp !s (z_of_int nc))) in
  for i = 0 to nc - 1 do
    if not (List.exists (fun (j, op) -> j = i && op = 'S') sched) then start i
  done;
  let snaps = ref [snap ()] in
  List.iter (fun (i, op) ->
    (match op with
     | 'S' -> start i
     | 'H' -> advance i 1
     | 'B' -> advance i 2
     | 'E' -> advance i 3
     | 'D' -> if started.(i) then net i EDrop
     | _ -> failwith "schedule op");
    snaps := !snaps @ [snap ()]) sched;
  for i = 0 to nc - 1 do advance i 3 done;
  let res_text st i =
    let ((c, (nf, np)), url) = sh_result st (z_of_int i) in
    match int_of_z c with
    | 0 -> Printf.sprintf "OK:%s:%s:%s" (string_of_z nf) (string_of_z np) (match url with Some u -> hex_of u | None -> "N")
    | 1 -> "E:NotFound" | 2 -> "E:Parse" | 3 -> "DROPPED" | 5 -> "NOTSTARTED" | _ -> "PENDING" in
  let res = String.concat " " (List.init nc (fun i -> Printf.sprintf "%s/%d" (res_text !s i) (if requested.(i) then 1 else 0))) in
  let fin = snap () in
  (* a further client with every server answering 404 *)
  let b = z_of_int nc in
  s := sh_begin !s b;
  let q = if (let ((c, _), _) = sh_result !s b in int_of_z c) = 4 then nc else 0 in
  for _ = 1 to nc do s := sh_net !s b (EHead (z_of_int 404)) done;
  Printf.sprintf "S{%s}R{%s}F{%s}B{%s/%d/%s}" (String.concat " " !snaps) res fin (res_text !s nc) q (snap ())

(* locate_file for binaries / extra debug info (first token kB | kD): the machine of C16/FileFetch.v (fetch_lookup: no parse, no
   note, caching not optional, persist_noclobber never replaces).  Same scripts, same observables; the result is OK:L (a local
   path has the file), OK:C (the answer is the cache path: already there, or downloaded), E:NotFound. *)
let run_file (toks : string array) : string =
  let pos = ref 1 in
  let next () = let t = toks.(!pos) in incr pos; t in
  let df = next () in let id = next () in let _cf = next () in let ci = next () in
  let pre = next () in
  let nloc = int_of_string (next ()) in
  let locals = List.init nloc (fun _ -> next () <> "-") in
  let env = next () in
  let drop = next () in
  let _tmo = next () in
  let ns = int_of_string (next ()) in
  let mk = env <> "c" && env <> "d" && env <> "i" in
  let cr = env <> "t" && env <> "m" in
  let wlim = if env.[0] = 'w' then int_of_string (String.sub env 1 (String.length env - 1)) else -1 in
  let e = mk_env mk cr (z_of_int wlim) true true in
  let unmodelled = ref (df = "N" || id = "N" || ci = "N") in
  let servers = ref [] and scripts = ref [] in
  for i = 0 to ns - 1 do
    let parts = Array.of_list (String.split_on_char ';' (next ())) in
    let status = int_of_string parts.(0) in
    let fr = parts.(1) in
    let offs = if String.length fr > 1
      then List.map int_of_string (String.split_on_char ',' (String.sub fr 1 (String.length fr - 1))) else [] in
    let cut = parts.(2) in
    let body = unhex parts.(4) in
    if parts.(3) <> "-" || Array.length parts > 5 then unmodelled := true;
    let blen = List.length body in
    let decl, offs = if fr.[0] = 'M' then (match offs with d :: r -> (d, r) | [] -> (blen, [])) else (blen, offs) in
    let is_len = fr.[0] = 'L' || fr.[0] = 'S' || fr.[0] = 'M' in
    let (no_head, delivered, ending) =
      if cut = "h" then (true, [], 1)
      else
        let k = if cut = "-" then blen else min blen (int_of_string (String.sub cut 1 (String.length cut - 1))) in
        if fr.[0] = 'E' && (cut = "-" || cut.[0] = 'c') then (false, firstn k body, 0)
        else if is_len && (cut = "-" || cut.[0] = 'c') && k >= decl then (false, firstn decl body, 0)
        else if cut = "-" && not is_len then (false, body, 0)
        else (false, firstn k body, 1) in
    let chunks = split_at delivered (List.sort compare offs) 0 in
    servers := !servers @ [{ s_id = z_of_int i; s_url = []; s_env = e }];
    scripts := !scripts @ [script_events (z_of_int status) no_head chunks (z_of_int ending)]
  done;
  if !unmodelled then "?" else
  let pre_kind, pre_c =
    if env = "c" || pre = "-" then (0, []) else if pre = "D" then (2, [])
    else (1, unhex (String.sub pre 1 (String.length pre - 1))) in
  let f0 = init_fs (z_of_int pre_kind) pre_c in
  let flatten f scripts =
    let evs = ref [] in
    List.iteri (fun i sc ->
      List.iter (fun ev ->
        let s = file_lookup f locals !servers !evs in
        if q_pending s && int_of_z (q_cur s) = i then evs := !evs @ [ev]) sc) scripts;
    !evs in
  let off_scripts = List.init ns (fun _ -> script_events (z_of_int 404) false [] (z_of_int 0)) in
  let second f = file_lookup f locals !servers (flatten f off_scripts) in
  let fblock s with_q with_d =
    let r = match int_of_z (q_result s) with
      | 0 -> if List.exists (fun x -> x) locals then "OK:L" else "OK:C"
      | 1 -> "OK:C" | 2 -> "E:NotFound" | 3 -> "DROPPED" | _ -> "PENDING" in
    let q = match q_olog s with [] -> "-" | l -> String.concat "," (List.map string_of_z l) in
    let c = match fs_cache (q_ofs s) with
      | Some (File b) -> Printf.sprintf "%d:%d" (List.length b) (crc32 b)
      | _ -> "-" in
    let t = match fs_tmp (q_ofs s) with [] -> "-" | l -> String.concat "," (List.map string_of_z l) in
    Printf.sprintf "r=%s%s c=%s t=%s%s" r (if with_q then " q=" ^ q else "") c t
      (if with_d then (if fs_cdir (q_ofs s) then " d=1" else " d=0") else "") in
  let evs = flatten f0 !scripts in
  let s1 = file_lookup f0 locals !servers evs in
  let s2 = second (q_ofs s1) in
  let out = Buffer.create 256 in
  Buffer.add_string out (Printf.sprintf "A{%s}B{%s}" (fblock s1 true true) (fblock s2 true true));
  if drop <> "-" then begin
    let n = List.length evs in
    let preds = ref [] in
    let addp p = if not (List.mem p !preds) then preds := !preds @ [p] in
    let c0 = (match pre_kind with 1 -> Printf.sprintf "%d:%d" (List.length pre_c) (crc32 pre_c) | _ -> "-") in
    addp (Printf.sprintf "X{r=DROPPED c=%s t=%s}Y{%s}" c0 "-" (fblock (second f0) true false));
    for k = 0 to n do
      let pfx = take_events (z_of_int k) evs in
      let sk = file_lookup f0 locals !servers pfx in
      if q_pending sk then begin
        let sd = file_lookup f0 locals !servers (pfx @ [ev_drop]) in
        addp (Printf.sprintf "X{%s}Y{%s}" (fblock sd false false) (fblock (second (q_ofs sd)) true false))
      end
    done;
    Buffer.add_string out (String.concat "|" !preds)
  end;
  Buffer.contents out

let () =
  try
    while true do
      let line = input_line stdin in
      if String.length line > 0 && line.[0] <> '#' then begin
        let toks0 = Array.of_list (split_ws line) in
        (* kS<n>: n concurrent lookups of the module on one Symbolizer: its per-module slot lets ONE of them call the
           supplier (C12: c12_at_most_once), so the file system, the request log and the result are those of one lookup *)
        let toks = if String.length toks0.(0) > 2 && String.sub toks0.(0) 0 2 = "kS"
          then Array.sub toks0 1 (Array.length toks0 - 1) else toks0 in
        let pos = ref 0 in
        let next () = let t = toks.(!pos) in incr pos; t in
        (* not modelled (the oracle alone judges): locate_file lookups (first token k..), modules
           without debug file/id (code-info redirect), inputs with a line in the band where the
           over-long-line recovery depends on buffer alignment *)
        if toks.(0) = "kM" then print_endline (run_multi toks) else
        if toks.(0) = "kB" || toks.(0) = "kD" then print_endline (run_file toks) else
        if toks.(0).[0] = 'k' || toks.(0) = "N" || toks.(1) = "N" then print_endline "?" else
        let df = unhex (next ()) in
        let id = next () in
        let cf = unhex (next ()) in
        let ci = next () in
        let pre = next () in
        let nloc = int_of_string (next ()) in
        let locals = List.init nloc (fun _ -> let t = next () in
          if t = "-" then None else Some (unhex (String.sub t 1 (String.length t - 1)))) in
        let env = next () in
        let drop = next () in
        let _tmo = next () in
        let ns = int_of_string (next ()) in
        (* request target, as the code builds it: <leaf>/<ID>/<stem>.sym?code_file=..&code_id=<lower> *)
        let dfs = String.concat "" (List.map (fun b -> String.make 1 (Char.chr (int_of_z b))) df) in
        let cfs = String.concat "" (List.map (fun b -> String.make 1 (Char.chr (int_of_z b))) cf) in
        let stem = if String.length dfs > 4 && String.lowercase_ascii (String.sub dfs (String.length dfs - 4) 4) = ".pdb"
          then String.sub dfs 0 (String.length dfs - 4) else dfs in
        let enc r s = String.concat r (String.split_on_char ' ' s) in
        let target = Printf.sprintf "%s/%s/%s.sym?code_file=%s&code_id=%s" (enc "%20" dfs) id (enc "%20" stem) (enc "+" cfs)
            (if ci = "N" then "" else String.lowercase_ascii ci) in
        (* create_dir_all fails: cache root below a regular file, or a regular file where a directory level is needed;
           "x" (no cache root yet) succeeds: create_dir_all makes every level *)
        let mk = env <> "c" && env <> "d" && env <> "i" in
        let cr = env <> "t" && env <> "m" && env <> "c" in
        let wlim = if env.[0] = 'w' then int_of_string (String.sub env 1 (String.length env - 1)) else -1 in
        let e = mk_env mk cr (z_of_int wlim) true true in
        let race = ref None in
        let servers = ref [] and scripts = ref [] in
        let infos = ref [] in
        let fuzzy = ref false in
        let chk b = if int_of_z (line_class b) = 2 then fuzzy := true in
        List.iter (function Some b -> chk b | None -> ()) locals;
        for i = 0 to ns - 1 do
          let parts = Array.of_list (String.split_on_char ';' (next ())) in
          let status = int_of_string parts.(0) in
          let fr = parts.(1) in
          let offs = if String.length fr > 1
            then List.map int_of_string (String.split_on_char ',' (String.sub fr 1 (String.length fr - 1))) else [] in
          let cut = parts.(2) in
          let body = unhex parts.(4) in
          chk body;
          if i = 0 && parts.(3) <> "-" then
            race := Some (unhex (String.sub parts.(3) 1 (String.length parts.(3) - 1)));
          let blen = List.length body in
          (* framing M<decl>[,offsets]: the Content-Length header announces <decl> bytes whatever the body's length *)
          let decl, offs = if fr.[0] = 'M' then (match offs with d :: r -> (d, r) | [] -> (blen, [])) else (blen, offs) in
          let is_len = fr.[0] = 'L' || fr.[0] = 'S' || fr.[0] = 'M' in
          let (no_head, delivered, ending) =
            if cut = "h" then (true, [], 1)
            else
              let k = if cut = "-" then blen else min blen (int_of_string (String.sub cut 1 (String.length cut - 1))) in
              (* a close-delimited body that is cut is indistinguishable from a complete shorter one *)
              if fr.[0] = 'E' && (cut = "-" || cut.[0] = 'c') then (false, firstn k body, 0)
              (* Content-Length satisfied (the client stops reading there) before the connection is closed *)
              else if is_len && (cut = "-" || cut.[0] = 'c') && k >= decl then (false, firstn decl body, 0)
              else if cut = "-" && not is_len then (false, body, 0)
              else (false, firstn k body, 1) in
          let chunks = split_at delivered (List.sort compare offs) 0 in
          let url = bytes_of_string (Printf.sprintf "http://127.0.0.1:PORT%d/%s" i target) in
          servers := !servers @ [{ s_id = z_of_int i; s_url = url; s_env = e }];
          (* where the response finally comes from: the last location of the server's redirect chain (6th field V<code>:<hex>..) *)
          let final_url =
            if Array.length parts > 5 && String.length parts.(5) > 0 && parts.(5).[0] = 'V' then begin
              let fs = String.split_on_char ':' (String.sub parts.(5) 1 (String.length parts.(5) - 1)) in
              let last = List.nth fs (List.length fs - 1) in
              let loc = String.concat "" (List.map (fun b -> String.make 1 (Char.chr (int_of_z b))) (unhex last)) in
              let has_scheme = (try ignore (Str.search_forward (Str.regexp_string "://") loc 0); true with Not_found -> false) in
              let loc = Str.global_replace (Str.regexp_string "PORTSELF") (Printf.sprintf "PORT%d" i) loc in
              bytes_of_string (if has_scheme then loc else Printf.sprintf "http://127.0.0.1:PORT%d%s" i loc)
            end else url in
          (* a chain that leads to a closed port or redirects to itself for ever: send() fails, no response at all *)
          let dead_chain =
            Array.length parts > 5 && String.length parts.(5) > 0 && parts.(5).[0] = 'V' &&
            List.exists (fun h ->
                let loc = String.concat "" (List.map (fun b -> String.make 1 (Char.chr (int_of_z b))) (unhex h)) in
                let has x = (try ignore (Str.search_forward (Str.regexp_string x) loc 0); true with Not_found -> false) in
                has "127.0.0.1:1/" || has "LOOP")
              (List.tl (String.split_on_char ':' (String.sub parts.(5) 1 (String.length parts.(5) - 1)))) in
          let (no_head, delivered, ending) = if dead_chain then (true, [], 1) else (no_head, delivered, ending) in
          let chunks = if dead_chain then [] else chunks in
          infos := !infos @ [(status, no_head, delivered, List.map List.length chunks, ending, final_url)];
          scripts := !scripts @ [script_events (z_of_int status) no_head chunks (z_of_int ending)]
        done;
        let pre_kind, pre_c =
          if env = "c" then (0, [])
          else if pre = "-" then (0, []) else if pre = "D" then (2, [])
          else (1, unhex (String.sub pre 1 (String.length pre - 1))) in
        chk pre_c;
        (match !race with Some b -> chk b | None -> ());
        if !fuzzy then print_endline "?" else
        let f0 = init_fs (z_of_int pre_kind) pre_c in
        (* the flat event list the future observes: the events of response i are delivered while
           the lookup is at server i; what is left of an abandoned response is never seen *)
        let flatten f race scripts =
          let evs = ref [] in
          List.iteri (fun i sc ->
            List.iter (fun e ->
              let s = lookup f locals race !servers !evs in
              if o_pending s && int_of_z (o_cur s) = i then evs := !evs @ [e]) sc) scripts;
          !evs in
        let off_scripts = List.init ns (fun _ -> script_events (z_of_int 404) false [] (z_of_int 0)) in
        let second f = lookup f locals None !servers (flatten f None off_scripts) in
        let evs = ref (flatten f0 !race !scripts) in
        let s1 = lookup f0 locals !race !servers !evs in
        let s2 = second (o_fs s1) in
        (* cross-check of the two models: without local paths / racing writer the lookup is one client of the
           shared-cache machine (operation programs translated from the source) fed the same events *)
        let agree =
          if locals <> [] || !race <> None then true else begin
            let z0 = z_of_int 0 in
            let sh = ref (sh_begin (sh_start (sh_init (z_of_int pre_kind) pre_c) (fun _ -> !servers)) z0) in
            List.iter (fun ev -> sh := sh_net !sh z0 ev) !evs;
            let ((c1, (a1, b1)), u1) = sh_result !sh z0 and ((c2, (a2, b2)), u2) = o_result s1 in
            let su = function Some u -> hex_of u | None -> "N" in
            let sc = function Some (File b) -> "F" ^ hex_of b | Some Dir -> "D" | None -> "-" in
            int_of_z c1 = int_of_z c2 && string_of_z a1 = string_of_z a2 && string_of_z b1 = string_of_z b2 && su u1 = su u2
            && sc (sh_cache !sh) = sc (o_cache s1) && int_of_z (sh_ntmp !sh (z_of_int 1)) = List.length (o_tmp s1)
          end in
        (* cross-check with the streaming fetch (C16/Stream.v lookup_stream: for every server in turn create_cache_file,
           parse_async's loop over the scripted body with the tee callback, commit_cache_file): without local paths, a racing
           writer or an entry that is already there, the lookup IS that network part; its result, URL, request log, cache
           entry, tmp directory and leaf directory must be what C16/Model.v predicts (and hence what the real code does) *)
        let stream_agree =
          if locals <> [] || !race <> None || pre_kind = 1 then true else begin
            let ss = List.map2 (fun srv (status, no_head, delivered, sizes, ending, final_url) ->
                (srv, resp_of (z_of_int status) no_head final_url delivered (List.map z_of_int sizes) (ending <> 0))) !servers !infos in
            let ((((kind, (a, b)), u), f'), lg) = stream_lookup f0 ss in
            let ((c2, (a2, b2)), u2) = o_result s1 in
            let sc = function Some (File b) -> "F" ^ hex_of b | Some Dir -> "D" | None -> "-" in
            let su = function Some u -> hex_of u | None -> "N" in
            int_of_z kind = int_of_z c2 && string_of_z a = string_of_z a2 && string_of_z b = string_of_z b2 && su u = su u2
            && sc (fs_cache f') = sc (o_cache s1) && List.length (fs_tmp f') = List.length (o_tmp s1)
            && fs_cdir f' = o_cdir s1
            && List.map string_of_z lg = List.map string_of_z (o_log s1)
          end in
        if not agree then print_endline "MODELS-DISAGREE (C16/Model.v vs C16/Shared.v on a single-client case)" else
        if not stream_agree then print_endline "MODELS-DISAGREE (C16/Model.v vs the streaming fetch of C16/Stream.v)" else
        let out = Buffer.create 256 in
        Buffer.add_string out (Printf.sprintf "A{%s}B{%s}" (block s1 true true) (block s2 true true));
        if drop <> "-" then begin
          let n = List.length !evs in
          let preds = ref [] in
          (* dropped before the first poll: nothing ran *)
          let add x y = let p = Printf.sprintf "X{r=DROPPED c=%s t=%s}Y{%s}" x "-" y in
            if not (List.mem p !preds) then preds := !preds @ [p] in
          let c0 = (match pre_kind with 1 -> Printf.sprintf "%d:%d" (List.length pre_c) (crc32 pre_c) | _ -> "-") in
          add c0 (block (second f0) true false);
          for k = 0 to n do
            let pfx = take_events (z_of_int k) !evs in
            let sk = lookup f0 locals !race !servers pfx in
            if o_pending sk then begin
              let sd = lookup f0 locals !race !servers (pfx @ [ev_drop]) in
              let b = block sd false false in
              (* b = "r=DROPPED c=.. t=.." *)
              let p = Printf.sprintf "X{%s}Y{%s}" b (block (second (o_fs sd)) true false) in
              if not (List.mem p !preds) then preds := !preds @ [p]
            end
          done;
          Buffer.add_string out (String.concat "|" !preds)
        end;
        print_endline (Buffer.contents out)
      end
    done
  with End_of_file -> ()
