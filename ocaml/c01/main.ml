(* c01 model driver: one case per line
     H <hex> | F <testdata name> <off:val,...|-> | SIZES
   first token of argv (optional): "unfixed" runs the model of the code before the fix commits.
   output:  R=..;SI=..;TL=..;...;EXP=..;led=<largest ledger entry>   or "?" (case not predicted) *)
let tags = [| "R"; "SI"; "TL"; "ML"; "UM"; "MEM"; "M64"; "MI"; "TI"; "TN"; "HD"; "EX"; "EXP"; "EXC"; "TLP"; "MS"; "LC"; "LS"; "LR"; "LE"; "LL"; "MA"; "CP"; "SIS"; "AS"; "BP"; "MB"; "SE"; "MC"; "RM"; "RI"; "CA"; "TE"; "AM"; "AL"; "AI"; "A6"; "TG"; "TS"; "TIG"; "TSW" |]
let kinds = [| "none"; "x86"; "amd64"; "ppc"; "ppc64"; "sparc"; "arm"; "arm64"; "arm64old"; "mips" |]
let err_names = [| "MissingHeader"; "HeaderMismatch"; "VersionMismatch"; "MissingDirectory"; "StreamReadFailure";
                   "StreamSizeMismatch"; "StreamNotFound"; "ModuleReadFailure"; "MemoryReadFailure"; "DataError";
                   "CodeViewReadFailure" |]
let small = Array.init 256 (fun i -> z_of_int i)
let bytes_of_string (s : string) = List.init (String.length s) (fun i -> small.(Char.code s.[i]))
let unhex (h : string) : string =
  if h = "-" then "" else String.init (String.length h / 2) (fun i -> Char.chr (int_of_string ("0x" ^ String.sub h (2 * i) 2)))
let read_file name =
  let ic = open_in_bin ("/repo/testdata/" ^ name) in
  let n = in_channel_length ic in
  let s = really_input_string ic n in
  close_in ic; s
let version = if Array.length Sys.argv > 1 && Sys.argv.(1) = "unfixed" then Unfixed else Fixed
let max_model_len = 40000
let () =
  try
    while true do
      let line = input_line stdin in
      if String.length line > 0 && line.[0] <> '#' then begin
        if line = "SIZES" then
          print_endline ("SIZES " ^ String.concat " " (List.map string_of_z sizes2))
        else begin
          let toks = Array.of_list (split_ws line) in
          let data =
            match toks.(0) with
            | "H" -> unhex toks.(1)
            | "F" ->
                let b = Bytes.of_string (read_file toks.(1)) in
                if toks.(2) <> "-" then
                  List.iter (fun kv ->
                    match String.split_on_char ':' kv with
                    | [o; v] ->
                        let o = int_of_string o and v = int_of_string v in
                        if o + 4 <= Bytes.length b then
                          for k = 0 to 3 do Bytes.set b (o + k) (Char.chr ((v lsr (8 * k)) land 255)) done
                    | _ -> failwith "patch") (String.split_on_char ',' toks.(2));
                Bytes.to_string b
            | _ -> failwith "kind" in
          if String.length data > max_model_len then print_endline "?"
          else begin
            let o = run_case version Debug (bytes_of_string data) in
            let fs = List.map (fun (t, f) ->
              tags.(int_of_z t) ^ "=" ^
              (match f with
               | FOk [n; k] when int_of_z t = 11 -> "ok:" ^ string_of_z n ^ ":" ^ kinds.(int_of_z k)
               | FOk vs when int_of_z t = 21 || int_of_z t = 29 || int_of_z t = 30 || int_of_z t = 32 -> "ok:" ^ String.concat "" (List.map string_of_z vs)
               | FOk vs -> String.concat ":" ("ok" :: List.map string_of_z vs)
               | FErr e -> "err:" ^ err_names.(int_of_z (err_code e))
               | FPan t -> "!P(" ^ string_of_z t ^ ")"
               | FNoFuel -> "!NOFUEL")) (let bs = bytes_of_string data in o_fields o @ run_queries Debug bs @ run_lookups Debug bs @ run_stacks Debug bs @ run_prints Debug bs) in
            let led = List.fold_left (fun a x -> let x = z_to_zt x in if ZA.compare x a > 0 then x else a) ZA.zero (o_ledger o @ table_ledger Debug (bytes_of_string data)) in
            print_endline (String.concat ";" fs ^ ";led=" ^ ZA.to_string led)
          end
        end
      end
    done
  with End_of_file -> ()
