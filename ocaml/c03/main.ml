(* c03 model driver; see harness/src/bin/c03.rs for the case format.
   D / F cases (whole-pipeline search) are outside what the model predicts: answer "?" *)
let unhex (s : string) : z list =
  if s = "-" then []
  else List.init (String.length s / 2) (fun i -> z_of_int (int_of_string ("0x" ^ String.sub s (2 * i) 2)))
let hex (l : z list) : string =
  if l = [] then "-" else String.concat "" (List.map (fun b -> Printf.sprintf "%02x" (int_of_z b)) l)
let lim (v : z) : string = let s = string_of_z v in if s = "-1" then "u" else s

let () =
  try
    while true do
      let line = input_line stdin in
      if String.length line > 0 && line.[0] <> '#' then begin
        let toks = Array.of_list (split_ws line) in
        let pos = ref 0 in
        let next () = let t = toks.(!pos) in incr pos; t in
        let nz () = z_of_string (next ()) in
        let out =
          match next () with
          | "D" | "F" -> "?"
          | "L" ->
            (match run_limits (unhex (next ())) with
             | None -> "P;;"
             | Some l ->
               "L " ^ String.concat ";" (List.map (fun (((n, s), h), u) ->
                   Printf.sprintf "%s|%s|%s|%s" (hex n) (lim s) (lim h) (hex u)) l))
          | "G" ->
            let addr = nz () in let kind = nz () in
            let n = int_of_string (next ()) in
            let regs = List.init n (fun _ -> let a = nz () in let b = nz () in let p = nz () in ((a, b), p)) in
            (match string_of_z (run_guard addr kind regs) with
             | "3" -> "P;;"
             | s -> "G " ^ s)
          | "S" ->
            let rsp = nz () in let op = nz () in
            "S " ^ String.concat "," (List.map string_of_z (run_stack_access rsp op (z_of_int 0x5000)))
          | "A" ->
            (* the name arrives as UTF-8 bytes in hex; the model works on code points *)
            let b = Array.of_list (List.map int_of_z (unhex (next ()))) in
            let n = Array.length b in
            let cps = ref [] in
            let i = ref 0 in
            while !i < n do
              let c = b.(!i) in
              let (cp, l) =
                if c < 0x80 then (c, 1)
                else if c < 0xe0 then (((c land 0x1f) lsl 6) lor (b.(!i + 1) land 0x3f), 2)
                else if c < 0xf0 then (((c land 0x0f) lsl 12) lor ((b.(!i + 1) land 0x3f) lsl 6) lor (b.(!i + 2) land 0x3f), 3)
                else (((c land 0x07) lsl 18) lor ((b.(!i + 1) land 0x3f) lsl 12) lor ((b.(!i + 2) land 0x3f) lsl 6) lor (b.(!i + 3) land 0x3f), 4) in
              cps := z_of_int cp :: !cps;
              i := !i + l
            done;
            let enc (s : z list) : string =
              let buf = Buffer.create 16 in
              List.iter (fun z -> Buffer.add_utf_8_uchar buf (Uchar.of_int (int_of_z z))) s;
              let t = Buffer.contents buf in
              if t = "" then "-" else String.concat "" (List.map (fun ch -> Printf.sprintf "%02x" (Char.code ch)) (List.init (String.length t) (String.get t))) in
            (match run_args (List.rev !cps) with
             | None -> "P;;"
             | Some None -> "A -"
             | Some (Some (cc, args)) ->
               let names = (if string_of_z cc = "1" then ["74686973"] else []) @ List.map enc args in
               "A " ^ string_of_z cc ^ " " ^ String.concat "," names)
          | "I" ->
            let _mem64 = next () in let _os = next () in
            let cpu = nz () in let ip = nz () in let l = nz () in
            let n = int_of_string (next ()) in
            let regs = List.init n (fun _ -> let a = nz () in let b = nz () in (a, b)) in
            (* the thread stack (64 bytes at 0x10000) is the first region of every synthesized dump *)
            (match string_of_z (run_fetch cpu ((z_of_int 0x10000, z_of_int 64) :: regs) ip l) with
             | "3" -> "P;;"
             | s -> "I " ^ s)
          | "U" ->
            let _mem64 = next () in
            let addr = nz () in
            let n = int_of_string (next ()) in
            let pat (b : ZA.t) (len : int) : z list =
              List.init len (fun i ->
                  let a = ZA.add b (ZA.of_int i) in
                  if ZA.equal a (ZA.of_int 0x400000) then z_of_int 0xff
                  else if ZA.equal a (ZA.of_int 0x400001) then z_of_int 0x23
                  else z_of_string (ZA.to_string (ZA.logand (ZA.add (ZA.mul a (ZA.of_int 131)) (ZA.of_int 7)) (ZA.of_int 255)))) in
            let regs = List.init n (fun _ -> let a = next () in let l = int_of_string (next ()) in (z_of_string a, pat (ZA.of_string a) l)) in
            let all = (z_of_int 0x10000, pat (ZA.of_int 0x10000) 64) :: (z_of_int 0x400000, [z_of_int 0xff; z_of_int 0x23]) :: regs in
            (match run_read_u64 all addr with
             | None -> "U -"
             | Some v -> "U " ^ string_of_z v)
          | "J" ->
            let rd () = let n = int_of_string (next ()) in
              List.init n (fun _ -> let a = nz () in let b = nz () in (a, b)) in
            let mods = rd () in let unl = rd () in
            (match run_json_modules mods unl with
             | None -> "P;;"
             | Some (a, b) ->
               "J " ^ String.concat "," (List.map string_of_z a) ^ "|" ^ String.concat "," (List.map string_of_z b))
          | _ -> failwith "kind" in
        print_endline out
      end
    done
  with End_of_file -> ()
