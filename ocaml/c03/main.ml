(* c03 model driver; see harness/src/bin/c03.rs for the case format.
   D / F cases (whole-pipeline search) are outside what the model predicts: answer "?" *)
let unhex (s : string) : z list =
  if s = "-" then []
  else List.init (String.length s / 2) (fun i -> z_of_int (int_of_string ("0x" ^ String.sub s (2 * i) 2)))
let hex (l : z list) : string =
  if l = [] then "-" else String.concat "" (List.map (fun b -> Printf.sprintf "%02x" (int_of_z b)) l)
let lim (v : z) : string = let s = string_of_z v in if s = "-1" then "u" else s

let () =
  try
    while true do
      let line = input_line stdin in
      if String.length line > 0 && line.[0] <> '#' then begin
        let toks = Array.of_list (split_ws line) in
        let pos = ref 0 in
        let next () = let t = toks.(!pos) in incr pos; t in
        let nz () = z_of_string (next ()) in
        let out =
          match next () with
          | "D" | "F" -> "?"
          | "L" ->
            (match run_limits (unhex (next ())) with
             | None -> "P;;"
             | Some l ->
               "L " ^ String.concat ";" (List.map (fun (((n, s), h), u) ->
                   Printf.sprintf "%s|%s|%s|%s" (hex n) (lim s) (lim h) (hex u)) l))
          | "G" ->
            let addr = nz () in let kind = nz () in
            let n = int_of_string (next ()) in
            let regs = List.init n (fun _ -> let a = nz () in let b = nz () in let p = nz () in ((a, b), p)) in
            (match string_of_z (run_guard addr kind regs) with
             | "3" -> "P;;"
             | s -> "G " ^ s)
          | "S" ->
            let rsp = nz () in let op = nz () in
            "S " ^ String.concat "," (List.map string_of_z (run_stack_access rsp op (z_of_int 0x5000)))
          | "A" ->
            (* the name arrives as UTF-8 bytes in hex; the model works on code points *)
            let b = Array.of_list (List.map int_of_z (unhex (next ()))) in
            let n = Array.length b in
            let cps = ref [] in
            let i = ref 0 in
            while !i < n do
              let c = b.(!i) in
              let (cp, l) =
                if c < 0x80 then (c, 1)
                else if c < 0xe0 then (((c land 0x1f) lsl 6) lor (b.(!i + 1) land 0x3f), 2)
                else if c < 0xf0 then (((c land 0x0f) lsl 12) lor ((b.(!i + 1) land 0x3f) lsl 6) lor (b.(!i + 2) land 0x3f), 3)
                else (((c land 0x07) lsl 18) lor ((b.(!i + 1) land 0x3f) lsl 12) lor ((b.(!i + 2) land 0x3f) lsl 6) lor (b.(!i + 3) land 0x3f), 4) in
              cps := z_of_int cp :: !cps;
              i := !i + l
            done;
            let enc (s : z list) : string =
              let buf = Buffer.create 16 in
              List.iter (fun z -> Buffer.add_utf_8_uchar buf (Uchar.of_int (int_of_z z))) s;
              let t = Buffer.contents buf in
              if t = "" then "-" else String.concat "" (List.map (fun ch -> Printf.sprintf "%02x" (Char.code ch)) (List.init (String.length t) (String.get t))) in
            (match run_args (List.rev !cps) with
             | None -> "P;;"
             | Some None -> "A -"
             | Some (Some (cc, args)) ->
               let names = (if string_of_z cc = "1" then ["74686973"] else []) @ List.map enc args in
               "A " ^ string_of_z cc ^ " " ^ String.concat "," names)
          | "I" ->
            let _mem64 = next () in let _os = next () in
            let cpu = nz () in let ip = nz () in let l = nz () in
            let n = int_of_string (next ()) in
            let regs = List.init n (fun _ -> let a = nz () in let b = nz () in (a, b)) in
            (* the thread stack (64 bytes at 0x10000) is the first region of every synthesized dump *)
            (match string_of_z (run_fetch cpu ((z_of_int 0x10000, z_of_int 64) :: regs) ip l) with
             | "3" -> "P;;"
             | s -> "I " ^ s)
          | "U" ->
            let _mem64 = next () in
            let addr = nz () in
            let n = int_of_string (next ()) in
            let pat (b : ZA.t) (len : int) : z list =
              List.init len (fun i ->
                  let a = ZA.add b (ZA.of_int i) in
                  if ZA.equal a (ZA.of_int 0x400000) then z_of_int 0xff
                  else if ZA.equal a (ZA.of_int 0x400001) then z_of_int 0x23
                  else z_of_string (ZA.to_string (ZA.logand (ZA.add (ZA.mul a (ZA.of_int 131)) (ZA.of_int 7)) (ZA.of_int 255)))) in
            let regs = List.init n (fun _ -> let a = next () in let l = int_of_string (next ()) in (z_of_string a, pat (ZA.of_string a) l)) in
            let all = (z_of_int 0x10000, pat (ZA.of_int 0x10000) 64) :: (z_of_int 0x400000, [z_of_int 0xff; z_of_int 0x23]) :: regs in
            (match run_read_u64 all addr with
             | None -> "U -"
             | Some v -> "U " ^ string_of_z v)
          | "T" ->
            (* the D-spec subset of a thread-loop case: cpu= os= mem64= B= T= X= M= U= R= (numbers decimal or 0x-hex) *)
            let cpu = ref "x86" and os = ref "win" and mem64 = ref false and share = ref false in
            let bp = ref None and exc = ref None in
            let threads = ref [] and mods = ref [] and unl = ref [] and regions = ref [] in
            let num (t : string) : z = z_of_string t in
            let bytes_spec (t : string) : z list =
              if t = "-" || t = "" then []
              else if t.[0] = 'z' then List.init (int_of_string (String.sub t 1 (String.length t - 1))) (fun _ -> z_of_int 0)
              else unhex t in
            let regs_spec (t : string) : (string * z) list option =
              if t = "-" then None
              else if t = "" || t = "0" then Some []
              else Some (List.map (fun kv -> match String.split_on_char '=' kv with
                  | [k; v] -> (k, num v) | _ -> failwith "reg=val") (String.split_on_char ',' t)) in
            while !pos < Array.length toks do
              let t = next () in
              let (k, v) = match String.index_opt t '=' with
                | Some i -> (String.sub t 0 i, String.sub t (i + 1) (String.length t - i - 1))
                | None -> (t, "") in
              let f = Array.of_list (String.split_on_char ':' v) in
              (match k with
               | "cpu" -> cpu := v
               | "os" -> os := v
               | "mem64" -> mem64 := (v = "1")
               | "opt" -> ()
               | "share" -> share := (v = "1")
               | "B" -> bp := Some (num f.(0), num f.(1))
               | "T" -> threads := (num f.(0), num f.(1), bytes_spec f.(2), regs_spec f.(3)) :: !threads
               | "X" -> exc := Some (num f.(0), regs_spec f.(7))
               | "M" -> mods := (num f.(0), num f.(1)) :: !mods
               | "U" -> unl := (num f.(0), num f.(1)) :: !unl
               | "R" -> regions := (num f.(0), bytes_spec f.(1)) :: !regions
               | _ -> failwith ("T case: token " ^ k))
            done;
            let threads = List.rev !threads and mods = List.rev !mods and unl = List.rev !unl and regions = List.rev !regions in
            (* share=1: every thread-list entry carries the stack descriptor and the context location of the first one (the
               same file bytes); the memory list keeps one entry per thread as written (the later ones are empty) *)
            let mem_threads = threads in
            let threads = match threads with
              | (_, b0, s0, r0) :: _ when !share -> List.map (fun (id, _, _, _) -> (id, b0, s0, r0)) threads
              | _ -> threads in
            let (archid, ipn, spn, fpn, lrn) = match !cpu with
              | "x86" -> (0, "eip", "esp", "ebp", "")
              | "amd64" -> (1, "rip", "rsp", "rbp", "")
              | "arm" -> (2, "pc", "sp", "fp", "lr")
              | "arm64" -> (3, "pc", "sp", "fp", "lr")
              | "arm64old" -> (6, "pc", "sp", "fp", "lr")
              | "mips" -> (4, "pc", "sp", "fp", "ra")
              | "mips64" -> (5, "pc", "sp", "fp", "ra")
              | "ppc" | "ppc64" -> (7, "srr0", "r1", "", "")
              | "sparc" -> (7, "pc", "g_r14", "", "")
              | c -> failwith ("T case: cpu " ^ c) in
            let osid = match !os with "win" -> 1 | "ios" -> 2 | _ -> 0 in
            (* MinidumpContext::read has no arm for PROCESSOR_ARCHITECTURE_MIPS64 (`_ => Err(UnknownCpuContext)`): in a mips64
               dump no context is decoded, neither a thread's nor the exception's *)
            let ctx_of (r : (string * z) list option) = match r with
              | _ when !cpu = "mips64" -> None
              | None -> None
              | Some l ->
                let g n = if n = "" then z_of_int 0 else (try List.assoc n l with Not_found -> z_of_int 0) in
                Some (((g ipn, g spn), g fpn), g lrn) in
            (* thread stacks: with mem64 the thread's own descriptor is empty and the stack is a Memory64List region;
               otherwise it is the thread's own memory (None when it has no bytes: MinidumpMemory::read fails on data_size 0)
               and an entry of the MemoryList *)
            let th = List.map (fun (id, base, bytes, regs) ->
                (((id, ctx_of regs), (if !mem64 || bytes = [] then None else Some (base, bytes))), base)) threads in
            let mem = List.map (fun (_, base, bytes, _) -> (base, bytes)) mem_threads @ regions in
            let (dump_tid, req_tid) = match !bp with Some (d, r) -> (Some d, Some r) | None -> (None, None) in
            let (crash_tid, exc_ctx) = match !exc with Some (tid, r) -> (Some tid, ctx_of r) | None -> (None, None) in
            (* (round 5, second pass) the printers on that state: see Driver.run_render / item_code *)
            let render_part =
              match run_render (z_of_int archid) (z_of_int osid) th dump_tid crash_tid req_tid exc_ctx mem mods unl with
              | None -> "P;;"
              | Some ((full, brief), json) ->
                let tok ((k, a), b) =
                  let sa = string_of_z a and sb = string_of_z b in
                  (match string_of_z k with
                   | "0" -> "T" ^ sa
                   | "1" -> "N"
                   | "2" -> "F" ^ sa ^ ":" ^ (if sb = "-1" then "-" else sb)
                   | "3" -> "I" ^ sa
                   | "4" -> "J" ^ sa
                   | "5" -> "f" ^ sa ^ ":" ^ (if sb = "-1" then "-" else sb)
                   | "6" -> "C" ^ sa
                   | "7" -> "M" ^ sa ^ "-" ^ sb
                   | _ -> "m" ^ sa ^ "-" ^ sb) in
                (* the module lines are compared by the J cases (print iterates by_addr(), which leaves out overlapped modules) *)
                let keep ((k, _), _) = let c = string_of_z k in c <> "7" && c <> "8" in
                let line l = let l = List.filter keep l in if l = [] then "-" else String.concat "," (List.map tok l) in
                line full ^ " | " ^ line brief ^ " | " ^ line json in
            (match run_process (z_of_int archid) (z_of_int osid) th dump_tid crash_tid req_tid exc_ctx mem mods unl with
             | None -> "P;;"
             | Some (outs, req) ->
               (fun s -> if render_part = "P;;" then "P;;" else s ^ " | " ^ render_part) @@
               "T req=" ^ (match req with Some i -> string_of_z i | None -> "-") ^ " " ^
               String.concat ";" (List.map (fun (((id, info), frames), offs) ->
                   Printf.sprintf "%s:%s:%s:%s" (string_of_z id) (string_of_z info)
                     (String.concat "," (List.map (fun (i, t) -> string_of_z i ^ "/" ^ string_of_z t) frames))
                     (String.concat "," (List.map (fun l ->
                          String.concat "+" (List.sort (fun a b -> compare (String.length a, a) (String.length b, b)) (List.map string_of_z l))) offs)))
                   outs))
          | "N" ->
            (* stream types made unreadable: 3 = ThreadListStream, 7 = SystemInfoStream; every other one is optional *)
            let hidden = ref [] in
            while !pos < Array.length toks do hidden := next () :: !hidden done;
            (match string_of_z (run_info_new (not (List.mem "3" !hidden)) (not (List.mem "7" !hidden))) with
             | "0" -> "N ok"
             | "1" -> "N err:MissingThreadList"
             | _ -> "N err:MissingSystemInfo")
          | "B" ->
            let good = nz () in let _crash = next () in
            let n = int_of_string (next ()) in
            let regs = List.init n (fun _ -> nz ()) in
            (* valid_registers() of the amd64 context: the 16 general-purpose registers and rip (0x400000 in every B case) *)
            (match run_nearby good (regs @ [z_of_int 0x400000]) with
             | None -> "P;;"
             | Some (c, i) -> "B " ^ string_of_z c ^ " " ^ (let s = string_of_z i in if s = "-1" then "-" else s))
          | "J" ->
            let rd () = let n = int_of_string (next ()) in
              List.init n (fun _ -> let a = nz () in let b = nz () in (a, b)) in
            let mods = rd () in let unl = rd () in
            (match run_json_modules mods unl with
             | None -> "P;;"
             | Some (a, b) ->
               "J " ^ String.concat "," (List.map string_of_z a) ^ "|" ^ String.concat "," (List.map string_of_z b))
          | _ -> failwith "kind" in
        print_endline out
      end
    done
  with End_of_file -> ()
