(* c03 model driver; see harness/src/bin/c03.rs for the case format.
   D / F cases (whole-pipeline search) are outside what the model predicts: answer "?" *)
let unhex (s : string) : z list =
  if s = "-" then []
  else List.init (String.length s / 2) (fun i -> z_of_int (int_of_string ("0x" ^ String.sub s (2 * i) 2)))
let hex (l : z list) : string =
  if l = [] then "-" else String.concat "" (List.map (fun b -> Printf.sprintf "%02x" (int_of_z b)) l)
let lim (v : z) : string = let s = string_of_z v in if s = "-1" then "u" else s

let () =
  try
    while true do
      let line = input_line stdin in
      if String.length line > 0 && line.[0] <> '#' then begin
        let toks = Array.of_list (split_ws line) in
        let pos = ref 0 in
        let next () = let t = toks.(!pos) in incr pos; t in
        let nz () = z_of_string (next ()) in
        let out =
          match next () with
          | "D" | "F" -> "?"
          | "L" ->
            (match run_limits (unhex (next ())) with
             | None -> "P;;"
             | Some l ->
               "L " ^ String.concat ";" (List.map (fun (((n, s), h), u) ->
                   Printf.sprintf "%s|%s|%s|%s" (hex n) (lim s) (lim h) (hex u)) l))
          | "G" ->
            let addr = nz () in let kind = nz () in
            let n = int_of_string (next ()) in
            let regs = List.init n (fun _ -> let a = nz () in let b = nz () in let p = nz () in ((a, b), p)) in
            (match string_of_z (run_guard addr kind regs) with
             | "3" -> "P;;"
             | s -> "G " ^ s)
          | "S" ->
            let rsp = nz () in let op = nz () in
            "S " ^ String.concat "," (List.map string_of_z (run_stack_access rsp op (z_of_int 0x5000)))
          | "J" ->
            let rd () = let n = int_of_string (next ()) in
              List.init n (fun _ -> let a = nz () in let b = nz () in (a, b)) in
            let mods = rd () in let unl = rd () in
            (match run_json_modules mods unl with
             | None -> "P;;"
             | Some (a, b) ->
               "J " ^ String.concat "," (List.map string_of_z a) ^ "|" ^ String.concat "," (List.map string_of_z b))
          | _ -> failwith "kind" in
        print_endline out
      end
    done
  with End_of_file -> ()
