(* c08 model driver: one case per line
     kind n (base size tag)*n m (query)*m
   kinds 42/43 (STACK WIN tables, model kind 7): a table entry is start-end:tag@start+len (the model proves that an
   entry is filed under its own record's range, c08_win_sorted_disjoint), a lookup answer is tag@address+size
   kinds 19 / 22 (model kinds 9 / 11): ERR;; when the reader rejects the whole stream; kind 21 is model kind 10
   output: one line  P|OK;start-end:tag,...;g1|g2|...   (each g = tags joined by '+', '-' if none) *)
let () =
  try
    while true do
      let line = input_line stdin in
      if String.length line > 0 && line.[0] <> '#' then begin
        let toks = Array.of_list (split_ws line) in
        let pos = ref 0 in
        let next () = let t = toks.(!pos) in incr pos; t in
        let kind = (match int_of_string (next ()) with 11 | 12 | 13 | 14 | 15 | 16 -> 1 | 17 -> 2 | 41 -> 4 | 42 | 43 -> 7 | 18 -> 8 | 19 -> 9 | 21 -> 10 | 22 -> 11 | 23 -> 12 | k -> k) |> z_of_int in
        let n = int_of_string (next ()) in
        let ents = List.init n (fun _ ->
          let b = z_of_string (next ()) in
          let s = z_of_string (next ()) in
          let v = z_of_string (next ()) in ((b, s), v)) in
        let m = int_of_string (next ()) in
        let qs = List.init m (fun _ -> z_of_string (next ())) in
        let o = run_case kind ents qs in
        let b = Buffer.create 256 in
        if kind = z_of_int (-1) then Buffer.add_string b "?" else
        if o_panic o then Buffer.add_string b "P;;"
        else if o_err o then Buffer.add_string b "ERR;;"
        else begin
          Buffer.add_string b "OK;";
          Buffer.add_string b (String.concat ","
            (List.map (fun ((s, e), t) ->
               string_of_z s ^ "-" ^ string_of_z e ^ ":" ^ string_of_z t ^
               (if kind = z_of_int 7 then "@" ^ string_of_z s ^ "+" ^ ZA.to_string (ZA.succ (ZA.sub (z_to_zt e) (z_to_zt s))) else ""))
               (o_table o)));
          Buffer.add_string b ";";
          Buffer.add_string b (String.concat "|"
            (List.map (fun g -> if g = [] then "-" else
               if kind = z_of_int 7 then (match g with [t; a; sz] -> string_of_z t ^ "@" ^ string_of_z a ^ "+" ^ string_of_z sz | _ -> "?")
               else String.concat "+" (List.map string_of_z g)) (o_gets o)))
        end;
        print_endline (Buffer.contents b)
      end
    done
  with End_of_file -> ()
