(* c05 model driver.  One case per line (all numbers decimal):
     arch os ip sp fp lr ngp gp_1..gp_ngp valid base hexbytes nmods (mbase msize sym)*nmods
   arch: 0 x86 1 amd64 2 arm 3 arm64 4 mips32 5 mips64 6 arm64_old;  os: 0 other 1 windows 2 ios
   valid: "*" = MinidumpContextValidity::All, "-" = empty set, else comma separated register names
   hexbytes: "-" = empty
   sym: "-" = no symbol file for the module, else  S:func_lo:func_size:cfi_lo:cfi_size:cfa_off:ra_kind:ra_arg:fp_off|-
        or  Y|func_lo|func_size|cfi_lo|cfi_size|<STACK CFI INIT rules, ~ for space>|<addr>=<STACK CFI delta rules>|...
        or  T|<line>|<line>|...  a whole symbol file (FUNC / STACK WIN / STACK CFI lines, ~ for space) after its MODULE line
   gp: the registers of CpuContext::REGISTERS other than ip/sp/fp/lr, in REGISTERS order
   Answer: <debug answer> ## <release answer>; an answer is  P  (panic),  OOF  (out of fuel), or frames joined by '|':
     instr,resume,sp,fp,lr,trust,valid names joined by '+',gp values joined by '+',module index or -,
     function as <base>:<name> or - *)
let name_of_z (x : z) : string =
  let rec go (v : ZA.t) acc =
    if ZA.equal v ZA.zero then acc
    else go (ZA.shift_right v 8) (String.make 1 (Char.chr (ZA.to_int (ZA.logand v (ZA.of_int 255)))) ^ acc) in
  go (z_to_zt x) ""
let z_of_name (s : string) : z =
  let v = ref ZA.zero in
  String.iter (fun c -> v := ZA.add (ZA.shift_left !v 8) (ZA.of_int (Char.code c))) s;
  z_of_zt !v
let trust_name = function 0 -> "none" | 1 -> "scan" | 2 -> "cfi_scan" | 3 -> "frame_pointer" | 4 -> "cfi" | 5 -> "prewalked" | _ -> "context"
let unhex (s : string) : z list =
  if s = "-" then [] else
  List.init (String.length s / 2) (fun i -> z_of_int (int_of_string ("0x" ^ String.sub s (2 * i) 2)))
let bytes_of_string (s : string) : z list = List.init (String.length s) (fun i -> z_of_int (Char.code s.[i]))
let untilde (s : string) : string = String.map (fun c -> if c = '~' then ' ' else c) s
let parse_sym (s : string) =
  if s = "-" then None else
  if String.length s > 2 && String.sub s 0 2 = "T|" then begin
    (* T|line|line|...  (~ for space): a whole symbol file after its MODULE line *)
    let lines = List.tl (String.split_on_char '|' s) in
    let all = "MODULE Linux x86 000000000000000000000000000000000 m" :: List.map untilde lines in
    match parse_symfile (List.map bytes_of_string all) with
    | Some t ->
        Some { s_func_lo = z_of_int 0; s_func_size = z_of_int 0; s_cfi_lo = z_of_int 0; s_cfi_size = z_of_int 0;
               s_cfa_off = z_of_int 0; s_ra_kind = z_of_int 0; s_ra_arg = z_of_int 0; s_fp_off = None; s_text = None;
               s_table = Some t }
    | None -> failwith ("symbol file rejected by the grammar: " ^ s)
  end else
  if String.length s > 2 && String.sub s 0 2 = "Y|" then begin
    (* Y|func_lo|func_size|cfi_lo|cfi_size|init rules (~ for space)|addr=delta rules|... *)
    match String.split_on_char '|' s with
    | "Y" :: flo :: fsz :: clo :: csz :: init :: deltas ->
        let ds = List.map (fun d ->
          match String.index_opt d '=' with
          | Some i -> (z_of_string (String.sub d 0 i), bytes_of_string (untilde (String.sub d (i + 1) (String.length d - i - 1))))
          | None -> failwith ("bad delta " ^ d)) deltas in
        Some { s_func_lo = z_of_string flo; s_func_size = z_of_string fsz; s_cfi_lo = z_of_string clo;
               s_cfi_size = z_of_string csz; s_cfa_off = z_of_int 0; s_ra_kind = z_of_int 0; s_ra_arg = z_of_int 0;
               s_fp_off = None; s_text = Some (bytes_of_string (untilde init), ds); s_table = None }
    | _ -> failwith ("bad sym " ^ s)
  end else
  match String.split_on_char ':' s with
  | [ "S"; flo; fsz; clo; csz; cfa; rk; ra; fp ] ->
      Some { s_func_lo = z_of_string flo; s_func_size = z_of_string fsz; s_cfi_lo = z_of_string clo;
             s_cfi_size = z_of_string csz; s_cfa_off = z_of_string cfa; s_ra_kind = z_of_string rk;
             s_ra_arg = z_of_string ra; s_fp_off = (if fp = "-" then None else Some (z_of_string fp)); s_text = None; s_table = None }
  | _ -> failwith ("bad sym " ^ s)
let fmt_frames mods ngp (fs : frame list) : string =
  String.concat "|" (List.map (fun f ->
    let r = f_regs f in
    let valid = match f_valid f with
      | VAll -> "*"
      | VSome l -> let l = List.sort_uniq compare (List.map name_of_z l) in if l = [] then "-" else String.concat "+" l in
    let gp = r_gp r in
    let gps = List.init ngp (fun i -> match List.nth_opt gp i with Some v -> string_of_z v | None -> "0") in
    String.concat "," [ string_of_z (f_instr f); string_of_z (f_resume f); string_of_z (r_sp r); string_of_z (r_fp r);
                        string_of_z (r_lr r); trust_name (int_of_z (trust_code (f_trust f))); valid;
                        (if gps = [] then "-" else String.concat "+" gps);
                        (match frame_module mods f with Some i -> string_of_z i | None -> "-");
                        (match frame_function mods f with
                         | Some (base, name) ->
                             let b = Buffer.create 16 in
                             List.iter (fun (c, n) ->
                               let ch = Char.chr (int_of_z c land 255) in
                               let ch = if ch = ',' || ch = '|' || ch = ':' || ch = ' ' || ch = '\t' then '_' else ch in
                               for _ = 1 to max 1 (int_of_z n) do Buffer.add_char b ch done) name;
                             string_of_z base ^ ":" ^ Buffer.contents b
                         | None -> "-") ]) fs)
let () =
  try
    while true do
      let line = input_line stdin in
      if String.length line > 0 && line.[0] <> '#' then begin
        let toks = Array.of_list (split_ws line) in
        let pos = ref 0 in
        let next () = let t = toks.(!pos) in incr pos; t in
        let archid = z_of_string (next ()) in
        let os = z_of_string (next ()) in
        let ip = z_of_string (next ()) in
        let sp = z_of_string (next ()) in
        let fp = z_of_string (next ()) in
        let lr = z_of_string (next ()) in
        let ngp = int_of_string (next ()) in
        let gp = List.init ngp (fun _ -> z_of_string (next ())) in
        let valid = next () in
        let all_valid = (valid = "*") in
        let names = if valid = "*" || valid = "-" then [] else List.map z_of_name (String.split_on_char ',' valid) in
        let base = z_of_string (next ()) in
        let bytes = unhex (next ()) in
        let nm = int_of_string (next ()) in
        let mods = List.init nm (fun _ ->
          let b = z_of_string (next ()) in
          let s = z_of_string (next ()) in
          let y = parse_sym (next ()) in ((b, s), y)) in
        let r = { r_ip = ip; r_sp = sp; r_fp = fp; r_lr = lr; r_gp = gp } in
        let one debug =
          match run_case true debug archid os r all_valid names base bytes mods (z_of_int 0) with
          | (Z0, fs) -> fmt_frames mods ngp fs
          | (Zpos XH, _) -> "P"
          | _ -> "OOF" in
        print_endline (one true ^ " ## " ^ one false)
      end
    done
  with End_of_file -> ()
