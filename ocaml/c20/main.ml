(* c20 model driver; case format: see harness/src/bin/c20.rs.
   answer: three predictions "R{..}|P{..}|O{..}" for the library outcomes read error / processing
   error / success, each  exit;stdout;out;cyborg;log;stderr_diag;log_diag;recover
   sink = '-' absent | 0 empty | renderer names joined by '+' ('!' = a failed write) *)
let name_of_code (c : int) : string =
  match c with
  | 1 -> "H" | 2 -> "HB" | 3 -> "J" | 4 -> "JP" | 5 -> "D" | 6 -> "DB" | 7 -> "HELP" | 99 -> "!"
  | _ -> "?"
let fmt_sink (l : z list) : string =
  match List.map int_of_z l with
  | [-1] -> "-"
  | [] -> "0"
  | cs -> String.concat "+" (List.map name_of_code cs)
let b2s b = if b then "1" else "0"
let fmt_obs o =
  String.concat ";" [string_of_z (o_exit o); fmt_sink (o_stdout o); fmt_sink (o_out o); fmt_sink (o_cyborg o);
                     fmt_sink (o_log o); b2s (o_stderr_diag o); b2s (o_log_diag o); b2s (o_recover o)]
let cls (s : string) : z =
  z_of_int (match s with "b" -> 1 | "u" -> 2 | "p" -> 3 | _ -> 0)

let () =
  try
    while true do
      let line = input_line stdin in
      if String.length line > 0 && line.[0] <> '#' then begin
        match split_ws line with
        | [_input; _sym; modes; brief; pretty; feat; rfa; out; cy; log; verbose; stdout_c; _evil; _noflags] ->
          let has c = String.contains modes c in
          let feat = match feat with "1" -> 1 | "2" -> 2 | _ -> 0 in
          let ((r, p), o) =
            run_case (has 'h') (has 'j') (has 'c') (has 'D') (has 'm') (pretty = "1") (brief = "1")
              (z_of_int feat) (rfa = "1") (out <> "-") (log <> "-") (verbose = "off")
              (cls out) (cls cy) (cls log) (cls stdout_c) in
          print_endline (String.concat "|" [fmt_obs r; fmt_obs p; fmt_obs o])
        | _ -> failwith ("bad case line: " ^ line)
      end
    done
  with End_of_file -> ()
