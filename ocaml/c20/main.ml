(* c20 model driver; case format: see harness/src/bin/c20.rs.
   answer: three predictions "R{..}|P{..}|O{..}" for the library outcomes read error / processing
   error / success, each  exit;stdout;out;cyborg;log;stderr_diag;log_diag;recover;sym;diag_kind;known_b;known_d
   (known_b / known_d: the run is in the exact class of the known finding F-C20b / F-C20d, C20/Known.v)
   sink = '-' absent | 0 empty | K the file the run found, untouched | renderer names joined by '+' ('!' = a failed write,
   'S' = bytes of the file the run found)
   sym  = '-' | <roots in the order the supplier receives them>/<URLs in that order>/<root the module's symbols come from | ->
          for the M<items> symbol specs (letters and digits as in the case format) *)
let rec name_of_code (c : int) : string =
  match c with
  | -7 -> "S" | 1 -> "H" | 2 -> "HB" | 3 -> "J" | 4 -> "JP" | 5 -> "D" | 6 -> "DB" | 7 -> "HELP" | 99 -> "!"
  | c when c > 100 -> name_of_code (c - 100) ^ "~"
  | _ -> "?"
let fmt_sink (l : z list) : string =
  match List.map int_of_z l with
  | [-1] -> "-"
  | [] -> "0"
  | [-7; -7; -7] -> "K"
  | cs -> String.concat "+" (List.map name_of_code cs)
let b2s b = if b then "1" else "0"
let fmt_obs sym o =
  String.concat ";" [string_of_z (o_exit o); fmt_sink (o_stdout o); fmt_sink (o_out o); fmt_sink (o_cyborg o);
                     fmt_sink (o_log o); b2s (o_stderr_diag o); b2s (o_log_diag o); b2s (o_recover o); sym; string_of_z (o_diag_kind o);
                     b2s (o_known_b o); b2s (o_known_d o)]
(* the path exists before the run: x. (not the symlink loop xL, not the dangling symlink xK) and q. *)
let pre (s : string) : bool =
  String.length s > 0 && (s.[0] = 'q' || (s.[0] = 'x' && s <> "xL" && s <> "xK"))
let roots = "amzfexog"
let sym_pred (spec : string) : string =
  if String.length spec = 0 || spec.[0] <> 'M' then "-" else begin
    let codes = ref [] in
    String.iteri (fun i ch ->
      if i > 0 && ch <> '.' then begin
        if ch >= '0' && ch <= '9' then codes := (200 + Char.code ch - 48) :: !codes
        else begin
          let low = Char.lowercase_ascii ch in
          let k = 1 + String.index roots low in
          codes := (if ch = low then k else 100 + k) :: !codes
        end
      end) spec;
    let ((paths, urls), win) = sym_case (List.map z_of_int (List.rev !codes)) in
    let letter z = String.make 1 roots.[int_of_z z - 1] in
    String.concat "" (List.map letter paths) ^ "/" ^ String.concat "" (List.map (fun u -> string_of_int (int_of_z u)) urls) ^ "/" ^
    (if int_of_z win = 0 then "-" else letter win)
  end
(* g x. q. fine (x. q.: the path exists before the run) | xL (symlink loop) b d r File::create fails | u /dev/full | p.. f.. reader goes away | lim > 0: regular files fail after N bytes *)
let cls (lim : bool) (s : string) : z =
  z_of_int (if s = "" then 0 else if s = "xL" then 1 else match s.[0] with
    | 'b' | 'd' | 'r' -> 1 | 'u' -> 2 | 'p' | 'f' -> 3 | 'g' | 'x' | 'q' -> if lim then 4 else 0 | _ -> 0)

(* raw command lines: token 17 = A<tag>:<tok>,<tok>,..  (each token percent-encoded; "%_" = the empty string; "!" = no
   token at all).  The tag is the generator's note for the oracle; the model parses the tokens themselves. *)
let ascii_of_char (c : char) : ascii =
  let n = Char.code c in
  let b i = (n lsr i) land 1 = 1 in
  Ascii (b 0, b 1, b 2, b 3, b 4, b 5, b 6, b 7)
let str_of_ocaml (s : string) : str =
  let r = ref SNil in
  for i = String.length s - 1 downto 0 do r := SCons (ascii_of_char s.[i], !r) done;
  !r
let pct_decode (s : string) : string =
  if s = "%_" then "" else begin
    let b = Buffer.create (String.length s) in
    let i = ref 0 in
    while !i < String.length s do
      if s.[!i] = '%' && !i + 2 < String.length s then begin
        Buffer.add_char b (Char.chr (int_of_string ("0x" ^ String.sub s (!i + 1) 2))); i := !i + 3
      end else begin Buffer.add_char b s.[!i]; incr i end
    done;
    Buffer.contents b
  end
let argv_of_token (t : string) : str list =
  let body = String.sub t (String.index t ':' + 1) (String.length t - String.index t ':' - 1) in
  if body = "!" then [] else List.map (fun x -> str_of_ocaml (pct_decode x)) (String.split_on_char ',' body)

(* `DUMPSEQ <name>=<0|1|2> ..` (what get_stream / get_raw_stream answer per stream kind: Ok | StreamNotFound | another error)
   -> the printer calls of --dump in order: H header | S:<T> T::print | L fixed text | R:<name> print_raw_stream *)
let char_of_ascii (Ascii (b0, b1, b2, b3, b4, b5, b6, b7)) : char =
  let v b i = if b then 1 lsl i else 0 in
  Char.chr (v b0 0 + v b1 1 + v b2 2 + v b3 3 + v b4 4 + v b5 5 + v b6 6 + v b7 7)
let ocaml_of_str (s : str) : string =
  let b = Buffer.create 32 in
  let rec go = function SNil -> () | SCons (c, r) -> Buffer.add_char b (char_of_ascii c); go r in
  go s; Buffer.contents b
let dump_seq (toks : string list) : string =
  let kv = List.map (fun t ->
    let i = String.index t '=' in
    (str_of_ocaml (String.sub t 0 i), z_of_int (int_of_string (String.sub t (i + 1) (String.length t - i - 1))))) toks in
  String.concat "," (List.map (fun (k, n) ->
    match int_of_z k with
    | 0 -> "H" | 1 -> "S:" ^ ocaml_of_str n | 2 -> "L" | _ -> "R:" ^ ocaml_of_str n) (dump_case kv))

let () =
  try
    while true do
      let line = input_line stdin in
      if String.length line > 0 && line.[0] <> '#' then begin
        match split_ws line with
        | "DUMPSEQ" :: toks -> print_endline (dump_seq toks)
        | _input :: sym :: modes :: brief :: pretty :: feat :: rfa :: out :: cy :: log :: verbose :: stdout_c :: _evil :: _noflags :: rest ->
          let lim = (match rest with l :: _ -> l <> "0" | [] -> false) in
          let has c = String.contains modes c in
          let feat = match feat with "1" -> 1 | "2" -> 2 | _ -> 0 in
          let info = (match rest with
            | _ :: _ :: a :: _ when String.length a > 0 && a.[0] = 'A' -> string_of_z (argv_info (argv_of_token a))
            | _ -> "-") in
          let ((r, p), o) =
            match rest with
            | _ :: _ :: a :: _ when String.length a > 0 && a.[0] = 'A' ->
              argv_case (argv_of_token a) (cls lim out) (cls lim cy) (cls false log) (cls false stdout_c) (pre out) (pre cy) (pre log)
            | _ ->
            run_case (has 'h') (has 'j') (has 'c') (has 'D') (has 'm') (pretty = "1") (brief = "1")
              (z_of_int feat) (rfa = "1") (out <> "-") (log <> "-") (verbose = "off")
              (cls lim out) (cls lim cy) (cls false log) (cls false stdout_c) (pre out) (pre cy) (pre log) in
          let sp = sym_pred sym in
          print_endline (String.concat "|" [fmt_obs sp r; fmt_obs sp p; fmt_obs sp o; info])
        | _ -> failwith ("bad case line: " ^ line)
      end
    done
  with End_of_file -> ()
