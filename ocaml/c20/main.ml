(* c20 model driver; case format: see harness/src/bin/c20.rs.
   answer: three predictions "R{..}|P{..}|O{..}" for the library outcomes read error / processing
   error / success, each  exit;stdout;out;cyborg;log;stderr_diag;log_diag;recover
   sink = '-' absent | 0 empty | renderer names joined by '+' ('!' = a failed write) *)
let rec name_of_code (c : int) : string =
  match c with
  | 1 -> "H" | 2 -> "HB" | 3 -> "J" | 4 -> "JP" | 5 -> "D" | 6 -> "DB" | 7 -> "HELP" | 99 -> "!"
  | c when c > 100 -> name_of_code (c - 100) ^ "~"
  | _ -> "?"
let fmt_sink (l : z list) : string =
  match List.map int_of_z l with
  | [-1] -> "-"
  | [] -> "0"
  | cs -> String.concat "+" (List.map name_of_code cs)
let b2s b = if b then "1" else "0"
let fmt_obs o =
  String.concat ";" [string_of_z (o_exit o); fmt_sink (o_stdout o); fmt_sink (o_out o); fmt_sink (o_cyborg o);
                     fmt_sink (o_log o); b2s (o_stderr_diag o); b2s (o_log_diag o); b2s (o_recover o)]
(* g fine | b d r File::create fails | u /dev/full | p.. f.. reader goes away | lim > 0: regular files fail after N bytes *)
let cls (lim : bool) (s : string) : z =
  z_of_int (if s = "" then 0 else match s.[0] with
    | 'b' | 'd' | 'r' -> 1 | 'u' -> 2 | 'p' | 'f' -> 3 | 'g' -> if lim then 4 else 0 | _ -> 0)

let () =
  try
    while true do
      let line = input_line stdin in
      if String.length line > 0 && line.[0] <> '#' then begin
        match split_ws line with
        | _input :: _sym :: modes :: brief :: pretty :: feat :: rfa :: out :: cy :: log :: verbose :: stdout_c :: _evil :: _noflags :: rest ->
          let lim = (match rest with l :: _ -> l <> "0" | [] -> false) in
          let has c = String.contains modes c in
          let feat = match feat with "1" -> 1 | "2" -> 2 | _ -> 0 in
          let ((r, p), o) =
            run_case (has 'h') (has 'j') (has 'c') (has 'D') (has 'm') (pretty = "1") (brief = "1")
              (z_of_int feat) (rfa = "1") (out <> "-") (log <> "-") (verbose = "off")
              (cls lim out) (cls lim cy) (cls false log) (cls false stdout_c) in
          print_endline (String.concat "|" [fmt_obs r; fmt_obs p; fmt_obs o])
        | _ -> failwith ("bad case line: " ^ line)
      end
    done
  with End_of_file -> ()
