(* zconv.ml — glue between Coq's extracted binary integers and decimal text.
   Concatenated after [open <Model>] by the build, so the constructors XI/XO/XH,
   Z0/Zpos/Zneg, N0/Npos and O/S refer to the extracted model's own types. *)
let rec pos_to_z (p : positive) : ZA.t =
  match p with
  | XH -> ZA.one
  | XO q -> ZA.shift_left (pos_to_z q) 1
  | XI q -> ZA.succ (ZA.shift_left (pos_to_z q) 1)
let z_to_zt (x : z) : ZA.t =
  match x with Z0 -> ZA.zero | Zpos p -> pos_to_z p | Zneg p -> ZA.neg (pos_to_z p)
let rec pos_of_zt (x : ZA.t) : positive =
  if ZA.equal x ZA.one then XH
  else if ZA.testbit x 0 then XI (pos_of_zt (ZA.shift_right x 1))
  else XO (pos_of_zt (ZA.shift_right x 1))
let z_of_zt (x : ZA.t) : z =
  let s = ZA.sign x in
  if s = 0 then Z0 else if s > 0 then Zpos (pos_of_zt x) else Zneg (pos_of_zt (ZA.neg x))
let z_of_string (s : string) : z = z_of_zt (ZA.of_string s)
let string_of_z (x : z) : string = ZA.to_string (z_to_zt x)
let z_of_int (i : int) : z = z_of_zt (ZA.of_int i)
let int_of_z (x : z) : int = ZA.to_int (z_to_zt x)
let split_ws (s : string) : string list =
  List.filter (fun t -> t <> "") (String.split_on_char ' ' s)
