"""Generic per-property run (see lib/vlib.py for the individual steps)."""
import json
import os
import time

import vlib
from vlib import log


class PropBase:
    pid = "C00"
    coq_dirs = []            # directories under coq/ that carry this property's model and proofs
    bins = []                # harness binaries
    profiles = ("debug", "release")
    has_model_driver = True  # coq/<pid>/Driver.v + Extract.v + ocaml/<pid>/main.ml exist
    translators = None       # names of translate/*.py this property depends on (None = all)
    rule = ""
    trusted_base = []
    assumptions = []
    impl_timeout = 900
    impl_mem_gb = 4
    model_timeout = 900

    # ---- to override
    def gen_cases(self, tier, seed):
        """-> (list of case lines, distribution dict, exhaustive flag)"""
        raise NotImplementedError

    def corpus(self):
        p = os.path.join(vlib.ROOT, "corpus", self.pid, "cases.txt")
        if os.path.exists(p):
            return [l.rstrip("\n") for l in open(p) if l.strip() and not l.startswith("#")]
        return []

    def canon_model(self, case, ans):
        return ans

    def canon_impl(self, case, ans, profile):
        return ans

    def oracle(self, case, ans, profile):
        """Judge the property on the implementation's answer alone. None = holds."""
        return None

    def nontrivial(self, case, ans):
        return True

    def impl_cmd(self, exe, profile):
        return [exe]

    def model_cmd(self, exe):
        return [exe]

    def extra(self, ctx):
        """Additional property-specific checks. Returns list of violation dicts
        {case, what, profile, found_input(bool)}"""
        return []

    def known_match(self, finding, case, what):
        """Does a violation (case, what) belong to a recorded known finding?"""
        import re
        if finding.get("case") is not None and finding["case"] != case:
            return False
        if finding.get("case_regex") and not re.search(finding["case_regex"], case or ""):
            return False
        if finding.get("what_regex") and not re.search(finding["what_regex"], what or ""):
            return False
        return True


def run_property(P, tier, seed, replay=None):
    t0 = time.time()
    pid = P.pid
    violations = []     # dicts: case, what, profile, found_input
    info = {}

    # 0. main-tree runs build in a per-property mirror of coq/ (no cross-property lock contention)
    vlib.use_private_coq(pid)
    # 1. translators (only the ones this property depends on) + proof gate
    tproblems = vlib.translate(getattr(P, "translators", None))
    gate = vlib.coq_property_gate(pid, P.coq_dirs)
    if tproblems:
        gate["problems"] = tproblems + gate["problems"]
        gate["discharged"] = 0
    log("[%s] coq gate: %d/%d theorems, %d lemmas, %.1fs%s" % (
        pid, gate["discharged"], gate["obligations"], gate["lemmas_qed"], gate["wall"],
        "" if not gate["problems"] else "  PROBLEMS: " + "; ".join(gate["problems"])[:500]))
    chk_out = None
    if tier == "thorough" and not gate["problems"]:
        rc, out, dt = vlib.coqchk(pid)
        chk_out = out[-1500:]
        log("[%s] coqchk rc=%d %.0fs" % (pid, rc, dt))
        if rc != 0:
            gate["problems"].append("coqchk failed: " + out[-500:])
            gate["discharged"] = 0

    # 2. build model driver and harness against /repo's working tree
    model_exe = None
    if P.has_model_driver:
        try:
            model_exe = vlib.ocaml_build(pid)
        except vlib.CheckFailure as e:   # keep searching with the oracle on the implementation alone
            gate["problems"].append("model driver could not be built: " + str(e)[-800:])
            gate["discharged"] = 0
    exes = vlib.cargo_build(P.bins, P.profiles) if P.bins else {}

    # 3. cases
    if replay:
        rp = json.load(open(replay))
        cases = [rp["case"]] if rp.get("case") else []
        dist, exhaustive = {"replay": replay}, False
    else:
        gen, dist, exhaustive = P.gen_cases(tier, seed)
        cases = P.corpus() + list(gen)
    log("[%s] %d cases" % (pid, len(cases)))

    # 4. run model and implementation
    model_ans = None
    if model_exe and cases:
        model_ans, mdead = vlib.run_lines(P.model_cmd(model_exe), cases, timeout=P.model_timeout, mem_gb=8)
        if mdead:
            raise vlib.CheckFailure("model driver died at case %d (%s): %s" % (mdead[0][0], mdead[0][1], cases[mdead[0][0]][:300]))
    impl_ans = {}
    for prof in P.profiles:
        if not P.bins or not cases:
            continue
        ans, dead = vlib.run_lines(P.impl_cmd(exes[(P.bins[0], prof)], prof), cases,
                                   timeout=P.impl_timeout, mem_gb=P.impl_mem_gb)
        impl_ans[prof] = ans
        for idx, why in dead:
            violations.append({"case": cases[idx], "profile": prof, "found_input": True,
                               "what": "implementation child died or hung on this case (%s)" % why})
            # cases after the culprit in that shard are unanswered; they are skipped below

    # 5. correspondence + oracle
    mismatches = []
    nontrivial = set()
    compared = 0
    for prof, ans in impl_ans.items():
        for i, c in enumerate(cases):
            a = ans[i]
            if a is None:
                continue
            bad = P.oracle(c, a, prof)
            if bad:
                violations.append({"case": c, "profile": prof, "what": bad, "found_input": True, "impl": a[:2000]})
            if model_ans is not None:
                cm, ci = P.canon_model(c, model_ans[i]), P.canon_impl(c, a, prof)
                if cm is None:      # the model declares this case outside what it predicts
                    cm = ci
                else:
                    compared += 1
                if cm != ci:
                    mismatches.append({"case": c, "profile": prof, "model": cm[:2000], "impl": ci[:2000]})
            if prof == P.profiles[0] and P.nontrivial(c, a):
                nontrivial.add(c)
    ctx = {"tier": tier, "seed": seed, "cases": cases, "impl": impl_ans, "model": model_ans, "exes": exes,
           "replay": replay, "info": info}
    violations += P.extra(ctx) or []

    # correspondence broken and the oracle found nothing on those cases: still a violation
    corr_unexplained = []
    vio_cases = {v["case"] for v in violations}
    for m in mismatches:
        if m["case"] not in vio_cases:
            corr_unexplained.append(m)

    # 6. classify against known findings
    known = [f for f in vlib.load_known() if f.get("property") == pid]
    reported_known = {}
    fresh = []
    for v in violations:
        hit = None
        for f in known:
            if f.get("status") == "known" and P.known_match(f, v.get("case"), v.get("what")):
                hit = f
                break
        if hit:
            reported_known.setdefault(hit["id"], (hit, v))
        else:
            fresh.append(v)

    # 7. output
    rc = 0
    for fid, (f, v) in sorted(reported_known.items()):
        print("KNOWN-FINDING: property=%s %s" % (pid, f.get("what", fid)))
    seen = set()
    fresh.sort(key=lambda v: len(v.get("case") or ""))
    for v in fresh:
        key = (v.get("what", "")[:60])
        if key in seen or len(seen) >= 5:
            continue
        seen.add(key)
        path = vlib.write_replay(pid, "violation-%d" % len(seen), {
            "property": pid, "kind": "failing-input", "tier": tier, "seed": seed, **v,
            "replay_cmd": "./check %s --replay <this file>" % pid})
        # a violation reported by extra() without a failing input (found_input False) is marked as such
        print("VIOLATION property=%s replay=%s%s" % (pid, path, " no-failing-input-found" if v.get("found_input") is False else ""))
        log("[%s] violation: %s | case: %s" % (pid, v.get("what", "")[:300], (v.get("case") or "")[:300]))
        rc = 1
    if corr_unexplained and not fresh:
        corr_unexplained.sort(key=lambda m: len(m["case"]))
        path = vlib.write_replay(pid, "correspondence", {
            "property": pid, "kind": "correspondence-broken", "tier": tier, "seed": seed,
            "unchecked": "correspondence model(%s/Model.v) ~ implementation no longer holds; theorems of %s/Properties.v are "
                         "therefore not known to describe this tree" % (pid, pid),
            "disagreements": len(corr_unexplained), "first": corr_unexplained[:5], "case": corr_unexplained[0]["case"],
            "oracle": "the property oracle accepted the implementation's answer on every disagreeing case"})
        print("VIOLATION property=%s replay=%s no-failing-input-found" % (pid, path))
        log("[%s] correspondence broken on %d cases, e.g. %s" % (pid, len(corr_unexplained), json.dumps(corr_unexplained[0])[:600]))
        rc = 1
    if gate["problems"] and rc == 0:
        path = vlib.write_replay(pid, "proof", {
            "property": pid, "kind": "proof-broken", "tier": tier, "seed": seed,
            "unchecked": gate["problems"], "theorems": gate["theorems"], "log_tail": gate.get("log_tail", ""),
            "search": "correspondence and oracle ran over %d cases without finding a failing input" % len(cases)})
        print("VIOLATION property=%s replay=%s no-failing-input-found" % (pid, path))
        rc = 1

    # 8. evidence
    samples = []
    if cases:
        idxs = sorted({0, len(cases) // 3, (2 * len(cases)) // 3, len(cases) - 1})
        for i in idxs:
            s = {"case": cases[i][:400]}
            if model_ans is not None:
                s["model"] = (model_ans[i] or "")[:300]
            for prof, ans in impl_ans.items():
                s["impl_" + prof] = (ans[i] or "<none>")[:300]
            samples.append(s)
    samples += [{"theorem": t} for t in gate["theorems"][:40]]
    ev = {
        "property_id": pid, "tier": tier, "seed": seed, "level": "proof",
        "coverage": {
            "obligations": gate["obligations"], "discharged": gate["discharged"],
            "checker_cmd": gate["cmd"] + ("; coqchk -silent -o RM.%s.Properties" % pid if tier == "thorough" else ""),
            "trusted_base": P.trusted_base + ["axioms under property theorems: " + (", ".join(gate["axioms"]) or "none (Closed under the global context)")],
            "theorems": gate["theorems"], "nonvacuity_examples": gate["examples"], "lemmas_qed": gate["lemmas_qed"],
            "proof_problems": gate["problems"],
            "evaluations": len(cases) * max(1, len(impl_ans)),
            "distinct_nontrivial": len(nontrivial),
            "rule": P.rule,
            "samples": samples,
            "traces_validated_against_impl": compared,
            "correspondence_mismatches": len(mismatches),
            "oracle_violations": len(violations),
            "known_findings_reproduced": sorted(reported_known.keys()),
            "input_distribution": dist,
            "exhaustive": bool(exhaustive),
            "profiles": list(impl_ans.keys()),
            **({"coqchk_tail": chk_out} if chk_out else {}),
            **info,
        },
        "assumptions": P.assumptions,
        "wall_s": round(time.time() - t0, 2),
        "violations": len(fresh) + (1 if (corr_unexplained and not fresh) else 0) + (1 if gate["problems"] and not fresh and not corr_unexplained else 0),
    }
    vlib.write_evidence(pid, ev)
    log("[%s] done rc=%d in %.1fs (%d cases, %d compared, %d mismatches, %d oracle violations, %d known)" % (
        pid, rc, time.time() - t0, len(cases), compared, len(mismatches), len(violations), len(reported_known)))
    return rc
