#!/usr/bin/env python3
"""c02_reader.py <repo> <outdir>  ->  <outdir>/C02Reader.v

Regenerates, from minidump/src/minidump.rs (the reader) and minidump-common/src/format.rs (enum values, the
multi_strings! family), the parts of the reader that are tables, constants, match arms and the order of steps:

  RD_IMPLEMENTED      every `impl MinidumpStream for X { const STREAM_TYPE: u32 = MINIDUMP_STREAM_TYPE::V as u32; }`
                      outside `mod test`, in source order: (reader name, stream type number)
  RD_UNIMPLEMENTED    the UNIMPLEMENTED_STREAMS table of Minidump::unimplemented_streams, in source order; the
                      declared array length must equal the number of entries; the filter expression is checked
  RD_VENDOR_*         stream_vendor: the `<=` limit, the mask and the arms of the match (vendor codes 0 Official,
                      1 Google Extension, 2 Mozilla Extension, 3 Unknown Extension)
  RD_LIST_PAD_ARMS    read_stream_list: the arms of `match bytes.len() - counted_size` (difference, bytes skipped)
  RD_MAC_VERSIONS     MinidumpMacCrashInfo::read: the do_read! table in source order
                      (minimum version, size of the fixed record, number of strings)
  RD_MAC_RECORDS_MAX  length of MINIDUMP_MAC_CRASH_INFO::records
  RD_VERSION_MASK     Minidump::read: the mask of the version test
  RD_READ_STEPS       Minidump::read: its statements, in order (little-endian header, signature or byte-swapped signature,
                      big-endian re-read, version test, seek, directory walk with BTreeMap::insert, system info, result);
                      the warn! calls are ignored; any other statement that touches the map or returns aborts
  (checked, no output) the bodies of get_stream, get_raw_stream, location_slice, get_memory, all_streams, unknown_streams,
                      MinidumpLinuxMaps::read / iter, MinidumpLinuxMapInfo::memory_range / is_readable / is_writable / is_executable
  RD_PROCFS_CORE_VERSION  the procfs-core version of Cargo.lock (C02/ModelR6.v models that version's MemoryMaps::from_read)

Aborts (exit 2) on source it does not recognise."""
import os
import re
import sys

repo, outdir = sys.argv[1], sys.argv[2]
RD = open(os.path.join(repo, "minidump/src/minidump.rs")).read()
FM = open(os.path.join(repo, "minidump-common/src/format.rs")).read()


def die(msg):
    sys.stderr.write("c02_reader.py: UNRECOGNISED SOURCE SYNTAX: %s\n" % msg)
    sys.exit(2)


def strip_comments(s):
    s = re.sub(r"/\*.*?\*/", "", s, flags=re.S)
    return re.sub(r"//[^\n]*", "", s)


def matching(s, i, op="{", cl="}"):
    depth = 0
    for j in range(i, len(s)):
        if s[j] == op:
            depth += 1
        elif s[j] == cl:
            depth -= 1
            if depth == 0:
                return j
    die("unbalanced %s at %d" % (op, i))


def intlit(s):
    s = s.strip().replace("_", "")
    try:
        return int(s, 16) if s.lower().startswith("0x") else int(s)
    except ValueError:
        die("integer literal %r" % s)


rd = strip_comments(RD)
fm = strip_comments(FM)
# the reader proper: everything before `#[cfg(test)] mod test`
mt = re.search(r"#\[cfg\(test\)\]\s*mod test \{", rd)
if not mt:
    die("`#[cfg(test)] mod test` not found in minidump.rs")
rd = rd[:mt.start()]

# ---- MINIDUMP_STREAM_TYPE values
m = re.search(r"pub enum MINIDUMP_STREAM_TYPE \{", fm)
if not m:
    die("enum MINIDUMP_STREAM_TYPE")
ST = {}
for item in fm[m.end():matching(fm, m.end() - 1)].split(","):
    item = item.strip()
    if not item:
        continue
    mm = re.fullmatch(r"(\w+)\s*=\s*([0-9a-fA-Fx_]+)", item)
    if not mm:
        die("MINIDUMP_STREAM_TYPE variant %r" % item)
    ST[mm.group(1)] = intlit(mm.group(2))


def st(name):
    if name not in ST:
        die("MINIDUMP_STREAM_TYPE::%s is not declared in format.rs" % name)
    return ST[name]


lines = []

# ---- RD_IMPLEMENTED
impls = []
for m in re.finditer(r"impl(?:<[^>]*>)?\s+MinidumpStream<[^>]*>\s+for\s+(\w+)(?:<[^>]*>)?\s*\{", rd):
    body = rd[m.end():matching(rd, m.end() - 1)]
    cs = re.findall(r"const STREAM_TYPE: u32 =([^;]*);", body)
    if len(cs) != 1:
        die("impl MinidumpStream for %s: STREAM_TYPE" % m.group(1))
    mm = re.fullmatch(r"\s*MINIDUMP_STREAM_TYPE::(\w+) as u32\s*", cs[0])
    if not mm:
        die("impl MinidumpStream for %s: STREAM_TYPE = %s" % (m.group(1), cs[0].strip()))
    impls.append((m.group(1), st(mm.group(1))))
if len(impls) != len(re.findall(r"\bMinidumpStream<[^>]*>\s+for\b", rd)):
    die("an `impl MinidumpStream for` that was not recognised")
if len(impls) != len(re.findall(r"const STREAM_TYPE: u32 =", rd)):
    die("a `const STREAM_TYPE` outside a recognised impl")
lines.append("Definition RD_IMPLEMENTED : list (string * Z) := [%s]." % "; ".join('("%s", %d)' % x for x in impls))

# ---- RD_UNIMPLEMENTED
m = re.search(r"pub fn unimplemented_streams\(&self\) -> impl Iterator<Item = MinidumpUnimplementedStream> \+ '_ \{", rd)
if not m:
    die("fn unimplemented_streams")
body = rd[m.end():matching(rd, m.end() - 1)]
mm = re.match(r"\s*static UNIMPLEMENTED_STREAMS: \[MINIDUMP_STREAM_TYPE; (\d+)\] = \[(.*?)\];(.*)$", body, re.S)
if not mm:
    die("UNIMPLEMENTED_STREAMS table")
ents = [x.strip() for x in mm.group(2).split(",") if x.strip()]
unimp = []
for x in ents:
    m2 = re.fullmatch(r"MINIDUMP_STREAM_TYPE::(\w+)", x)
    if not m2:
        die("UNIMPLEMENTED_STREAMS entry %r" % x)
    unimp.append(st(m2.group(1)))
if int(mm.group(1)) != len(unimp):
    die("UNIMPLEMENTED_STREAMS: declared length %s, %d entries" % (mm.group(1), len(unimp)))
flt = re.sub(r"\s+", " ", mm.group(3)).strip()
WANT_FLT = ("self.streams.iter().filter_map(|(_, (_, stream))| { MINIDUMP_STREAM_TYPE::from_u32(stream.stream_type).and_then(|stream_type| { "
            "if UNIMPLEMENTED_STREAMS.contains(&stream_type) { return Some(MinidumpUnimplementedStream { stream_type, location: stream.location, "
            "vendor: stream_vendor(stream.stream_type), }); } None }) })")
if flt != WANT_FLT:
    die("unimplemented_streams: the filter over self.streams changed: %s" % flt)
lines.append("Definition RD_UNIMPLEMENTED : list Z := [%s]." % "; ".join(map(str, unimp)))

# unknown_streams / all_streams iterate over the same map
m = re.search(r"pub fn unknown_streams\(&self\) -> impl Iterator<Item = MinidumpUnknownStream> \+ '_ \{", rd)
if not m:
    die("fn unknown_streams")
body = re.sub(r"\s+", " ", rd[m.end():matching(rd, m.end() - 1)]).strip()
if body != ("self.streams.iter().filter_map(|(_, (_, stream))| { if MINIDUMP_STREAM_TYPE::from_u32(stream.stream_type).is_none() { "
            "return Some(MinidumpUnknownStream { stream_type: stream.stream_type, location: stream.location, vendor: stream_vendor(stream.stream_type), }); } None })"):
    die("unknown_streams changed: %s" % body)

# ---- stream_vendor
m = re.search(r"fn stream_vendor\(stream_type: u32\) -> &'static str \{", rd)
if not m:
    die("fn stream_vendor")
body = re.sub(r"\s+", " ", rd[m.end():matching(rd, m.end() - 1)]).strip()
mm = re.fullmatch(r'if stream_type <= MINIDUMP_STREAM_TYPE::(\w+) as u32 \{ "Official" \} else \{ match stream_type & (0x[0-9A-Fa-f_]+) \{ (.*) \} \}', body)
if not mm:
    die("stream_vendor body: %s" % body)
VENDOR = {"Official": 0, "Google Extension": 1, "Mozilla Extension": 2, "Unknown Extension": 3}
arms, default = [], None
for arm in [a.strip() for a in mm.group(3).split(",") if a.strip()]:
    m2 = re.fullmatch(r'(0x[0-9A-Fa-f_]+|_) => "([^"]+)"', arm)
    if not m2 or m2.group(2) not in VENDOR:
        die("stream_vendor arm %r" % arm)
    if m2.group(1) == "_":
        default = VENDOR[m2.group(2)]
    else:
        if default is not None:
            die("stream_vendor: arm after the wildcard")
        arms.append((intlit(m2.group(1)), VENDOR[m2.group(2)]))
if default is None:
    die("stream_vendor: no wildcard arm")
lines.append("Definition RD_VENDOR_LIMIT : Z := %d." % st(mm.group(1)))
lines.append("Definition RD_VENDOR_MASK : Z := %d." % intlit(mm.group(2)))
lines.append("Definition RD_VENDOR_ARMS : list (Z * Z) := [%s]." % "; ".join("(%d, %d)" % a for a in arms))
lines.append("Definition RD_VENDOR_DEFAULT : Z := %d." % default)

# ---- read_stream_list padding arms
m = re.search(r"fn read_stream_list<'a, T>\(", rd)
if not m:
    die("fn read_stream_list")
ob = rd.index("{", rd.index("SizeWith<scroll::Endian>,", m.end()))
body = rd[ob:matching(rd, ob) + 1]
m = re.search(r"match bytes\.len\(\) - counted_size \{", body)
if not m:
    die("read_stream_list: `match bytes.len() - counted_size`")
arms_src = re.sub(r"\s+", " ", body[m.end():matching(body, m.end() - 1)]).strip()
mm = re.fullmatch(r"0 => \{\} 4 => \{ \*offset \+= 4; \} _ => \{ return Err\(Error::StreamSizeMismatch \{ expected: counted_size, actual: bytes\.len\(\), \}\); \}", arms_src)
if mm:
    pad_arms = [(0, 0), (4, 4)]
else:
    # general form: `N => {}` / `N => { *offset += K; }` arms and an erroring wildcard
    pad_arms = []
    rest = arms_src
    while True:
        m2 = re.match(r"(\d+) => \{(?: \*offset \+= (\d+); )?\} ?", rest)
        if not m2:
            break
        pad_arms.append((int(m2.group(1)), int(m2.group(2) or 0)))
        rest = rest[m2.end():]
    if not re.fullmatch(r"_ => \{ return Err\(Error::StreamSizeMismatch \{[^}]*\}\); \}", rest.strip()):
        die("read_stream_list padding arms: %s" % arms_src)
hdr = re.sub(r"\s+", " ", body)
if "let (count, counted_size) = ensure_count_in_bound( bytes, u as usize, <T>::size_with(&endian), mem::size_of::<u32>(), )?;" not in hdr:
    die("read_stream_list: ensure_count_in_bound call changed")
lines.append("Definition RD_LIST_PAD_ARMS : list (Z * Z) := [%s]." % "; ".join("(%d, %d)" % a for a in pad_arms))

# ---- Mac crash info: do_read! table, sizes of the fixed records, number of strings
PRIM = {"u8": 1, "u16": 2, "u32": 4, "u64": 8, "i32": 4, "i64": 8}


def multi_family(macro, first):
    """cumulative field lists of a multi_structs!/multi_strings! invocation that starts with struct `first`"""
    for m in re.finditer(r"^%s! \{" % macro, fm, re.M):
        inner = fm[m.end():matching(fm, m.end() - 1)]
        if not re.search(r"pub struct %s \{" % first, inner):
            continue
        fam, acc = {}, []
        for s in re.finditer(r"pub struct (\w+) \{", inner):
            fields = inner[s.end():matching(inner, s.end() - 1)]
            for f in [x.strip() for x in fields.split(",") if x.strip()]:
                f2 = re.fullmatch(r"pub (\w+): (\w+)", f)
                if not f2:
                    die("%s! struct %s field %r" % (macro, s.group(1), f))
                acc.append((f2.group(1), f2.group(2)))
            fam[s.group(1)] = list(acc)
        if first in fam:
            return fam
    die("%s! family of %s" % (macro, first))


recs = multi_family("multi_structs", "MINIDUMP_MAC_CRASH_INFO_RECORD")
strs = multi_family("multi_strings", "MINIDUMP_MAC_CRASH_INFO_RECORD_STRINGS")
m = re.search(r"do_read!\(\s*base\.version,\s*strings_offset,\s*infos,(.*?)\n\s*\);", rd, re.S)
if not m:
    die("MinidumpMacCrashInfo::read: do_read! invocation")
table = []
for t in re.finditer(r"\(\s*(\d+),\s*md::(\w+),\s*md::(\w+),\s*(\w+)\s*\)", m.group(1)):
    ver, fixed, strings, variant = int(t.group(1)), t.group(2), t.group(3), t.group(4)
    if fixed not in recs or strings not in strs:
        die("do_read! entry %s / %s" % (fixed, strings))
    size = 0
    for fname, fty in recs[fixed]:
        if fty not in PRIM:
            die("%s.%s: %s" % (fixed, fname, fty))
        size += PRIM[fty]
    if any(ty != "String" for _, ty in strs[strings]):
        die("%s: a field that is not a String" % strings)
    table.append((ver, size, len(strs[strings])))
if len(table) != len(re.findall(r"md::MINIDUMP_MAC_CRASH_INFO_RECORD\w*,\s*md::MINIDUMP_MAC_CRASH_INFO_RECORD_STRINGS", m.group(1))):
    die("do_read! table: an entry was not recognised")
# the macro body: first matching `>=` wins, size check, jump to the strings, num_strings c-strings
mac = re.sub(r"\s+", " ", rd[rd.index("macro_rules! do_read {"):m.start()])
for needle in ("if $base_version >= $version {", "if *offset > $strings_offset {", "*offset = $strings_offset;",
               "for i in 0..num_strings { let string = read_cstring_utf8(offset, record_slice) .ok_or(Error::StreamReadFailure)?;",
               "infos.push(RawMacCrashInfo::$variant(fixed, strings)); continue;"):
    if needle not in mac:
        die("do_read! macro body changed: `%s` not found" % needle)
rdm = re.sub(r"\s+", " ", rd)
for needle in ("let strings_offset = header.record_start_size as usize;",
               "let records = header.records.iter().take(header.record_count as usize);",
               "let record_slice = location_slice(all, record_location)?;",
               "if prev_version != base.version {",
               "return Err(Error::VersionMismatch);"):
    if needle not in rdm:
        die("MinidumpMacCrashInfo::read changed: `%s` not found" % needle)
lines.append("Definition RD_MAC_VERSIONS : list (Z * (Z * Z)) := [%s]." % "; ".join("(%d, (%d, %d))" % t for t in table))
mm = re.search(r"pub struct MINIDUMP_MAC_CRASH_INFO \{[^}]*pub records: \[MINIDUMP_LOCATION_DESCRIPTOR; (\d+)\],", fm)
if not mm:
    die("MINIDUMP_MAC_CRASH_INFO.records")
lines.append("Definition RD_MAC_RECORDS_MAX : Z := %s." % mm.group(1))
# read_cstring_utf8: bytes up to the first NUL, which must exist, as UTF-8
m = re.search(r"fn read_cstring_utf8\(offset: &mut usize, bytes: &\[u8\]\) -> Option<String> \{", rd)
if not m:
    die("fn read_cstring_utf8")
body = re.sub(r"\s+", " ", rd[m.end():matching(rd, m.end() - 1)]).strip()
if body != ("let initial_offset = *offset; loop { let byte: u8 = bytes.gread(offset).ok()?; if byte == 0 { break; } } "
            "std::str::from_utf8(&bytes[initial_offset..*offset - 1]) .map(String::from) .ok()"):
    die("read_cstring_utf8 changed: %s" % body)

# ---- Minidump::read / get_stream / get_raw_stream / location_slice / get_memory: the order of steps
def fn_body(sig_re, what):
    m = re.search(sig_re, rd)
    if not m:
        die("fn %s" % what)
    ob = rd.index("{", m.end() - 1) if rd[m.end() - 1] != "{" else m.end() - 1
    return re.sub(r"\s+", " ", rd[ob + 1:matching(rd, ob)]).strip()


def steps_in_order(body, what, steps):
    """every (name, needle) must occur in `body`, each after the previous one; returns the names"""
    pos, names = 0, []
    for name, needle in steps:
        k = body.find(needle, pos)
        if k < 0:
            die("%s: step `%s` (%s) not found after the previous step" % (what, needle, name))
        pos = k + len(needle)
        names.append(name)
    return names


read_body = fn_body(r"pub fn read\(data: T\) -> Result<Minidump<'a, T>, Error> \{", "Minidump::read")
# the warn! calls do not take part in the result: drop them before looking at the statements
read_nowarn = re.sub(r"warn!\((?:[^()]|\([^()]*\))*\);", "", read_body)
mm = re.search(r"if \(header\.version & (0x[0-9a-fA-F_]+)\) != md::MINIDUMP_VERSION \{ return Err\(Error::VersionMismatch\); \}", read_nowarn)
if not mm:
    die("Minidump::read: version test")
READ_STEPS = steps_in_order(read_nowarn, "Minidump::read", [
    ("header_little_endian", "let mut offset = 0; let mut endian = LE; let mut header: md::MINIDUMP_HEADER = data .gread_with(&mut offset, endian) .or(Err(Error::MissingHeader))?;"),
    ("signature_or_swapped", "if header.signature != md::MINIDUMP_SIGNATURE { if header.signature.swap_bytes() != md::MINIDUMP_SIGNATURE { return Err(Error::HeaderMismatch); }"),
    ("header_big_endian", "endian = BE; offset = 0; header = data .gread_with(&mut offset, endian) .or(Err(Error::MissingHeader))?; if header.signature != md::MINIDUMP_SIGNATURE { return Err(Error::HeaderMismatch); } }"),
    ("version_low_half", mm.group(0)),
    ("seek_directory", "offset = header.stream_directory_rva as usize;"),
    ("map_empty", "let mut streams = BTreeMap::new();"),
    ("walk_count_entries", "for i in 0..header.stream_count { let dir: md::MINIDUMP_DIRECTORY = data .gread_with(&mut offset, endian) .or(Err(Error::MissingDirectory))?;"),
    ("insert_replaces_earlier", "streams.insert(dir.stream_type, (i, dir.clone()))"),
    ("system_info_from_map", "let system_info = streams .get(&MinidumpSystemInfo::STREAM_TYPE) .and_then(|(_, dir)| { location_slice(data.deref(), &dir.location) .ok() .and_then(|bytes| { let all_bytes = data.deref(); MinidumpSystemInfo::read(bytes, all_bytes, endian, None).ok() }) });"),
    ("result", "Ok(Minidump { data, header, streams, endian, system_info, _phantom: PhantomData, })"),
])
# nothing else may write to the map or return early
if len(re.findall(r"\bstreams\b", read_nowarn)) != 4 or read_nowarn.count("return ") != 3 or read_nowarn.count("?;") != 3:
    die("Minidump::read: an additional statement touches `streams` or leaves the function")
gs = fn_body(r"pub fn get_stream<S>\(&'a self\) -> Result<S, Error>\s+where\s+S: MinidumpStream<'a>,\s*\{", "get_stream")
if gs != ("match self.get_raw_stream(S::STREAM_TYPE) { Err(e) => Err(e), Ok(bytes) => { let all_bytes = self.data.deref(); "
          "S::read(bytes, all_bytes, self.endian, self.system_info.as_ref()) } }"):
    die("get_stream changed: %s" % gs)
grs = fn_body(r"pub fn get_raw_stream\(&'a self, stream_type: u32\) -> Result<&'a \[u8\], Error> \{", "get_raw_stream")
if grs != ("match self.streams.get(&stream_type) { None => Err(Error::StreamNotFound), Some((_, dir)) => { let bytes = self.data.deref(); "
           "location_slice(bytes, &dir.location) } }"):
    die("get_raw_stream changed: %s" % grs)
ls_ = fn_body(r"fn location_slice<'a>\(\s*bytes: &'a \[u8\],\s*loc: &md::MINIDUMP_LOCATION_DESCRIPTOR,\s*\) -> Result<&'a \[u8\], Error> \{", "location_slice")
if ls_ != ("let start = loc.rva as usize; start .checked_add(loc.data_size as usize) .and_then(|end| bytes.get(start..end)) .ok_or(Error::StreamReadFailure)"):
    die("location_slice changed: %s" % ls_)
gm = fn_body(r"pub fn get_memory\(&'a self\) -> Option<UnifiedMemoryList<'a>> \{", "get_memory")
if gm != ("self.get_stream::<MinidumpMemory64List>() .map(UnifiedMemoryList::Memory64) .or_else(|_| { self.get_stream::<MinidumpMemoryList>() "
          ".map(UnifiedMemoryList::Memory) }) .ok()"):
    die("get_memory changed: %s" % gm)
alls = fn_body(r"pub fn all_streams\(&self\) -> impl Iterator<Item = &md::MINIDUMP_DIRECTORY> \+ '_ \{", "all_streams")
if alls != "self.streams.iter().map(|(_, (_, stream))| stream)":
    die("all_streams changed: %s" % alls)
# ---- MinidumpLinuxMaps: the typed reader hands the raw bytes to procfs-core's MemoryMaps::from_read and keeps every map in order;
#      the model of that parser (C02/ModelR6.v) follows the procfs-core version the lock file names
im = rd.find("impl<'a> MinidumpStream<'a> for MinidumpLinuxMaps<'a> {")
if im < 0:
    die("impl MinidumpStream for MinidumpLinuxMaps")
blk = rd[im:matching(rd, rd.index("{", im)) + 1]
mr = re.search(r"fn read\(\s*bytes: &'a \[u8\],\s*_all: &'a \[u8\],\s*_endian: scroll::Endian,\s*_system_info: Option<&MinidumpSystemInfo>,\s*\) -> Result<MinidumpLinuxMaps<'a>, Error> \{", blk)
if not mr:
    die("MinidumpLinuxMaps::read signature")
mbody = re.sub(r"\s+", " ", blk[mr.end():matching(blk, mr.end() - 1)]).strip()
if mbody != ("let maps = MemoryMaps::from_read(std::io::Cursor::new(bytes)).map_err(|e| { tracing::error!(\"linux memory map read error: {e}\"); "
             "Error::StreamReadFailure })?; Ok(MinidumpLinuxMaps::from_regions( maps.into_iter() .map(|map| MinidumpLinuxMapInfo { map, _phantom: PhantomData, }) "
             ".collect(), ))"):
    die("MinidumpLinuxMaps::read changed: %s" % mbody)
ii = rd.find("impl MinidumpLinuxMapInfo<'_> {")
if ii < 0:
    die("impl MinidumpLinuxMapInfo")
iblk = rd[ii:matching(rd, rd.index("{", ii)) + 1]
for sig, want in [(r"pub fn memory_range\(&self\) -> Option<Range<u64>> \{",
                   "if self.map.address.0 > self.map.address.1 { return None; } Some(Range::new(self.map.address.0, self.map.address.1))"),
                  (r"pub fn is_readable\(&self\) -> bool \{", "self.map.perms.contains(MMPermissions::READ)"),
                  (r"pub fn is_writable\(&self\) -> bool \{", "self.map.perms.contains(MMPermissions::WRITE)"),
                  (r"pub fn is_executable\(&self\) -> bool \{", "self.map.perms.contains(MMPermissions::EXECUTE)")]:
    mq = re.search(sig, iblk)
    if not mq:
        die("MinidumpLinuxMapInfo: %s" % sig)
    got = re.sub(r"\s+", " ", iblk[mq.end():matching(iblk, mq.end() - 1)]).strip()
    if got != want:
        die("MinidumpLinuxMapInfo accessor changed: %s" % got)
itr = re.search(r"pub fn iter<'slf>\(&'slf self\) -> impl Iterator<Item = &'slf MinidumpLinuxMapInfo<'mdmp>> \{\s*self\.regions\.iter\(\)\s*\}", rd)
if not itr:
    die("MinidumpLinuxMaps::iter changed")
try:
    LOCK = open(os.path.join(repo, "Cargo.lock")).read()
except OSError:
    die("Cargo.lock not found")
pv = re.findall(r'name = "procfs-core"\nversion = "([0-9]+)\.([0-9]+)\.([0-9]+)"', LOCK)
if len(pv) != 1:
    die("Cargo.lock: exactly one procfs-core entry expected, found %d" % len(pv))
lines.append("Definition RD_PROCFS_CORE_VERSION : list Z := [%s; %s; %s]." % pv[0])
lines.append("Definition RD_VERSION_MASK : Z := %d." % intlit(mm.group(1)))
lines.append("Definition RD_READ_STEPS : list string := [%s]." % "; ".join('"%s"' % n for n in READ_STEPS))
lines.append('Definition RD_ACCESSORS_PINNED : list string := ["get_stream"; "get_raw_stream"; "location_slice"; "get_memory"; "all_streams"; "unknown_streams"; "unimplemented_streams"].')

out = ("(* GENERATED by translate/c02_reader.py from minidump/src/minidump.rs and minidump-common/src/format.rs — do not edit *)\n"
       "From Coq Require Import ZArith List String.\nImport ListNotations.\nOpen Scope string_scope.\nOpen Scope Z_scope.\n"
       + "\n".join(lines) + "\n")
os.makedirs(outdir, exist_ok=True)
p = os.path.join(outdir, "C02Reader.v")
try:
    same = open(p).read() == out
except OSError:
    same = False
if not same:
    open(p, "w").write(out)
