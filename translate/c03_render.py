#!/usr/bin/env python3
"""Translator for C03 (round 5, second pass): the three printers of a ProcessState
   minidump-processor/src/process_state.rs  print_internal (print / print_brief), print_json
   minidump-unwind/src/lib.rs               CallStack::print
-> coq/Gen/C03Render.v.   argv: <repo> <outdir>.
It extracts, in source order, EVERY index expression, binary `+` / `-`, `+=` / `-=` and `.unwrap()` / `.expect(` of the three
functions (string literals and comments removed first) and maps each to a named site of the model coq/C03/RenderModel.v; an
expression it does not know is a new panic site the model has not been read against: it aborts loudly.  It also pins the order of
the blocks of print_internal (requesting thread, the `brief` early return, the loop over the other threads with its two
`continue`s, loaded modules, unloaded modules) and of print_json's crashing-thread block."""
import os, re, sys

repo, outdir = sys.argv[1], sys.argv[2]


def die(msg):
    sys.stderr.write("c03_render.py: " + msg + "\n")
    sys.exit(1)


def src(rel):
    try:
        return open(os.path.join(repo, rel)).read()
    except OSError as e:
        die("cannot read %s: %s" % (rel, e))


def strip(text):
    """drop comments, blank out the contents of string literals, normalise white space"""
    text = re.sub(r"//[^\n]*", "", text)
    text = re.sub(r"/\*.*?\*/", "", text, flags=re.S)
    text = re.sub(r'"(?:[^"\\]|\\.)*"', '""', text, flags=re.S)
    return re.sub(r"\s+", " ", text).strip()


def fn_body(text, header_re, what):
    m = re.search(header_re, text)
    if not m:
        die(what + ": function header not found")
    line_start = text.rfind("\n", 0, m.start()) + 1
    indent = re.match(r"[ \t]*", text[line_start:]).group(0)
    end = re.search(r"\n" + indent + r"\}\n", text[m.end():])
    if not end:
        die(what + ": end of function not found")
    return text[m.start(): m.end() + end.end()]


# the sites the model knows: exact source text (after strip) -> name of the site in Gen/C03Render.v
KNOWN = {
    # print_internal
    "&self.threads[requesting_thread]": "GR_threads_index",
    "module.base_address() + module.size() - 1": "GR_module_end_text",
    # CallStack::print
    "frame_count += 1": "GR_frame_count_inc",
    "addr - src_base": "GR_addr_minus_src_base",
    "addr - func_base": "GR_addr_minus_func_base",
    "addr - module.base_address()": "GR_addr_minus_module_base",
    "output.chars().count() + next.chars().count()": "GR_register_line_len",
    # print_json
    "module.raw.base_of_image + module.raw.size_of_image as u64": "GR_module_end_json",
    "frame.instruction - module.raw.base_of_image": "GR_instr_minus_module_base",
    "frame.instruction - func_base": "GR_instr_minus_func_base",
    'map[""]': "GR_json_object_insert",
    "self.threads[requesting_thread]": "GR_threads_index",
    "output.get_mut(\"\").unwrap().as_array().unwrap() [requesting_thread]": "GR_json_threads_index",
    "frames[0]": "GR_json_frame0",
}
ALL_SITES = ["GR_threads_index", "GR_module_end_text", "GR_frame_count_inc", "GR_addr_minus_src_base", "GR_addr_minus_func_base",
             "GR_addr_minus_module_base", "GR_register_line_len", "GR_module_end_json", "GR_instr_minus_module_base",
             "GR_instr_minus_func_base", "GR_json_object_insert", "GR_json_threads_index", "GR_json_frame0"]

TOKEN = r"[A-Za-z_0-9.&]|\(\)|\(\"\"\)"


def operand_left(s, i):
    """the operand that ends at s[:i] (identifier / field / call-without-arguments chain, possibly a previous `a + b`)"""
    j = i
    while j > 0:
        if s[j - 1] in "abcdefghijklmnopqrstuvwxyzABCDEFGHIJKLMNOPQRSTUVWXYZ_0123456789.&":
            j -= 1
        elif s[j - 2:j] == "()":
            j -= 2
        else:
            break
    return s[j:i]


def operand_right(s, i):
    j = i
    while j < len(s):
        if s[j] in "abcdefghijklmnopqrstuvwxyzABCDEFGHIJKLMNOPQRSTUVWXYZ_0123456789.":
            j += 1
        elif s[j:j + 2] == "()":
            j += 2
        elif s[j:j + 7] == " as u64":
            j += 7
        else:
            break
    return s[i:j]


def sites(body, what):
    """[(position, site name)] of every index / arithmetic expression of the function, in source order"""
    found = []
    covered = []

    def add(pos, end, text):
        for (a, b) in covered:
            if a <= pos and end <= b:
                return          # part of a longer expression already recorded (a + b - 1)
        if text not in KNOWN:
            die("%s: unknown index / arithmetic site `%s` — the model (coq/C03/RenderModel.v) must be re-read against it" % (what, text))
        covered.append((pos, end))
        found.append((pos, KNOWN[text]))

    # binary + and - (rustfmt puts blanks around them), longest chains first
    for m in re.finditer(r" ([+\-])(=?) ", body):
        pos = m.start()
        if m.group(2):
            left = operand_left(body, pos)
            right = operand_right(body, m.end())
            add(pos - len(left), m.end() + len(right), "%s %s= %s" % (left, m.group(1), right))
            continue
        left = operand_left(body, pos)
        right = operand_right(body, m.end())
        start, end = pos - len(left), m.end() + len(right)
        # extend over a chain `a + b - c`
        while True:
            m2 = re.match(r" ([+\-]) ", body[end:])
            if not m2:
                break
            r2 = operand_right(body, end + m2.end())
            end = end + m2.end() + len(r2)
        if any(a <= start and end <= b for (a, b) in covered):
            continue
        add(start, end, body[start:end])
    # index expressions: <expr>[<expr>] (not attributes, not array types / literals / slices of format arguments)
    for m in re.finditer(r"([A-Za-z_0-9.&)]+|\(\) )\[([^\]\[]*)\]", body):
        text = m.group(0)
        if text.startswith("vec!") or m.group(1).endswith("#"):
            continue
        if text.startswith(")") or text.startswith("() "):
            # `.as_array().unwrap() [requesting_thread]`: take the whole receiver chain
            j = body.rfind("output", 0, m.start())
            text = body[j:m.end()] if j >= 0 else text
            text = re.sub(r"\s*\.\s*", ".", text)
            add(j, m.end(), text.replace(")[", ") ["))
            continue
        add(m.start(), m.end(), text)
    found.sort()
    return [n for _, n in found]


def ordered(body, frags, what):
    pos = -1
    for f in frags:
        i = body.find(f, pos + 1)
        if i < 0:
            die("%s: expected fragment missing or out of order (the model's order of blocks must be re-read): %s" % (what, f))
        pos = i


ps = src("minidump-processor/src/process_state.rs")
lib = src("minidump-unwind/src/lib.rs")

pi = strip(fn_body(ps, r"fn print_internal<T: Write>\(&self, f: &mut T, brief: bool\)", "print_internal"))
pj = strip(fn_body(ps, r"pub fn print_json<T: Write>\(&self, f: &mut T, pretty: bool\)", "print_json"))
m = re.search(r"impl CallStack \{", lib)
if not m:
    die("impl CallStack not found")
cs = strip(fn_body(lib[m.start():], r"pub fn print<T: Write>\(&self, f: &mut T\) -> io::Result<\(\)> \{", "CallStack::print"))

# the two public entry points are print_internal(f, false / true)
psn = strip(ps)
for need in ("pub fn print<T: Write>(&self, f: &mut T) -> io::Result<()> { self.print_internal(f, false) }",
             "pub fn print_brief<T: Write>(&self, f: &mut T) -> io::Result<()> { self.print_internal(f, true) }"):
    if need not in psn:
        die("print / print_brief are no longer print_internal(f, false / true): " + need)

ordered(pi, ["if let Some(requesting_thread) = self.requesting_thread { let stack = &self.threads[requesting_thread];",
             "stack.print(f)?;",
             "if brief { return Ok(()); }",
             "for (i, stack) in self.threads.iter().enumerate() {",
             "if eq_some(self.requesting_thread, i) { continue; }",
             "if stack.info == CallStackInfo::DumpThreadSkipped { continue; }",
             "stack.print(f)?;",
             "for module in self.modules.by_addr() {",
             "for module in self.unloaded_modules.by_addr() {",
             "Ok(()) }"], "print_internal")
ordered(pj, ["self.modules.iter().map(|module| {",
             "self.threads.iter().map(|thread| json!({",
             "thread.frames.iter().enumerate().map(|(idx, frame)| json!({",
             "self.unloaded_modules.iter().map(|module| json!({",
             "if let Some(requesting_thread) = self.requesting_thread {",
             "if let Some(f) = self.threads[requesting_thread].frames.first() {",
             "[requesting_thread] .clone();",
             "let frame = frames[0].as_object_mut().unwrap();",
             "if pretty { serde_json::to_writer_pretty(f, &output) } else { serde_json::to_writer(f, &output) }"], "print_json")
ordered(cs, ["if self.frames.is_empty() {", "let mut frame_count = 0;", "for frame in &self.frames {",
             "for inline in &frame.inlines {", "let frame_idx = frame_count; frame_count += 1;",
             "let frame_idx = frame_count; frame_count += 1; let addr = frame.instruction;",
             "if let Some(module) = &frame.module {",
             "if let (Some(func_name), Some(func_base)) = (&frame.function_name, &frame.function_base) {",
             "addr - src_base", "addr - func_base", "addr - module.base_address()",
             "for (name, offsets) in &frame.unloaded_modules {", "print_registers(f, &frame.context)?;"], "CallStack::print")

s_pi, s_pj, s_cs = sites(pi, "print_internal"), sites(pj, "print_json"), sites(cs, "CallStack::print")
unwraps = [len(re.findall(r"\.unwrap\(\)|\.expect\(", b)) for b in (pi, cs, pj)]
panics = [len(re.findall(r"\b(?:panic|unreachable|unimplemented|todo|assert|assert_eq|assert_ne)!", b)) for b in (pi, cs, pj)]
if any(panics):
    die("an explicit panic / assert macro appeared in a printer (print_internal, CallStack::print, print_json): %s" % panics)

out = """(* GENERATED by translate/c03_render.py from minidump-processor/src/process_state.rs (print_internal, print_json) and
   minidump-unwind/src/lib.rs (CallStack::print) — do not edit.
   Every index expression, binary + / -, += / -= of the three printers in source order, as named sites (an expression the
   translator does not know makes it abort), and the number of .unwrap() / .expect( calls per function.  The translator also pins
   the order of the blocks of print_internal, print_json and CallStack::print, and that no panic / assert macro occurs. *)
From Coq Require Import ZArith List. Import ListNotations. Open Scope Z_scope.
Inductive gen_rsite := %s.
Definition gen_print_internal_sites : list gen_rsite := [%s].
Definition gen_call_stack_print_sites : list gen_rsite := [%s].
Definition gen_print_json_sites : list gen_rsite := [%s].
(* .unwrap() / .expect( calls: print_internal, CallStack::print, print_json *)
Definition gen_printer_unwraps : list Z := [%s].
""" % (" | ".join(ALL_SITES), "; ".join(s_pi), "; ".join(s_cs), "; ".join(s_pj), "; ".join(str(u) for u in unwraps))
os.makedirs(outdir, exist_ok=True)
path = os.path.join(outdir, "C03Render.v")
old = open(path).read() if os.path.exists(path) else None
if old != out:
    with open(path, "w") as f:
        f.write(out)
