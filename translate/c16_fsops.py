#!/usr/bin/env python3
"""Translator (C16): the file-system operation programs of the symbol cache.

Reads breakpad-symbols/src/http.rs and regenerates coq/Gen/C16Ops.v:
  * `create_cache_file` and `commit_cache_file` are TRANSLATED statement by statement into lists of
    `RM.C16.Shared.fsop` (OMkdirAll, ORemoveIfExists, ONewTemp, OWriteSep, OWriteNote, OPersist) in source
    order: `create_ops`, `commit_ops`.  The shared-cache machine of C16/Shared.v interprets exactly these
    lists, one operation per scheduler step; moving an operation from one function to the other, or
    reordering them, changes the generated program and with it what the theorems of C16/Properties.v are
    about (they are stated for RM.Gen.C16Ops.create_ops / commit_ops).
  * `fetch_symbol_file` is TRANSLATED into the list of its steps `fetch_steps` (send + error_for_status,
    create_cache_file, parse_async with the tee callback and `.await?`, url note, commit_cache_file only
    `if let Some(temp)`, Ok): the order in which the hand-written step function of the machine takes them
    is checked against this list in Coq (`fetch_steps_as_modelled`).  The tee callback is pinned.
Every statement of the three functions must be one the translator knows (logging macros are skipped);
anything else — a new fs call, `keep()`, a write elsewhere — aborts (exit 1).
argv: <repo> <outdir>."""
import os
import re
import sys

repo, outdir = sys.argv[1], sys.argv[2]


def die(msg):
    sys.stderr.write("c16_fsops.py: " + msg + "\n")
    sys.exit(1)


def norm(s):
    s = re.sub(r"//[^\n]*", "", s)
    return re.sub(r"\s+", "", s)


def balanced(src, start, open_c, close_c):
    depth = 0
    for i in range(start, len(src)):
        if src[i] == open_c:
            depth += 1
        elif src[i] == close_c:
            depth -= 1
            if depth == 0:
                return i + 1
    die("unbalanced %r" % open_c)


src = open(os.path.join(repo, "breakpad-symbols/src/http.rs")).read()


def function(name, signature):
    """-> normalised body of `fn name`, after checking the signature"""
    ms = list(re.finditer(r"\bfn %s\s*\(" % re.escape(name), src))
    if len(ms) != 1:
        die("expected exactly one `fn %s(` in http.rs, found %d" % (name, len(ms)))
    m = ms[0]
    par_end = balanced(src, m.end() - 1, "(", ")")
    b0 = src.index("{", par_end)
    b1 = balanced(src, b0, "{", "}")
    got = norm(src[m.start():b0])
    if got != norm(signature):
        die("%s: signature changed: %s" % (name, got))
    return norm(src[b0 + 1:b1 - 1])


def tokenize(name, body, table, skip):
    """greedy: the normalised body must be a concatenation of known statements"""
    out = []
    pos = 0
    while pos < len(body):
        for rx in skip:
            m = rx.match(body, pos)
            if m:
                pos = m.end()
                break
        else:
            for text, tok in table:
                if isinstance(text, re.Pattern):
                    m = text.match(body, pos)
                    if m:
                        r = tok(m)
                        if r is not None:
                            out.append(r)
                        pos = m.end()
                        break
                    continue
                t = norm(text)
                if body.startswith(t, pos):
                    if tok is not None:
                        out.append(tok)
                    pos += len(t)
                    break
            else:
                die("%s: statement not recognised (the model was not written for it): %s" % (name, body[pos:pos + 160]))
    return out


LOG = [re.compile(r'(?:trace|debug|warn)!\((?:"(?:[^"\\]|\\.)*"|[^;"])*\);')]

REMOVE = "if final_path.exists() { fs::remove_file(final_path)?; }"

create_body = function("create_cache_file", "fn create_cache_file(tmp_path: &Path, final_path: &Path) -> io::Result<NamedTempFile>")
create_ops = tokenize("create_cache_file", create_body, [
    ('let base = final_path.parent().ok_or_else(|| io::Error::other(format!("Bad cache path: {final_path:?}")))?;', None),
    ("fs::create_dir_all(base)?;", "OMkdirAll"),
    (REMOVE, "ORemoveIfExists"),
    ("NamedTempFile::new_in(tmp_path)", "ONewTemp"),
], LOG)
if not create_ops or create_ops[-1] != "ONewTemp" or create_ops.count("ONewTemp") != 1:
    die("create_cache_file: must end in exactly one NamedTempFile::new_in(tmp_path) (its value): %s" % create_ops)

commit_body = function("commit_cache_file", "fn commit_cache_file(mut temp: NamedTempFile, final_path: &Path, url: &Url, ends_with_newline: bool,) -> io::Result<()>")
commit_toks = tokenize("commit_cache_file", commit_body, [
    ('if !ends_with_newline { temp.write_all(b"\\n")?; }', "OWriteSep"),
    ('let cache_metadata = format!("INFO URL {url}\\n");', "fmt"),
    ("temp.write_all(cache_metadata.as_bytes())?;", "OWriteNote"),
    (REMOVE, "ORemoveIfExists"),
    ("temp.persist_noclobber(final_path)?;", "OPersist"),
    ("Ok(())", "ret"),
], LOG)
if commit_toks.count("fmt") != 1 or commit_toks.count("ret") != 1 or commit_toks[-1] != "ret":
    die("commit_cache_file: note format / final Ok(()) not as expected: %s" % commit_toks)
if "OWriteNote" in commit_toks and commit_toks.index("fmt") > commit_toks.index("OWriteNote"):
    die("commit_cache_file: note written before it is formatted")
commit_ops = [t for t in commit_toks if t not in ("fmt", "ret")]

fetch_body = function("fetch_symbol_file", "fn fetch_symbol_file(client: &Client, base_url: &Url, module: &(dyn Module + Sync), cache: &Path, tmp: &Path,) -> Result<SymbolFile, SymbolError>")
TEE = """|data| {
        if let Some(last) = data.last() { ends_with_newline = *last == b'\\n'; }
        if let Some(file) = temp.as_mut() {
            if let Err(e) = file.write_all(data) {
                warn!("Failed to save symbol file in local disk cache: {}", e);
                temp = None;
            }
        }
    }"""
WARNMAP = '.map_err(|e| { warn!("Failed to save symbol file in local disk cache: {}", e); })'
# Which URL goes where.  `url` is the URL that was requested; `res.url()` (or a local bound to `res.url().clone()`) is where
# the response finally came from after reqwest followed redirects.  The URL the caller is told (`symbol_file.url = Some(..)`)
# and the URL written into the INFO URL note (third argument of commit_cache_file) are TRANSLATED into `report_url_src` /
# `note_url_src`; the theorems need them to be the same source (C16/Properties.v c16_stream_note_is_reported_url).
final_locals = set()
url_srcs = {}


def url_expr(e, what):
    if e == "url":
        return "URequested"
    if e == "res.url()" or e in final_locals:
        return "UFinal"
    die("fetch_symbol_file: %s uses `%s`, which is neither the requested URL (`url`) nor the response's final URL" % (what, e))


def bind_final(m):
    final_locals.add(m.group(1))
    return None


def set_url(m):
    url_srcs["report"] = url_expr(m.group(1), "the URL reported to the caller")
    return "FSetUrl"


def commit_call(m):
    url_srcs["note"] = url_expr(m.group(1), "the INFO URL note")
    return "FCommitIfTemp"


fetch_steps = tokenize("fetch_symbol_file", fetch_body, [
    ("let sym_lookup = breakpad_sym_lookup(module).ok_or(SymbolError::MissingDebugFileOrId)?;", None),
    ("let mut url = join_rel(base_url, &sym_lookup.server_rel).map_err(|_| SymbolError::NotFound)?;", None),
    ("let code_id = module.code_identifier().unwrap_or_default();", None),
    ('url.query_pairs_mut().append_pair("code_file", crate::basename(&module.code_file())).append_pair("code_id", code_id.as_str());', None),
    ("let res = client.get(url.clone()).send().await.and_then(|res| res.error_for_status()).map_err(|_| SymbolError::NotFound)?;", "FSend"),
    ("let final_cache_path = cache.join(sym_lookup.cache_rel);", None),
    ("let mut temp = create_cache_file(tmp, &final_cache_path)" + WARNMAP + ".ok();", "FCreate"),
    ("let mut ends_with_newline = true;", None),
    ("let mut symbol_file = SymbolFile::parse_async(res, " + TEE + ").await?;", "FParseTee"),
    (re.compile(r"let([A-Za-z_][A-Za-z0-9_]*)=res\.url\(\)\.clone\(\);"), bind_final),
    (re.compile(r"symbol_file\.url=Some\(([A-Za-z_][A-Za-z0-9_.()]*?)\.to_string\(\)\);"), set_url),
    (re.compile(r"ifletSome\(temp\)=temp\{let_=commit_cache_file\(temp,&final_cache_path,&([A-Za-z_][A-Za-z0-9_.()]*?),ends_with_newline\)"
                + re.escape(norm(WARNMAP)) + r";\}"), commit_call),
    ("Ok(symbol_file)", "FReturnOk"),
], LOG)

# fetch_lookup (binaries / extra debug info; C16/FileFetch.v): statement by statement.  Every `?` is an exit edge of the model
# (create error, write error, persist error fail this server's fetch); the file is written only through the NamedTempFile and
# enters the cache only by persist_noclobber.
lookup_body = function("fetch_lookup", "fn fetch_lookup(client: &Client, base_url: &Url, lookup: &FileLookup, cache: &Path, tmp: &Path,) -> Result<(PathBuf, Option<Url>), SymbolError>")
lookup_steps = tokenize("fetch_lookup", lookup_body, [
    ("let url = join_rel(base_url, &lookup.server_rel).map_err(|_| SymbolError::NotFound)?;", None),
    ("let mut res = client.get(url.clone()).send().await.and_then(|res| res.error_for_status()).map_err(|_| SymbolError::NotFound)?;", "LSend"),
    ("let final_cache_path = cache.join(&lookup.cache_rel);", None),
    ("let mut temp = create_cache_file(tmp, &final_cache_path)?;", "LCreateQ"),
    ("while let Some(chunk) = res.chunk().await.map_err(std::io::Error::other)? { temp.write_all(&chunk[..])?; }", "LWriteLoopQ"),
    ("temp.persist_noclobber(&final_cache_path).map_err(std::io::Error::other)?;", "LPersistNoclobberQ"),
    ("Ok((final_cache_path, Some(url)))", "LReturnOk"),
], LOG)
# how locate_file_internal uses it: local lookup first (its Ok ends the lookup), then the servers in order, first Ok wins
lfi = norm(src)
for need, what in (
    ("ifletOk(path)=self.local.locate_file(module,file_kind).await{returnOk((path,None));}", "locate_file_internal: the local lookup's Ok answers"),
    ("forurlin&self.urls{letfetch=fetch_lookup(&self.client,url,&lookup,&self.cache,&self.tmp).await;ifletOk((path,url))=fetch{returnOk((path,url));}}", "locate_file_internal: servers in order, first Ok wins"),
):
    if lfi.count(need) != 1:
        die("%s: statement not found exactly once" % what)

if set(url_srcs) != {"report", "note"}:
    die("fetch_symbol_file: URL report / note statements not found: %s" % sorted(url_srcs))
# the two helpers are used by the symbol path exactly once each (fetch_lookup / unpack_cabinet_file have their own
# create_cache_file calls and persist directly; they are judged by the oracle only)
main = src.split("#[cfg(test)]")[0]
if len(re.findall(r"\bcommit_cache_file\s*\(", main)) != 2:
    die("commit_cache_file must have exactly one call site (plus its definition)")

out = """(* GENERATED by translate/c16_fsops.py from breakpad-symbols/src/http.rs — do not edit *)
From Coq Require Import List.
Import ListNotations.
From RM Require Import C16.Shared.

(* fn create_cache_file, statement by statement *)
Definition create_ops : list fsop := [%s].
(* fn commit_cache_file, statement by statement *)
Definition commit_ops : list fsop := [%s].

Inductive fstep := FSend | FCreate | FParseTee | FSetUrl | FCommitIfTemp | FReturnOk.
(* fn fetch_symbol_file *)
Definition fetch_steps : list fstep := [%s].
(* `symbol_file.url = Some(<this>.to_string())`: the URL the caller is told *)
Definition report_url_src : RM.C16.Model.urlsrc := RM.C16.Model.%s.
(* third argument of commit_cache_file: the URL of the INFO URL note *)
Definition note_url_src : RM.C16.Model.urlsrc := RM.C16.Model.%s.

(* fn fetch_lookup (binaries, extra debug info), statement by statement; Q = the statement ends in `?` *)
Inductive lstep := LSend | LCreateQ | LWriteLoopQ | LPersistNoclobberQ | LReturnOk.
Definition lookup_steps : list lstep := [%s].
""" % ("; ".join(create_ops), "; ".join(commit_ops), "; ".join(fetch_steps), url_srcs["report"], url_srcs["note"], "; ".join(lookup_steps))

os.makedirs(outdir, exist_ok=True)
path = os.path.join(outdir, "C16Ops.v")
old = open(path).read() if os.path.exists(path) else None
if old != out:
    open(path, "w").write(out)
