#!/usr/bin/env python3
"""Translator for C01: every site of the minidump reader that can trap, loop or allocate -> coq/Gen/C01Sites.v.

usage: c01_sites.py <repo> <outdir> [--list | --bootstrap | --repin]

Scans the non-test code of minidump/src/*.rs and minidump-common/src/**/*.rs (comments and string
literals blanked, everything from the file-level `#[cfg(test)]` on dropped) for
  index    `e[i]` / `e[a..b]`                          (out-of-bounds panic)
  unwrap   `.unwrap()` `.expect(` `.unwrap_unchecked(`  (None/Err panic)
  panic    `panic! unreachable! unimplemented! todo! assert*! debug_assert*!`
  arith    binary `+ - * << >>` and their `op=` forms   (debug overflow trap / release wrap)
  div      binary `/ %`                                 (division by zero)
  cast     `as <integer type>`                          (silent truncation feeding a size)
  alloc    `with_capacity( vec![ .reserve( .resize( .repeat( .to_vec() .to_owned() String::from_utf16 .collect::<Vec`
  copy     `copy_from_slice clone_from_slice split_at( chunks( chunks_exact( step_by( .remove( .swap_remove( .drain( from_u32( from_u64( ..`
  call     calls that panic on some argument: `Range::new(` (range_map: "Ranges must be ordered") `.swap( .copy_within( .pow( .abs( from_str_radix( ..`
  recursion a fn that calls itself by name (`name(`, `Self::name(`, `self.name(`): depth from the file
  unsafe   `unsafe`
  bound    binary `< > <= >=`                           (the inequality of every bounds test: an off-by-one edit changes the digest)
  eq       binary `== !=`, `.is_empty() .is_none() .is_some()`  (zero / emptiness guards)
  return   `return` / `break` / `continue`              (the early exits the guards lead to)
  loop     `for` / `while` / `loop`                     (trip count)
  guard    `checked_* saturating_* wrapping_* overflowing_* ensure_count_in_bound location_slice .get( .get_mut( .min( .max( .take( .unwrap_or*( .map_or( try_from try_into`
           (the defences: a guard that DISAPPEARS is as interesting as a trap site that appears)
Each site gets the key  <file>|<impl type>::<fn>|<kind>  ; sites are grouped by key, and a group is pinned by
(count, digest of the whitespace-normalised source lines of its sites).  coq/C01/Sites.v is the maintained table:
one row per group with the pinned count and digest and a classification
  Covered "<theorem of C01/Properties.v>"   the site is inside code whose model carries that theorem
  Safe "<reason>"                            cannot trap, for the stated syntactic reason
  Searched "<reason>"                        not modelled: reached by the named step of the search harness, judged by the oracle only
Properties.v proves  scanned_groups = pinned rows  (c01_sites_pinned), so a NEW unwrap / index / unchecked `+` / loop /
allocation on the read path, a removed guard, or an edit of a line that carries a site breaks a proof obligation before
any failing input has to be found.  This script additionally prints the difference (file:line of every new or changed
site) and exits 1 (the runner records that as a broken obligation); it aborts on Rust text it cannot delimit.

  --list        print every site (key, file:line, source line)
  --bootstrap   print a fresh coq/C01/Sites.v (rule-based classification: RULES below) to stdout
  --repin       rewrite counts/digests of coq/C01/Sites.v in place after the changed sites were REVIEWED; rows of new groups
                are added as  Unreviewed  (which Properties.v rejects) and must be classified by hand
"""
import glob
import hashlib
import os
import re
import sys

ROOTS = ["minidump/src", "minidump-common/src"]
HERE = os.path.dirname(os.path.abspath(__file__))
SITES_V = os.path.join(os.path.dirname(HERE), "coq", "C01", "Sites.v")


def die(msg):
    print("c01_sites.py: ABORT: " + msg, file=sys.stderr)
    sys.exit(1)


# ----------------------------------------------------------------------------- lexing
def blank(src, path):
    """comments and the contents of string/char literals replaced by spaces (newlines kept)"""
    out, i, n = [], 0, len(src)

    def keep_nl(s):
        return "".join(c if c == "\n" else " " for c in s)

    while i < n:
        c = src[i]
        if src.startswith("//", i):
            j = src.find("\n", i)
            j = n if j < 0 else j
            out.append(" " * (j - i))
            i = j
        elif src.startswith("/*", i):
            depth, j = 1, i + 2
            while j < n and depth:
                if src.startswith("/*", j):
                    depth += 1
                    j += 2
                elif src.startswith("*/", j):
                    depth -= 1
                    j += 2
                else:
                    j += 1
            if depth:
                die("%s: unterminated block comment" % path)
            out.append(keep_nl(src[i:j]))
            i = j
        elif c == '"' or (c in "br" and re.match(r'b?r?#*"', src[i:i + 6]) and (i == 0 or not (src[i - 1].isalnum() or src[i - 1] == "_"))):
            m = re.match(r'(b?)(r?)(#*)"', src[i:i + 8])
            raw, hashes = m.group(2) == "r", m.group(3)
            j = i + m.end()
            if raw:
                k = src.find('"' + hashes, j)
                if k < 0:
                    die("%s: unterminated raw string" % path)
                end = k + 1 + len(hashes)
            else:
                if hashes:
                    die("%s: `#\"` outside a raw string near offset %d" % (path, i))
                while j < n and src[j] != '"':
                    j += 2 if src[j] == "\\" else 1
                if j >= n:
                    die("%s: unterminated string" % path)
                end = j + 1
            out.append('"' + keep_nl(src[i + 1:end - 1]) + '"')
            i = end
        elif c == "'":
            m = re.match(r"'(\\x[0-9a-fA-F]{2}|\\u\{[0-9a-fA-F]+\}|\\.|[^\\'])'", src[i:i + 12])
            if m:
                out.append("'" + " " * (m.end() - 2) + "'")
                i += m.end()
            else:       # lifetime
                out.append(c)
                i += 1
        else:
            out.append(c)
            i += 1
    return "".join(out)


def cut_tests(text, path):
    """drop the file-level test module (`#[cfg(test)]` at column 0 followed by `mod`)"""
    m = re.search(r"^#\[cfg\(test\)\]\s*\n\s*mod \w+ \{", text, re.M)
    if m:
        return text[:m.start()]
    return text


# ----------------------------------------------------------------------------- scopes
ITEM = re.compile(r"\b(fn\s+(\w+)|impl\b|macro_rules!\s*(\w+)|mod\s+(\w+)|trait\s+(\w+))")


def scopes(text, path):
    """for every character offset: the name of the innermost enclosing fn / macro and its impl type"""
    n = len(text)
    owner = [None] * (n + 1)
    stack = []      # (kind, name, depth at which its `{` was opened)
    depth = 0
    pending = None  # item header seen, waiting for its `{` (or `;`)
    i = 0
    cur = ("", "<top>")

    def current():
        impl, fn = "", "<top>"
        for kind, name, _ in stack:
            if kind in ("impl", "trait"):
                impl = name
            elif kind == "fn":
                fn = name if fn == "<top>" else fn + "." + name
            elif kind == "macro":
                fn = "macro!" + name
        return (impl, fn)

    paren = 0
    while i < n:
        c = text[i]
        if pending is None or pending[0] == "fn":
            m = ITEM.match(text, i) if (c in "fimt" and (i == 0 or not (text[i - 1].isalnum() or text[i - 1] == "_"))) else None
            if m:
                if m.group(2):
                    pending = ("fn", m.group(2), paren)
                elif m.group(3):
                    pending = ("macro", m.group(3), paren)
                elif m.group(4):
                    pending = ("mod", m.group(4), paren)
                elif m.group(5):
                    pending = ("trait", m.group(5), paren)
                else:
                    # impl header: up to the `{`; the type is the last path before `{` / `where`, after `for` if present
                    j = text.find("{", i)
                    if j < 0:
                        die("%s: impl without body" % path)
                    hdr = text[i + 4:j]
                    hdr = hdr.split(" where ")[0].split("\nwhere")[0]
                    if re.search(r"\bfor\b", hdr):
                        hdr = re.split(r"\bfor\b", hdr)[-1]
                    else:
                        hdr = re.sub(r"^\s*<[^>]*(<[^>]*>[^>]*)*>", "", hdr)
                    tm = re.search(r"([A-Za-z_][\w:]*)", hdr)
                    if not tm:
                        die("%s: cannot name impl at offset %d: %r" % (path, i, text[i:j][:80]))
                    pending = ("impl", tm.group(1).split("::")[-1], paren)
                    for k in range(i, j):
                        owner[k] = cur
                    i = j
                    continue
                for k in range(i, m.end()):
                    owner[k] = cur
                i = m.end()
                continue
        owner[i] = cur
        if c in "([":
            paren += 1
        elif c in ")]":
            paren -= 1
        elif c == "{":
            depth += 1
            if pending is not None and paren == pending[2]:
                stack.append((pending[0], pending[1], depth))
                pending = None
                cur = current()
                owner[i] = cur
        elif c == "}":
            if stack and stack[-1][2] == depth:
                stack.pop()
                cur = current()
            depth -= 1
            if depth < 0:
                die("%s: unbalanced `}` at offset %d" % (path, i))
        elif c == ";" and pending is not None and paren == pending[2]:
            pending = None      # declaration without body
        i += 1
    if depth != 0 or stack:
        die("%s: unbalanced braces (depth %d at end of the non-test part)" % (path, depth))
    return owner


# ----------------------------------------------------------------------------- site patterns
INT = r"(?:u8|u16|u32|u64|u128|usize|i8|i16|i32|i64|i128|isize)"
PATTERNS = [
    ("unwrap", re.compile(r"\.(unwrap|expect|unwrap_unchecked|unwrap_err|expect_err)\s*\(")),
    ("panic", re.compile(r"\b(panic|unreachable|unimplemented|todo|assert|assert_eq|assert_ne|debug_assert|debug_assert_eq|debug_assert_ne)!")),
    ("index", re.compile(r"(?<=[\w\)\]\?])\[(?!\s*\])")),
    ("arith", re.compile(r"(?<=[\w\)\]\?]) (\+|-|\*|<<|>>)=? (?=[\w\(\-\*&!])")),
    ("arith", re.compile(r"(?<=[\w\)\]\?])\n\s*(\+|-|\*|<<|>>) (?=[\w\(])")),
    ("div", re.compile(r"(?<=[\w\)\]\?]) (/|%)=? (?=[\w\(\-\*&!])")),
    ("cast", re.compile(r"\bas\s+" + INT + r"\b")),
    ("alloc", re.compile(r"\b(with_capacity|reserve|reserve_exact|resize|resize_with|repeat|to_vec|to_owned|into_owned|extend_from_slice|from_utf16|from_utf16_lossy)\s*\(|\bvec!|collect::<\s*(?:Vec|String|HashMap|BTreeMap)")),
    ("copy", re.compile(r"\b(copy_from_slice|clone_from_slice|split_at|split_at_mut|chunks|chunks_exact|windows|step_by|remove|swap_remove|drain|split_off|rotate_left|rotate_right|"
                        r"from_u8|from_u16|from_u32|from_u64|from_i32|from_i64|from_usize|from_bits_truncate|from_utf8_unchecked|from_raw_parts|transmute|set_len)\s*\(")),
    ("call", re.compile(r"\b(Range::new|RangeMap::try_from_iter|from_str_radix|from_secs_f32|from_secs_f64|from_digit|Layout::from_size_align)\s*\(|"
                        r"\.(swap|copy_within|pow|abs|div_euclid|rem_euclid|ilog2|ilog10|next_power_of_two|insert_str|split_at_checked|borrow_mut|elapsed|duration_since)\s*\(")),
    ("unsafe", re.compile(r"\bunsafe\b")),
    ("bound", re.compile(r"(?<=[\w\)\]\?]) (<|>|<=|>=) (?=[\w\(\-\*&!])")),
    ("eq", re.compile(r"(?<=[\w\)\]\?]) (==|!=) (?=[\w\(\-\*&!])|\.is_empty\(\)|\.is_none\(\)|\.is_some\(\)")),
    ("return", re.compile(r"\breturn\b|\bbreak\b|\bcontinue\b")),
    ("loop", re.compile(r"\b(for\s+[\w\(&][^;{]*?\bin\b|while\b|loop\s*\{)")),
    ("guard", re.compile(r"\b(checked_\w+|saturating_\w+|wrapping_\w+|overflowing_\w+|ensure_count_in_bound|location_slice|try_from|try_into)\s*\(|\.(get|get_mut|min|max|clamp|take|first|last|split_first|split_last|strip_prefix|strip_suffix|unwrap_or|unwrap_or_default|unwrap_or_else|map_or)\s*\(")),
]
CAMEL = re.compile(r"[A-Z][a-z]")


def is_type_context(text, pos, op):
    """`+` between trait bounds, `*` in `*const T`, `-` never"""
    if op == "+":
        rest = text[pos:pos + 64].lstrip(" +=")
        if rest.startswith("'"):
            return True
        m = re.match(r"(?:[\w]+::)*([A-Za-z_]\w*)", rest)
        if m and CAMEL.match(m.group(1)) and not re.match(r"(?:[\w]+::)*[A-Za-z_]\w*\s*(::|\()", rest):
            return True
    return False


_REG_ENUMS = {}


def reg_enums(repo):
    """the fieldless `pub enum XRegisterNumbers { V = n, .. }` of minidump-common/src/format.rs: name -> {variant: discriminant}"""
    if repo in _REG_ENUMS:
        return _REG_ENUMS[repo]
    src = re.sub(r"//[^\n]*", "", open(os.path.join(repo, "minidump-common/src/format.rs")).read())
    res = {}
    for m in re.finditer(r"pub enum (\w+RegisterNumbers)\s*\{([^}]*)\}", src):
        vals = {}
        for item in m.group(2).split(","):
            item = re.sub(r"#\[[^\]]*\]", "", item).strip()
            if not item:
                continue
            mm = re.fullmatch(r"(\w+)\s*=\s*(0x[0-9a-fA-F_]+|\d[\d_]*)", item)
            if not mm:
                die("format.rs: enum %s has a variant without a literal discriminant: %r" % (m.group(1), item))
            vals[mm.group(1)] = int(mm.group(2).replace("_", ""), 0)
        res[m.group(1)] = vals
    if not res:
        die("format.rs: no *RegisterNumbers enum found")
    _REG_ENUMS[repo] = res
    return res


def scan_file(repo, rel):
    path = os.path.join(repo, rel)
    src = open(path, encoding="utf-8").read()
    text = cut_tests(blank(src, rel), rel)
    owner = scopes(text, rel)
    lines = src.split("\n")
    line_of = []
    ln = 1
    for ch in text:
        line_of.append(ln)
        if ch == "\n":
            ln += 1
    # nested `#[cfg(test)]` items (a test-only fn inside an impl) are skipped by line
    skip = set()
    for m in re.finditer(r"#\[cfg\(test\)\]", text):
        j = text.find("{", m.end())
        k = text.find(";", m.end())
        if k >= 0 and (j < 0 or k < j):
            end = k
        else:
            d, end = 0, j
            while end < len(text):
                if text[end] == "{":
                    d += 1
                elif text[end] == "}":
                    d -= 1
                    if d == 0:
                        break
                end += 1
        skip.update(range(m.start(), end + 1))
    short = rel.replace("minidump-common/src/", "common/").replace("minidump/src/", "")
    sites = []
    seen = set()
    for kind, rx in PATTERNS:
        for m in rx.finditer(text):
            pos = m.start()
            if pos in skip:
                continue
            if kind == "arith":
                op = m.group(1)
                if is_type_context(text, m.end(), op):
                    continue
            if kind == "index":
                # attribute `#[..]`, macro `name![..]` and array types never match (lookbehind); skip `&'a [u8]`-like types: preceded by space
                pass
            if (kind, pos) in seen:
                continue
            seen.add((kind, pos))
            impl, fn = owner[pos] or ("", "<top>")
            scope = (impl + "::" if impl else "") + fn
            l = line_of[pos]
            norm = " ".join(lines[l - 1].split())
            site = {"key": "%s|%s|%s" % (short, scope, kind), "file": rel, "line": l, "text": norm, "kind": kind, "scope": scope, "short": short}
            if kind == "index":
                # `base[<integer literal>]`: the constant indices (round 5: Gen.C01Sites.const_index_sites, checked against the array lengths)
                close = text.find("]", pos)
                inner = text[pos + 1:close].strip() if close > 0 else ""
                bm = re.search(r"([A-Za-z_][\w.]*)$", text[:pos])
                if re.fullmatch(r"\d+(?:usize)?", inner):
                    if not bm:
                        die("%s:%d: constant index on an expression that is not a field path: `%s`" % (rel, l, norm[:100]))
                    site["cidx"] = (bm.group(1), int(inner.replace("usize", "")))
                # round 5, second pass: three more shapes whose index is a compile-time constant
                #   base[..N], base[N..]                   a range with a literal bound: N <= len, recorded as the index N - 1
                #   base[(md::)?XRegisterNumbers::V as usize]  the discriminant of a fieldless enum of format.rs; recorded under `base@XRegisterNumbers`
                #   base[*reg as usize] inside `for reg in K` with `const K: &[XRegisterNumbers]`: any discriminant of that enum (the largest is recorded)
                em = re.fullmatch(r"(?:md::)?(\w+RegisterNumbers)::(\w+) as usize", inner)
                rm = re.fullmatch(r"\.\.(\d+)", inner) or re.fullmatch(r"(\d+)\.\.", inner)    # `[..N]` and `[N..]` both need N <= len
                if rm and bm and int(rm.group(1)) > 0:
                    site["cidx"] = (bm.group(1), int(rm.group(1)) - 1)
                elif em:
                    enums = reg_enums(repo)
                    if em.group(1) not in enums or em.group(2) not in enums[em.group(1)]:
                        die("%s:%d: index by an enum constant that format.rs does not define: `%s`" % (rel, l, inner))
                    if not bm:
                        die("%s:%d: enum-constant index on an expression that is not a field path: `%s`" % (rel, l, norm[:100]))
                    site["cidx"] = (bm.group(1) + "@" + em.group(1), enums[em.group(1)][em.group(2)])
                elif re.fullmatch(r"\*(\w+) as usize", inner) and bm:
                    var = re.fullmatch(r"\*(\w+) as usize", inner).group(1)
                    before = text[max(0, pos - 2500):pos]
                    fm = None
                    for fm in re.finditer(r"for %s in (\w+)\s*\{" % re.escape(var), before):
                        pass
                    if fm:
                        cm = re.search(r"const %s: &\[(\w+)\] = &\[([^\]]*)\];" % re.escape(fm.group(1)), before)
                        enums = reg_enums(repo)
                        if cm and cm.group(1) in enums:
                            names = [x.strip().split("::")[-1] for x in cm.group(2).split(",") if x.strip()]
                            if any(n not in enums[cm.group(1)] for n in names):
                                die("%s:%d: %s lists a variant format.rs does not define" % (rel, l, fm.group(1)))
                            site["cidx"] = (bm.group(1) + "@" + cm.group(1), max(enums[cm.group(1)].values()))
            sites.append(site)
    # recursion: a call of the innermost enclosing fn's own name
    for m in re.finditer(r"(?<![\w.:])(?:Self::|self\.)?([a-z_]\w*)\s*\(", text):
        pos = m.start()
        if pos in skip:
            continue
        impl, fn = owner[pos] or ("", "<top>")
        inner = fn.split(".")[-1]
        if inner != m.group(1) or fn == "<top>" or fn.startswith("macro!"):
            continue
        if re.search(r"\bfn\s+$", text[max(0, pos - 12):pos]):
            continue        # the definition itself
        scope = (impl + "::" if impl else "") + fn
        l = line_of[pos]
        sites.append({"key": "%s|%s|recursion" % (short, scope), "file": rel, "line": l, "text": " ".join(lines[l - 1].split()), "kind": "recursion", "scope": scope, "short": short})
    return sites


def scan(repo):
    files = []
    for r in ROOTS:
        files += sorted(glob.glob(os.path.join(repo, r, "**", "*.rs"), recursive=True))
    if len(files) < 10:
        die("expected the minidump and minidump-common sources under %s" % repo)
    sites = []
    for f in files:
        sites += scan_file(repo, os.path.relpath(f, repo))
    sites.sort(key=lambda s: (s["key"], s["line"]))
    return sites


def groups(sites):
    g = {}
    for s in sites:
        g.setdefault(s["key"], []).append(s)
    out = []
    for k in sorted(g):
        h = hashlib.sha256("\n".join(x["text"] for x in g[k]).encode()).hexdigest()[:10]
        out.append((k, len(g[k]), h, g[k]))
    return out


# ----------------------------------------------------------------------------- classification rules (bootstrap only)
# scope (regex on "<file>|<scope>") -> theorem of C01/Properties.v whose model contains that code
COVERED = [
    (r"minidump\.rs\|location_slice$", "c01_location_slice_sound"),
    (r"minidump\.rs\|ensure_count_in_bound$", "c01_ensure_count_in_bound_sound"),
    (r"minidump\.rs\|read_stream_list$", "c01_stream_list_total"),
    (r"minidump\.rs\|read_ex_stream_list(_with)?$", "c01_ex_stream_list_total"),
    (r"minidump\.rs\|read_string_utf16$", "c01_utf16_in_bounds"),
    (r"minidump\.rs\|(read_string_utf8(_unterminated)?|read_cstring_utf8|string_from_bytes_nul)$", "c01_strings_total"),
    (r"minidump\.rs\|(read_codeview|MinidumpModule::read|MinidumpUnloadedModule::read)$", "c01_no_panic"),
    (r"minidump\.rs\|(MinidumpThreadNames|MinidumpModuleList|MinidumpUnloadedModuleList|MinidumpMemoryList|MinidumpMemoryInfoList|MinidumpThreadList|MinidumpThreadInfoList)::read$", "c01_no_panic"),
    (r"minidump\.rs\|MinidumpMemory::read$", "c01_no_panic"),
    (r"minidump\.rs\|MinidumpMemory64List::read$", "c01_memory64_total"),
    (r"minidump\.rs\|(MinidumpHandleDataStream::read|MinidumpHandleDescriptor::(read_string|read_object_info|try_from_ctx)|HandleDescriptorContext::new)$", "c01_handle_data_total"),
    (r"minidump\.rs\|MinidumpException::read$", "c01_no_panic"),
    (r"minidump\.rs\|MinidumpException::print$", "c01_exception_print_total"),
    (r"minidump\.rs\|MinidumpMiscInfo::read$", "c01_misc_info_total"),
    (r"common/format\.rs\|XstateFeatureIter::next$", "c01_xstate_iter_total"),
    (r"minidump\.rs\|MinidumpMemoryBase::get_memory_at_address$", "c01_memory_read_in_bounds"),
    (r"minidump\.rs\|(linux_list_iter(\.strip_quotes)?)$", "c01_linux_kv_bounded"),
    (r"strings\.rs\|", "c01_linux_kv_bounded"),
    (r"minidump\.rs\|(read_string_list|read_simple_string_dictionary|read_annotation_objects|read_crashpad_module_links|MinidumpModuleCrashpadInfo::read|MinidumpCrashpadInfo::read)$", "c01_crashpad_info_total"),
    (r"minidump\.rs\|MinidumpMacCrashInfo::read$", "c01_mac_crash_info_total"),
    (r"minidump\.rs\|(MinidumpMacBootargs|MinidumpAssertion|MinidumpBreakpadInfo|MinidumpSoftErrors|MinidumpSystemInfo)::read$", "c01_fixed_streams_total"),
    (r"minidump\.rs\|(utf16_to_string|MinidumpAssertion::(expression|function|file)|MinidumpSystemInfo::(csd_version|cpu_info))$", "c01_fixed_streams_total"),
    (r"minidump\.rs\|Minidump::(read|read_inner|get_raw_stream|get_stream)$", "c01_header_total"),
    (r"minidump\.rs\|MinidumpThread::(context|stack_memory)$", "c01_thread_contexts_print_total"),
    (r"context\.rs\|MinidumpContext::read$", "c01_no_panic"),
    (r"minidump\.rs\|(MinidumpMemoryBase|MinidumpMemoryInfo|MinidumpModule|MinidumpUnloadedModule|MinidumpLinuxMapInfo|UnifiedMemory)::memory_range$", "c01_memory_range_sound"),
    (r"minidump\.rs\|MinidumpThread::last_error$", "c01_last_error_in_bounds"),
    (r"minidump\.rs\|MinidumpException::get_crash_address$", "c01_crash_address_total"),
    (r"minidump\.rs\|read_debug_id$", "c01_elf_debug_id_reads"),
    (r"minidump\.rs\|(MinidumpThread::print|MinidumpMemoryBase::print_contents)$", "c01_print_sites_total"),
]
# harness step (harness/src/bin/c01.rs) that reaches a scope which is not modelled
STEP = [
    (r"context\.rs\|", "TC/EXC: poke_context (every accessor, format_register, print) on thread and exception contexts of all 11 CPU kinds"),
    (r"system_info\.rs\|", "SI: MinidumpSystemInfo read + print"),
    (r"iostuff\.rs\|", "not on the bytes path: Readable impls used by read_path only"),
    (r"common/errors/", "EX: get_crash_reason + Display for 9 OS x 10 CPU (from_u32 over generated enums)"),
    (r"common/format\.rs\|", "every stream reader (scroll derive) and printer that names the type; TC/EX for the context flag helpers"),
    (r"common/(traits|utils)\.rs\|", "TC: CpuContext register access / to_hex of identifiers in ML"),
    (r"minidump\.rs\|CrashReason::", "EX: get_crash_reason(os, cpu).to_string() for 9 OS x 10 CPU over the exception-code product"),
    (r"minidump\.rs\|MinidumpException::", "EX/EXP/EXC steps"),
    (r"minidump\.rs\|MinidumpThread(List|InfoList|Info|Names)?::", "TL/TLP/TI/TN steps (parse, accessors, print with and without memory)"),
    (r"minidump\.rs\|(MinidumpModule|MinidumpUnloadedModule|MinidumpModuleList|MinidumpUnloadedModuleList)::|read_debug_id|bytes_to_hex", "ML/MLP/UM steps (identifiers, version, address lookups, print)"),
    (r"minidump\.rs\|(MinidumpMemory|UnifiedMemory)", "MEM/M64/MP/MI steps (lookups at six edge addresses per region, print brief and full)"),
    (r"minidump\.rs\|(MinidumpLinuxMap|UnifiedMemoryInfo)", "LM step (procfs maps, unified info list, print)"),
    (r"minidump\.rs\|MinidumpHandle", "HD/HDP steps"),
    (r"minidump\.rs\|(MinidumpMiscInfo|RawMiscInfo|format_time_t|format_system_time|systemtime_from_timestamp)", "MS/MSP steps"),
    (r"minidump\.rs\|(MinidumpMacCrashInfo|RawMacCrashInfo|MinidumpMacBootargs|MinidumpAssertion|MinidumpBreakpadInfo|MinidumpCrashpadInfo|MinidumpSystemInfo|option_or_invalid)", "MC/MB/AS/BP/CP/SI steps (parse + print)"),
    (r"minidump\.rs\|MinidumpLinux", "LC/LS/LR/LE/LL steps (iterate every pair)"),
    (r"minidump\.rs\|Minidump::", "R/HP steps (read, print, raw streams of every directory type)"),
    (r"minidump\.rs\|", "walk() of the search harness"),
    (r"lib\.rs\|", "re-exports only"),
]
SAFE_KIND = {
    "guard": "a defence, pinned so that its removal is flagged",
    "eq": "an equality / emptiness test (cannot trap), pinned so that a dropped zero-guard is flagged",
    "return": "an early exit (cannot trap), pinned so that a dropped guard is flagged",
}


def classify(key, kind, grp):
    fs = key.rsplit("|", 1)[0]
    if kind in SAFE_KIND:
        return ("Safe", SAFE_KIND[kind])
    if kind == "cast" and all(re.search(r"\bas (u64|u128|i64|i128)\b", s["text"]) and not re.search(r"\bas (u8|u16|u32|usize|i8|i16|i32|isize)\b", s["text"]) for s in grp):
        return ("Safe", "casts to a 64-bit or wider type only (no truncation feeding a size)")
    for rx, thm in COVERED:
        if re.search(rx, fs):
            return ("Covered", thm)
    for rx, step in STEP:
        if re.search(rx, fs):
            return ("Searched", step)
    die("no classification rule for " + key)


# ----------------------------------------------------------------------------- Coq output
def q(s):
    return '"' + s.replace('"', "'") + '"'


def gen_v(grps, sites):
    out = ["(* GENERATED by translate/c01_sites.py from minidump/src and minidump-common/src — do not edit.",
           "   One row per (file | impl::fn | kind): number of trap/loop/allocation/guard sites and a digest of their source lines. *)",
           "Require Import String List. Import ListNotations. Open Scope string_scope.",
           "Definition scanned_groups : list (string * (nat * string)) := ["]
    out.append(";\n".join("  (%s, (%d, %s))" % (q(k), n, q(h)) for k, n, h, _ in grps))
    out.append("].")
    out.append("Definition scanned_site_count : nat := %d." % len(sites))
    # constant indices `base[k]`: one row per (group, indexed expression) with the number of such sites and the largest k
    ci = {}
    for s in sites:
        if "cidx" in s:
            b, k = s["cidx"]
            n, mx = ci.get((s["key"], b), (0, 0))
            ci[(s["key"], b)] = (n + 1, max(mx, k))
    out.append("(* every index site whose index is an integer literal: (group, indexed expression, (number of sites, largest index)) *)")
    out.append("Definition const_index_sites : list (string * string * (nat * nat)) := [")
    out.append(";\n".join("  (%s, %s, (%d, %d))" % (q(k), q(b), n, mx) for (k, b), (n, mx) in sorted(ci.items())))
    out.append("].")
    # per index group: how many of its sites have a constant index (a group may be classified Covered "c01_const_indices_in_bounds" only if all have)
    tot = {}
    for s in sites:
        if s["kind"] == "index":
            a, c = tot.get(s["key"], (0, 0))
            tot[s["key"]] = (a + 1, c + (1 if "cidx" in s else 0))
    out.append("(* every index group: (group, (index sites, of which with a constant index)) *)")
    out.append("Definition index_group_counts : list (string * (nat * nat)) := [")
    out.append(";\n".join("  (%s, (%d, %d))" % (q(k), a, c) for k, (a, c) in sorted(tot.items())))
    out.append("].")
    return "\n".join(out) + "\n"


ROW = re.compile(r'^\s*\("([^"]*)", \((\d+), "([0-9a-f]+)"\), (Covered|Safe|Searched|Unreviewed) "([^"]*)"\);?\s*$')


def read_table():
    rows = {}
    if not os.path.exists(SITES_V):
        return rows
    for line in open(SITES_V):
        m = ROW.match(line)
        if m:
            rows[m.group(1)] = (int(m.group(2)), m.group(3), m.group(4), m.group(5))
    return rows


def table_v(rows):
    """rows: list of (key, n, digest, cls, arg)"""
    head = """(* C01: the maintained classification of every trap / loop / allocation / guard site of the reader.
   One row per group of translate/c01_sites.py (file | impl::fn | kind) with the REVIEWED count and digest.
   Covered thm  = inside code whose model carries theorem thm of Properties.v
   Safe r       = cannot trap for the syntactic reason r
   Searched r   = not modelled; reached by harness step r and judged by the oracle only
   Unreviewed   = placeholder written by `c01_sites.py --repin` for a new group: rejected by c01_sites_classified.
   Regenerate counts/digests after a reviewed source change with  python3 translate/c01_sites.py /repo coq/Gen --repin  *)
Require Import String List. Import ListNotations. Open Scope string_scope.
Inductive cls := Covered (thm : string) | Safe (reason : string) | Searched (step : string) | Unreviewed (why : string).
Definition site_table : list (string * (nat * string) * cls) := [
"""
    body = ";\n".join('  (%s, (%d, %s), %s %s)' % (q(k), n, q(h), c, q(a)) for k, n, h, c, a in rows)
    return head + body + "\n].\n"


def main():
    if len(sys.argv) < 3:
        die("usage: c01_sites.py <repo> <outdir> [--list|--bootstrap|--repin]")
    repo, outdir = sys.argv[1], sys.argv[2]
    mode = sys.argv[3] if len(sys.argv) > 3 else ""
    sites = scan(repo)
    grps = groups(sites)
    if mode == "--list":
        for s in sites:
            print("%s\t%s:%d\t%s" % (s["key"], s["file"], s["line"], s["text"]))
        return
    if mode == "--bootstrap":
        rows = []
        for k, n, h, g in grps:
            c, a = classify(k, g[0]["kind"], g)
            rows.append((k, n, h, c, a))
        sys.stdout.write(table_v(rows))
        return
    table = read_table()
    if mode == "--repin":
        rows = []
        for k, n, h, g in grps:
            if k in table:
                rows.append((k, n, h, table[k][2], table[k][3]))
            else:
                rows.append((k, n, h, "Unreviewed", "new group: " + "; ".join("%s:%d" % (s["file"], s["line"]) for s in g[:4])))
        open(SITES_V, "w").write(table_v(rows))
        print("c01_sites.py: %d rows written to %s" % (len(rows), SITES_V))
        return
    text = gen_v(grps, sites)
    os.makedirs(outdir, exist_ok=True)
    path = os.path.join(outdir, "C01Sites.v")
    old = open(path).read() if os.path.exists(path) else None
    if old != text:
        open(path, "w").write(text)
    # the difference with the maintained table, for the human: the Coq obligation c01_sites_pinned says the same
    problems = []
    for k, n, h, g in grps:
        if k not in table:
            problems.append("NEW site group %s (%d): %s" % (k, n, "; ".join("%s:%d `%s`" % (s["file"], s["line"], s["text"][:90]) for s in g[:6])))
        elif (n, h) != table[k][:2]:
            problems.append("CHANGED site group %s: %d site(s) pinned, %d in the source: %s" % (
                k, table[k][0], n, "; ".join("%s:%d `%s`" % (s["file"], s["line"], s["text"][:90]) for s in g[:8])))
    have = {k for k, _, _, _ in grps}
    for k in sorted(table):
        if k not in have:
            problems.append("REMOVED site group %s (%d site(s) pinned; a guard or a whole function disappeared)" % (k, table[k][0]))
    if problems:
        print("c01_sites.py: the trap/loop/allocation sites of the reader differ from the reviewed table coq/C01/Sites.v:", file=sys.stderr)
        for p in problems[:40]:
            print("  " + p, file=sys.stderr)
        sys.exit(1)


if __name__ == "__main__":
    main()
