#!/usr/bin/env python3
"""Translator: the schema block of minidump-processor/json-schema.md -> coq/Gen/C15Schema.v (DOC_SCHEMA : schema).

The document's ```rust,ignore block is pseudo-JSON: objects `{ "key": value, ... }` (commas are optional in the document),
arrays `[ value ]`, alternatives `a | b | c`, leaf types `<u32> <u64> <f32> <bool> <string> <hexstring> <object>`, string literals
(enumeration values), `//` comments and `[UNSTABLE:...]` tags.  `"registers": { "some_register_name": <hexstring> }` is the
documented notation for a map from arbitrary names to hex strings.  `crashing_thread` is documented as "the rest of the fields are
the same as they are in `threads`" followed by an abbreviated listing: the translator checks that the listing is contained in the
`threads[]` schema (same field types, enumerations may be abbreviated) and emits `threads[]` + `threads_index` for it.

Usable as a module: `parse_schema(text) -> tree`, tree = ("obj", [(key, tree)..]) | ("map", tree) | ("arr", tree) |
("enum", [names], tree|None) | ("leaf", name).   argv: <repo> <outdir>.  Aborts loudly on anything it does not recognise."""
import os
import re
import sys

LEAVES = {"u32": "SU32", "u64": "SU64", "f32": "SF32", "bool": "SBool", "string": "SStr", "hexstring": "SHex", "object": "SAnyObj"}


class SchemaError(Exception):
    pass


def block(text):
    m = re.search(r"```rust,ignore\n(.*?)\n```\s*$", text, re.S | re.M)
    if not m:
        raise SchemaError("json-schema.md: the ```rust,ignore schema block was not found")
    return m.group(1)


def tokens(src):
    src = re.sub(r"//[^\n]*", "", src)
    src = re.sub(r"\[UNSTABLE:[a-z_]+\]", "", src)
    out = []
    i = 0
    while i < len(src):
        c = src[i]
        if c.isspace():
            i += 1
        elif c in "{}[],:|":
            out.append(c)
            i += 1
        elif c == '"':
            j = src.find('"', i + 1)
            if j < 0 or "\n" in src[i:j] or "\\" in src[i:j]:
                raise SchemaError("unterminated or escaped string literal at %r" % src[i:i + 40])
            out.append(("str", src[i + 1:j]))
            i = j + 1
        elif c == "<":
            m = re.match(r"<([a-z0-9]+)>", src[i:])
            if not m or m.group(1) not in LEAVES:
                raise SchemaError("unknown leaf type at %r" % src[i:i + 40])
            out.append(("leaf", m.group(1)))
            i += len(m.group(0))
        else:
            raise SchemaError("unrecognised text in the schema block: %r" % src[i:i + 60])
    return out


class P:
    def __init__(self, toks):
        self.t, self.i = toks, 0

    def peek(self, k=0):
        return self.t[self.i + k] if self.i + k < len(self.t) else None

    def take(self, want=None):
        x = self.peek()
        if x is None or (want is not None and x != want):
            raise SchemaError("expected %r, found %r (token %d)" % (want, x, self.i))
        self.i += 1
        return x

    def value(self):
        alts = [self.alt()]
        while self.peek() == "|":
            self.take()
            alts.append(self.alt())
        if len(alts) == 1 and alts[0][0] != "lit":
            return alts[0]
        names = [a[1] for a in alts if a[0] == "lit"]
        others = [a for a in alts if a[0] != "lit"]
        if len(others) > 1 or (others and others[0][0] != "leaf"):
            raise SchemaError("alternatives other than string literals plus one leaf type: %r" % (alts,))
        if len(set(names)) != len(names):
            raise SchemaError("duplicate enumeration value in %r" % names)
        return ("enum", names, others[0] if others else None)

    def alt(self):
        x = self.peek()
        if x == "{":
            return self.obj()
        if x == "[":
            self.take()
            v = self.value()
            if self.peek() == ",":
                self.take()
            self.take("]")
            return ("arr", v)
        if isinstance(x, tuple) and x[0] == "str":
            self.take()
            return ("lit", x[1])
        if isinstance(x, tuple) and x[0] == "leaf":
            self.take()
            return ("leaf", x[1])
        raise SchemaError("value expected, found %r (token %d)" % (x, self.i))

    def obj(self):
        self.take("{")
        fields = []
        while self.peek() != "}":
            k = self.take()
            if not (isinstance(k, tuple) and k[0] == "str"):
                raise SchemaError("field name expected, found %r" % (k,))
            self.take(":")
            v = self.value()
            if any(k[1] == f for f, _ in fields):
                raise SchemaError("field %r documented twice in one object" % k[1])
            fields.append((k[1], v))
            if self.peek() == ",":
                self.take()
        self.take("}")
        if [f for f, _ in fields] == ["some_register_name"]:
            return ("map", fields[0][1])
        return ("obj", fields)


def contained(small, big, path):
    """the abbreviated listing `small` must not say anything `big` does not"""
    if small[0] != big[0]:
        raise SchemaError("%s: abbreviated listing has kind %s, the full one %s" % (path, small[0], big[0]))
    if small[0] == "obj":
        bd = dict(big[1])
        for k, v in small[1]:
            if k not in bd:
                raise SchemaError("%s.%s is listed for crashing_thread but not for threads[]" % (path, k))
            contained(v, bd[k], path + "." + k)
    elif small[0] in ("arr", "map"):
        contained(small[1], big[1], path + "[]")
    elif small[0] == "enum":
        if not set(small[1]) <= set(big[1]) or (small[2] is not None and small[2] != big[2]):
            raise SchemaError("%s: enumeration %r is not contained in %r" % (path, small[1], big[1]))
    elif small != big:
        raise SchemaError("%s: %r differs from %r" % (path, small, big))


def parse_schema(text):
    p = P(tokens(block(text)))
    top = p.obj()
    if p.peek() is not None:
        raise SchemaError("text after the top-level object")
    d = dict(top[1])
    for need in ("threads", "crashing_thread", "crash_info", "system_info", "modules", "unloaded_modules"):
        if need not in d:
            raise SchemaError("top-level member %r is not documented" % need)
    if d["threads"][0] != "arr" or d["threads"][1][0] != "obj" or d["crashing_thread"][0] != "obj":
        raise SchemaError("threads / crashing_thread do not have the recognised shape")
    thread = d["threads"][1]
    ct = d["crashing_thread"]
    if "threads_index" not in dict(ct[1]) or dict(ct[1])["threads_index"] != ("leaf", "u32"):
        raise SchemaError("crashing_thread.threads_index: <u32> expected")
    contained(("obj", [(k, v) for k, v in ct[1] if k != "threads_index"]), thread, "crashing_thread")
    full = ("obj", thread[1] + [("threads_index", ("leaf", "u32"))])
    return ("obj", [(k, (full if k == "crashing_thread" else v)) for k, v in top[1]])


def coqstr(s):
    if not s.isascii():
        raise SchemaError("non-ASCII name %r" % s)
    return "[" + ";".join(str(ord(c)) for c in s) + "]"


def coq(t, ind):
    pad = " " * ind
    if t[0] == "leaf":
        return LEAVES[t[1]]
    if t[0] == "arr":
        return "SArr (" + coq(t[1], ind) + ")"
    if t[0] == "map":
        return "SMap (" + coq(t[1], ind) + ")"
    if t[0] == "enum":
        return "SEnum [%s] (%s)" % ("; ".join("%s (* %s *)" % (coqstr(n), n) for n in t[1]), coq(t[2], ind) if t[2] else "SNever")
    if t[0] == "obj":
        return "SObj [\n" + ";\n".join("%s  (%s (* %s *), %s)" % (pad, coqstr(k), k, coq(v, ind + 2)) for k, v in t[1]) + "]"
    raise SchemaError("internal: %r" % (t,))


def main():
    repo, outdir = sys.argv[1], sys.argv[2]
    try:
        tree = parse_schema(open(os.path.join(repo, "minidump-processor/json-schema.md")).read())
        out = ("(* GENERATED by translate/c15_schema.py from minidump-processor/json-schema.md — do not edit *)\n"
               "From Coq Require Import ZArith List.\nFrom RM Require Import C15.SchemaDef.\nImport ListNotations.\nOpen Scope Z_scope.\n\n"
               "Definition DOC_SCHEMA : schema :=\n  " + coq(tree, 2) + ".\n")
    except SchemaError as e:
        sys.stderr.write("c15_schema.py: %s\n" % e)
        sys.exit(1)
    path = os.path.join(outdir, "C15Schema.v")
    os.makedirs(outdir, exist_ok=True)
    try:
        if open(path).read() == out:
            sys.exit(0)
    except OSError:
        pass
    open(path, "w").write(out)


if __name__ == "__main__":
    main()
