#!/usr/bin/env python3
"""Translator (C14, round 5): the crash-reason / crash-address dispatch of minidump/src/minidump.rs and the membership
tables of minidump-common/src/errors/*.rs  ->  coq/Gen/C14Reason.v.      argv: <repo> <outdir>

What is regenerated from the source on every run:
  * MEM_<Enum> : list Z - the discriminants of EVERY error-code enumeration the dispatch consults (also the two large ones,
    WinErrorWindows / NtStatusWindows, ~5800 values) and gen_lk : enumeration id -> value -> bool over them;
  * gen_windows_code / gen_windows_error / gen_windows_error_with_facility / gen_windows_exception / gen_mac_exception /
    gen_linux_exception / gen_from_exception / gen_crash_address: Gallina decision trees obtained by symbolic execution of the
    bodies of CrashReason::from_windows_code, from_windows_error, from_windows_error_with_facility, from_windows_exception,
    from_mac_exception, from_linux_exception, from_exception and MinidumpException::get_crash_address - which enumeration is
    tried first, the parameter-count gates, the masks, the refinement arms and the constants they are keyed on (resolved
    through the enumeration tables).
The bodies are parsed by a small recursive-descent parser for the Rust subset they use (let / let mut / static / if / if let /
else / match with or-patterns and guards / assignment / return / `?` / method calls / casts / & >> comparisons); anything outside
that subset, an unknown name, or an enumeration that is not in the tables aborts loudly.
coq/C14/Source.v proves the hand-written model (C14/Model.v) equal to these trees and evaluates the documented refinements
on the generated tables, so an edit to the dispatch OR a new enumeration value that shadows a refinement arm breaks a named theorem."""
import os
import re
import sys

repo, outdir = sys.argv[1], sys.argv[2]


def die(msg):
    sys.stderr.write("c14_reason.py: " + msg + "\n")
    sys.exit(1)


# ------------------------------------------------------------------------------------------------ enumeration tables
ENUM_COQ = {   # Rust enumeration -> name of its id in coq/C14/Types.v
    "ExceptionCodeWindows": "EN_WIN_EXC", "WinErrorWindows": "EN_WIN_ERROR", "NtStatusWindows": "EN_WIN_NTSTATUS",
    "WinErrorFacilityWindows": "EN_WIN_FACILITY", "ExceptionCodeWindowsAccessType": "EN_WIN_ACCESS",
    "ExceptionCodeWindowsInPageErrorType": "EN_WIN_INPAGE",
    "ExceptionCodeLinux": "EN_LINUX", "ExceptionCodeLinuxSigillKind": "EN_SIGILL", "ExceptionCodeLinuxSigtrapKind": "EN_SIGTRAP",
    "ExceptionCodeLinuxSigfpeKind": "EN_SIGFPE", "ExceptionCodeLinuxSigsegvKind": "EN_SIGSEGV", "ExceptionCodeLinuxSigbusKind": "EN_SIGBUS",
    "ExceptionCodeLinuxSigsysKind": "EN_SIGSYS",
    "ExceptionCodeMac": "EN_MAC", "ExceptionCodeMacBadAccessKernType": "EN_MAC_KERN", "ExceptionCodeMacBadAccessArmType": "EN_MAC_ACC_ARM",
    "ExceptionCodeMacBadAccessPpcType": "EN_MAC_ACC_PPC", "ExceptionCodeMacBadAccessX86Type": "EN_MAC_ACC_X86",
    "ExceptionCodeMacBadInstructionArmType": "EN_MAC_INS_ARM", "ExceptionCodeMacBadInstructionPpcType": "EN_MAC_INS_PPC",
    "ExceptionCodeMacBadInstructionX86Type": "EN_MAC_INS_X86", "ExceptionCodeMacArithmeticArmType": "EN_MAC_ARI_ARM",
    "ExceptionCodeMacArithmeticPpcType": "EN_MAC_ARI_PPC", "ExceptionCodeMacArithmeticX86Type": "EN_MAC_ARI_X86",
    "ExceptionCodeMacSoftwareType": "EN_MAC_SOFTWARE", "ExceptionCodeMacBreakpointArmType": "EN_MAC_BRK_ARM",
    "ExceptionCodeMacBreakpointPpcType": "EN_MAC_BRK_PPC", "ExceptionCodeMacBreakpointX86Type": "EN_MAC_BRK_X86",
    "ExceptionCodeMacResourceType": "EN_MAC_RESOURCE", "ExceptionCodeMacGuardType": "EN_MAC_GUARD",
}
enums = {}
for f in ("windows.rs", "linux.rs", "macos.rs"):
    src = open(os.path.join(repo, "minidump-common/src/errors", f)).read()
    for m in re.finditer(r"((?:#\[[^\]]*\]\s*)*)pub enum (\w+)\s*\{(.*?)\n\}", src, re.S):
        attrs, name, body = m.group(1), m.group(2), re.sub(r"//[^\n]*", "", m.group(3))
        if "FromPrimitive" not in attrs:
            die("%s::%s does not derive FromPrimitive" % (f, name))
        ents = {}
        for ent in body.split(","):
            ent = ent.strip()
            if not ent:
                continue
            mm = re.match(r"^(?:#\[[^\]]*\]\s*)*(\w+)\s*=\s*(0x[0-9a-fA-F_]+|-?[0-9_]+)(?:u32|i32|u64)?$", ent)
            if not mm:
                die("unrecognised entry %r in %s::%s" % (ent, f, name))
            v = int(mm.group(2).replace("_", ""), 0)
            if mm.group(1) in ents or v in ents.values():
                die("duplicate name / discriminant %s in %s" % (mm.group(1), name))
            ents[mm.group(1)] = v
        enums[name] = ents
for k in ENUM_COQ:
    if k not in enums:
        die("enumeration %s not found" % k)
    if any(v < 0 for v in enums[k].values()):
        die("negative discriminant in %s" % k)


def enum_const(en, var):
    if en not in enums or var not in enums[en]:
        die("unknown enumeration constant %s::%s" % (en, var))
    return enums[en][var]


# ------------------------------------------------------------------------------------------------ lexer / parser
TOK = re.compile(r"\s*(?:(0x[0-9a-fA-F_]+|[0-9][0-9_]*)(?:u8|u16|u32|u64|usize|i32|i64)?|([A-Za-z_][A-Za-z0-9_]*)|"
                 r"(::|=>|==|!=|>=|<=|>>|<<|&&|\|\||->|[{}()\[\],;:=<>&|!?.*+\-#]))")


def lex(src):
    src = re.sub(r"//[^\n]*", "", src)
    out, i = [], 0
    src = src.rstrip()
    while i < len(src):
        m = TOK.match(src, i)
        if not m:
            die("cannot tokenize at %r" % src[i:i + 40])
        if m.group(1) is not None:
            out.append(("num", int(m.group(1).replace("_", ""), 0)))
        elif m.group(2) is not None:
            out.append(("id", m.group(2)))
        else:
            out.append(("p", m.group(3)))
        i = m.end()
    return out


class P:
    def __init__(self, toks, what):
        self.t, self.i, self.what = toks, 0, what

    def peek(self, k=0):
        return self.t[self.i + k] if self.i + k < len(self.t) else ("eof", None)

    def at(self, s, k=0):
        return self.peek(k) == ("p", s)

    def atid(self, s, k=0):
        return self.peek(k) == ("id", s)

    def eat(self, s):
        if not self.at(s):
            die("%s: expected `%s`, found %r (token %d)" % (self.what, s, self.peek(), self.i))
        self.i += 1

    def eatid(self, s=None):
        k, v = self.peek()
        if k != "id" or (s is not None and v != s):
            die("%s: expected identifier %s, found %r" % (self.what, s or "", self.peek()))
        self.i += 1
        return v

    # ---- statements
    def block(self):
        self.eat("{")
        stmts = []
        while not self.at("}"):
            if self.atid("use"):
                while not self.at(";"):
                    self.i += 1
                self.eat(";")
            elif self.atid("static") or self.atid("const"):
                self.i += 1
                name = self.eatid()
                self.eat(":")
                self.eatid()
                self.eat("=")
                stmts.append(("let", name, self.expr()))
                self.eat(";")
            elif self.atid("let"):
                self.i += 1
                if self.atid("mut"):
                    self.i += 1
                if self.at("("):
                    pat = self.pattern()
                    self.eat("=")
                    stmts.append(("letpat", pat, self.expr()))
                else:
                    name = self.eatid()
                    self.eat("=")
                    stmts.append(("let", name, self.expr()))
                self.eat(";")
            elif self.atid("return"):
                self.i += 1
                stmts.append(("return", self.expr()))
                self.eat(";")
            elif self.peek()[0] == "id" and self.at(".", 1) and self.peek(2)[0] == "id" and self.at("=", 3):
                name = self.eatid()
                self.eat(".")
                fld = self.eatid()
                self.eat("=")
                stmts.append(("fassign", name, fld, self.expr()))
                self.eat(";")
            elif self.peek()[0] == "id" and self.at("=", 1):
                name = self.eatid()
                self.eat("=")
                stmts.append(("assign", name, self.expr()))
                self.eat(";")
            else:
                e = self.expr()
                if self.at(";"):
                    self.i += 1
                    stmts.append(("expr", e))
                elif self.at("}"):
                    stmts.append(("tail", e))
                elif e[0] in ("if", "match"):
                    stmts.append(("expr", e))
                else:
                    die("%s: expected `;` or `}` after expression, found %r" % (self.what, self.peek()))
        self.eat("}")
        return ("block", stmts)

    # ---- expressions (Rust precedence: unary/cast > >> > & > | > comparison > && > ||)
    LEVELS = [["||"], ["&&"], ["==", "!=", ">=", "<=", "<", ">"], ["|"], ["&"], [">>", "<<"]]

    def expr(self, lvl=0, nostruct=False):
        if lvl == len(self.LEVELS):
            return self.cast()
        l = self.expr(lvl + 1)
        while self.peek()[0] == "p" and self.peek()[1] in self.LEVELS[lvl]:
            op = self.peek()[1]
            self.i += 1
            l = ("bin", op, l, self.expr(lvl + 1))
        return l

    def cast(self):
        e = self.unary()
        while self.atid("as"):
            self.i += 1
            ty = self.eatid()
            e = ("cast", e, ty) if ty != "_" else e
        return e

    def unary(self):
        if self.at("&"):
            self.i += 1
            return self.unary()          # references are transparent here
        if self.at("!"):
            self.i += 1
            return ("not", self.unary())
        return self.postfix()

    def postfix(self):
        e = self.primary()
        while True:
            if self.at("."):
                self.i += 1
                name = self.eatid()
                if self.at("::") and self.at("<", 1):
                    self.i += 2
                    name = "%s::<%s>" % (name, self.eatid())          # the type argument is part of the method's name
                    self.eat(">")
                if self.at("("):
                    e = ("method", e, name, self.args())
                else:
                    e = ("field", e, name)
            elif self.at("["):
                self.i += 1
                idx = self.expr()
                self.eat("]")
                e = ("index", e, idx)
            elif self.at("?"):
                self.i += 1
                e = ("try", e)
            elif self.at("("):
                e = ("call", e, self.args())
            else:
                return e

    def args(self):
        self.eat("(")
        a = []
        while not self.at(")"):
            a.append(self.expr())
            if self.at(","):
                self.i += 1
        self.eat(")")
        return a

    def primary(self):
        k, v = self.peek()
        if k == "num":
            self.i += 1
            return ("num", v)
        if self.at("("):
            self.i += 1
            es = [self.expr()]
            tup = False
            while self.at(","):
                self.i += 1
                tup = True
                if not self.at(")"):
                    es.append(self.expr())
            self.eat(")")
            return ("tuple", es) if tup else es[0]
        if self.at("{"):
            return self.block()
        if k == "id" and v == "if":
            return self.ifexpr()
        if k == "id" and v == "match":
            return self.matchexpr()
        if self.at("||"):
            self.i += 1
            return ("closure", [], self.expr())
        if self.at("|"):
            self.i += 1
            params = []
            while not self.at("|"):
                params.append(self.eatid())
                if self.at(","):
                    self.i += 1
            self.eat("|")
            return ("closure", params, self.expr())
        if k == "id" and self.at("!", 1) and self.at("[", 2):
            name = self.eatid()
            self.eat("!")
            self.eat("[")
            a = []
            while not self.at("]"):
                a.append(self.expr())
                if self.at(","):
                    self.i += 1
            self.eat("]")
            return ("macro", name, a)
        if k == "id" and v == "CallStack" and self.at("{", 1):
            self.i += 2
            fields = []
            while not self.at("}"):
                fname = self.eatid()
                if self.at(":"):
                    self.i += 1
                    fields.append((fname, self.expr()))
                else:
                    fields.append((fname, ("path", [fname])))
                if self.at(","):
                    self.i += 1
            self.eat("}")
            return ("struct", "CallStack", fields)
        if k == "id":
            return ("path", self.path())
        die("%s: unexpected token %r" % (self.what, self.peek()))

    def path(self):
        segs = [self.eatid()]
        while self.at("::"):
            self.i += 1
            segs.append(self.eatid())
        return segs

    def ifexpr(self):
        self.eatid("if")
        if self.atid("let"):
            self.i += 1
            pat = self.pattern()
            self.eat("=")
            cond = ("iflet", pat, self.expr())
        else:
            cond = self.expr()
        then = self.block()
        els = None
        if self.atid("else"):
            self.i += 1
            els = ("block", [("tail", self.ifexpr())]) if self.atid("if") else self.block()
        return ("if", cond, then, els)

    def matchexpr(self):
        self.eatid("match")
        scrut = self.expr()
        self.eat("{")
        arms = []
        while not self.at("}"):
            pats = [self.pattern()]
            while self.at("|"):
                self.i += 1
                pats.append(self.pattern())
            guard = None
            if self.atid("if"):
                self.i += 1
                guard = self.expr()
            self.eat("=>")
            body = self.expr()
            if self.at(","):
                self.i += 1
            arms.append((pats, guard, body if body[0] == "block" else ("block", [("tail", body)])))
        self.eat("}")
        return ("match", scrut, arms)

    def pattern(self):
        if self.at("("):
            self.i += 1
            ps = []
            while not self.at(")"):
                ps.append(self.pattern())
                if self.at(","):
                    self.i += 1
            self.eat(")")
            return ("ptuple", ps)
        k, v = self.peek()
        if k == "id" and v == "_":
            self.i += 1
            return ("pwild",)
        if k == "id":
            segs = self.path()
            if self.at("("):
                self.i += 1
                ps = []
                while not self.at(")"):
                    ps.append(self.pattern())
                    if self.at(","):
                        self.i += 1
                self.eat(")")
                return ("pcall", segs, ps)
            if len(segs) == 1 and segs[0][0].islower():
                return ("pbind", segs[0])
            return ("ppath", segs)
        die("%s: unexpected token %r in a pattern" % (self.what, self.peek()))


def function_body(src, impl_header, fn):
    i = src.find(impl_header)
    if i < 0:
        die("cannot find `%s`" % impl_header)
    m = re.compile(r"\bfn %s\s*\(" % fn).search(src, i)
    if not m:
        die("cannot find fn %s after `%s`" % (fn, impl_header))
    j = src.index("{", m.end())
    sig = src[m.start():j]
    depth, k = 0, j
    while True:
        depth += {"{": 1, "}": -1}.get(src[k], 0)
        k += 1
        if depth == 0:
            break
    p = P(lex(src[j:k]), fn)
    b = p.block()
    if p.peek()[0] != "eof":
        die("%s: trailing tokens" % fn)
    return re.sub(r"\s+", " ", sig).strip(), b


# ------------------------------------------------------------------------------------------------ symbolic execution
# values:  ("z", coq)  number          ("rec",) the exception record     ("info",) its exception_information
#          ("raw",)/("self",)          ("os",) ("cpu",)                   ("reason", coq)       ("unit",)
#          ("member", enum, coq)       Option<enum value> = E::from_uN(coq)
#          ("optreason", coq)          Option<CrashReason> as a Coq term       ("some", value) / ("none",)
#          ("pw",)                     cpu.pointer_width()
# trees:   ("leaf", value) | ("if", coqbool, T, T) | ("matchopt", coq, var, T, T) | ("matchenum", coqscrut, [(ctors|None, T)])
FIELDS = {"exception_code": "e_code e", "exception_flags": "e_flags e", "number_parameters": "e_nparams e",
          "exception_address": "e_addr e"}
OS_CTOR = {"MacOs": "OsMac", "Ios": "OsIos", "Linux": "OsLinux", "Android": "OsAndroid", "Windows": "OsWindows",
           "Solaris": "OsSolaris", "Ps3": "OsPs3", "NaCl": "OsNaCl"}
PW_CTOR = {"Bits32": "W32", "Bits64": "W64", "Unknown": "WUnknown"}
CPU_CTOR = {"X86": "X86", "X86_64": "X86_64", "Ppc": "Ppc", "Ppc64": "Ppc64", "Sparc": "Sparc", "Arm": "Arm", "Arm64": "Arm64",
            "Mips": "Mips", "Mips64": "Mips64"}
FAMILIES = ["MacGeneral", "MacBadAccessKern", "MacBadAccessArm", "MacBadAccessPpc", "MacBadAccessX86", "MacBadInstructionArm",
            "MacBadInstructionPpc", "MacBadInstructionX86", "MacArithmeticArm", "MacArithmeticPpc", "MacArithmeticX86", "MacSoftware",
            "MacBreakpointArm", "MacBreakpointPpc", "MacBreakpointX86", "MacResource", "MacGuard", "LinuxGeneral", "LinuxSigill",
            "LinuxSigtrap", "LinuxSigbus", "LinuxSigfpe", "LinuxSigsegv", "LinuxSigsys", "WindowsGeneral", "WindowsWinError",
            "WindowsWinErrorWithFacility", "WindowsNtStatus", "WindowsAccessViolation", "WindowsInPageError", "WindowsStackBufferOverrun",
            "WindowsUnknown", "Unknown"]
CALLS = {   # associated functions of CrashReason that are themselves translated
    "from_windows_code": ("reason", "gen_windows_code lk %s", 1), "from_windows_error": ("reason", "gen_windows_error lk %s", 1),
    "from_windows_error_with_facility": ("optreason", "gen_windows_error_with_facility lk %s", 1),
    "from_windows_exception": ("optreason", "gen_windows_exception lk e", 0), "from_mac_exception": ("optreason", "gen_mac_exception lk c e", 0),
    "from_linux_exception": ("optreason", "gen_linux_exception lk e", 0),
}


class Exec:
    def __init__(self, fn):
        self.fn = fn

    def die(self, msg):
        die("%s: %s" % (self.fn, msg))

    def z(self, v):
        if v[0] != "z":
            self.die("expected a number, got %r" % (v,))
        return v[1]

    # evaluate an expression; k(value, env) builds the rest of the tree
    def ev(self, e, env, k):
        t = e[0]
        if t == "num":
            return k(("z", str(e[1])), env)
        if t == "path":
            segs = e[1]
            if len(segs) == 1:
                if segs[0] == "None":
                    return k(("none",), env)
                if segs[0] not in env:
                    self.die("unknown name %s" % segs[0])
                return k(env[segs[0]], env)
            if len(segs) >= 2 and segs[-2] in enums:
                return k(("z", str(enum_const(segs[-2], segs[-1]))), env)
            if len(segs) == 2 and segs[0] == "Os" and segs[1] in OS_CTOR:
                return k(("ctor", OS_CTOR[segs[1]]), env)
            if len(segs) == 2 and segs[0] == "Cpu" and segs[1] in CPU_CTOR:
                return k(("ctor", CPU_CTOR[segs[1]]), env)
            if len(segs) == 2 and segs[0] == "PointerWidth" and segs[1] in PW_CTOR:
                return k(("ctor", PW_CTOR[segs[1]]), env)
            self.die("unknown path %s" % "::".join(segs))
        if t == "field":
            return self.ev(e[1], env, lambda v, env2: k(self.field(v, e[2]), env2))
        if t == "index":
            def idx(v, env2):
                if v != ("info",) or e[2][0] != "num" or e[2][1] > 2:
                    self.die("unsupported index expression")
                return k(("z", "e_info%d e" % e[2][1]), env2)
            return self.ev(e[1], env, idx)
        if t == "try":
            def tr(v, env2):
                if v[0] == "member":
                    return ("if", "lk %s (%s)" % (ENUM_COQ[v[1]], v[2]), k(("z", v[2]), env2), ("leaf", ("none",)))
                self.die("`?` on %r" % (v,))
            return self.ev(e[1], env, tr)
        if t == "cast":
            def cs(v, env2):
                if e[2] == "u32":
                    return k(("z", "wrap32 (%s)" % self.z(v)), env2)
                if e[2] in ("u64", "usize"):
                    return k(("z", self.z(v)), env2)        # widening of an unsigned value
                self.die("cast to %s" % e[2])
            return self.ev(e[1], env, cs)
        if t == "bin":
            op = e[1]
            def l(a, env2):
                def r(b, env3):
                    za, zb = self.z(a), self.z(b)
                    if op == "&":
                        return k(("z", "Z.land (%s) (%s)" % (za, zb)), env3)
                    if op == ">>":
                        return k(("z", "Z.shiftr (%s) (%s)" % (za, zb)), env3)
                    if op == ">=":
                        return k(("b", "(%s <=? %s)" % (zb, za)), env3)
                    if op == "!=":
                        return k(("b", "negb (%s =? %s)" % (za, zb)), env3)
                    if op == "==":
                        return k(("b", "(%s =? %s)" % (za, zb)), env3)
                    self.die("operator %s" % op)
                return self.ev(e[3], env2, r)
            return self.ev(e[2], env, l)
        if t == "tuple":
            def go(i, acc, env2):
                if i == len(e[1]):
                    return k(("tuple", acc), env2)
                return self.ev(e[1][i], env2, lambda v, env3: go(i + 1, acc + [v], env3))
            return go(0, [], env)
        if t == "call":
            return self.call(e, env, k)
        if t == "method":
            return self.method(e, env, k)
        if t == "block":
            return self.block(e[1], 0, self.enter(env), lambda v, env2: k(v, self.leave(env, env2)))
        if t == "if":
            return self.ifx(e, env, k)
        if t == "match":
            return self.matchx(e, env, k)
        self.die("unsupported expression %r" % (t,))

    @staticmethod
    def leave(outer, inner):
        # names declared inside a block disappear (also when they shadow an outer name), assignments to outer names persist
        decl = inner.get("__decl", frozenset())
        return {n: (outer[n] if n in decl or n == "__decl" else inner[n]) for n in outer}

    @staticmethod
    def enter(env, bound=()):
        env2 = dict(env)
        env2["__decl"] = frozenset(bound)
        return env2

    @staticmethod
    def declare(env, names):
        env2 = dict(env)
        env2["__decl"] = env.get("__decl", frozenset()) | frozenset(names)
        return env2

    def field(self, v, name):
        if v in (("raw",), ("self",)) and name in ("exception_record", "raw"):
            return ("rec",) if name == "exception_record" else ("raw",)
        if v == ("rec",) and name == "exception_information":
            return ("info",)
        if v == ("rec",) and name in FIELDS:
            return ("z", FIELDS[name])
        self.die("unknown field .%s of %r" % (name, v))

    def args(self, es, env, k):
        def go(i, acc, env2):
            if i == len(es):
                return k(acc, env2)
            return self.ev(es[i], env2, lambda v, env3: go(i + 1, acc + [v], env3))
        return go(0, [], env)

    def call(self, e, env, k):
        fn = e[1]
        if fn[0] != "path":
            self.die("unsupported call")
        segs = fn[1]
        def done(a, env2):
            if segs == ["Some"] and len(a) == 1:
                return k(("some", a[0]), env2)
            if len(segs) >= 2 and segs[-2] in ENUM_COQ and segs[-1] in ("from_u32", "from_u64") and len(a) == 1:
                return k(("member", segs[-2], self.z(a[0])), env2)
            if segs in (["Os", "Unknown"], ["Cpu", "Unknown"]) and len(a) == 1:
                return k(("ctor", "OsUnknown" if segs[0] == "Os" else "CpuUnknown"), env2)
            if len(segs) >= 2 and segs[-2] in enums and segs[-1] in ("from_u32", "from_u16") and segs[-2] in ("PlatformId", "ProcessorArchitecture") and len(a) == 1:
                return k(("member", segs[-2], self.z(a[0])), env2)
            if len(segs) == 2 and segs[0] in ("Self", "CrashReason") and segs[1] in FAMILIES:
                return k(("reason", "(%s, [%s])" % (segs[1], "; ".join(self.z(x) for x in a))), env2)
            if len(segs) == 2 and segs[0] in ("Self", "CrashReason") and segs[1] in CALLS:
                kind, fmt, n = CALLS[segs[1]]
                if n == 1:
                    return k((kind, fmt % ("(%s)" % self.z(a[0]))), env2)
                if a not in ([("raw",), ("cpu",)],):
                    self.die("unexpected arguments of %s" % segs[1])
                return k((kind, fmt), env2)
            self.die("unknown function %s" % "::".join(segs))
        return self.args(e[2], env, done)

    def method(self, e, env, k):
        name = e[2]
        def recv(v, env2):
            def done(a, env3):
                if name == "unwrap_or" and len(a) == 1 and a[0][0] == "reason":
                    if v == ("none",):
                        return k(a[0], env3)
                    if v[0] == "optreason":
                        return k(("reason", "match %s with Some x => x | None => %s end" % (v[1], a[0][1])), env3)
                if name == "pointer_width" and v == ("cpu",) and not a:
                    return k(("pw",), env3)
                self.die("unknown method .%s on %r" % (name, v))
            return self.args(e[3], env2, done)
        return self.ev(e[1], env, recv)

    def block(self, stmts, i, env, k):
        if i == len(stmts):
            return k(("unit",), env)
        st = stmts[i]
        if st[0] == "let":
            def bind(v, env2):
                env3 = self.declare(env2, [st[1]])
                env3[st[1]] = v
                return self.block(stmts, i + 1, env3, k)
            return self.ev(st[2], env, bind)
        if st[0] == "assign":
            def upd(v, env2):
                if st[1] not in env2:
                    self.die("assignment to the unknown name %s" % st[1])
                env3 = dict(env2)
                env3[st[1]] = v
                return self.block(stmts, i + 1, env3, k)
            return self.ev(st[2], env, upd)
        if st[0] == "return":
            return self.ev(st[1], env, lambda v, env2: ("leaf", v))
        if st[0] == "expr":
            return self.ev(st[1], env, lambda v, env2: self.block(stmts, i + 1, env2, k))
        if st[0] == "tail":
            if i != len(stmts) - 1:
                self.die("tail expression in the middle of a block")
            return self.ev(st[1], env, k)
        self.die("statement %r" % (st[0],))

    def ifx(self, e, env, k):
        _, cond, then, els = e
        def branches(test, bind):
            def tb(env2):
                envt = self.enter(env2, bind)
                envt.update(bind)
                return self.block(then[1], 0, envt, lambda v, env3: k(v, self.leave(env2, env3)))
            def eb(env2):
                if els is None:
                    return k(("unit",), env2)
                return self.block(els[1], 0, self.enter(env2), lambda v, env3: k(v, self.leave(env2, env3)))
            return tb, eb
        if cond[0] == "iflet":
            pat, ex = cond[1], cond[2]
            if not (pat[0] == "pcall" and pat[1] == ["Some"] and len(pat[2]) == 1 and pat[2][0][0] == "pbind"):
                self.die("unsupported `if let` pattern")
            var = pat[2][0][1]
            def got(v, env2):
                if v[0] == "member":
                    tb, eb = branches(None, {var: ("z", v[2])})
                    return ("if", "lk %s (%s)" % (ENUM_COQ[v[1]], v[2]), tb(env2), eb(env2))
                if v[0] == "optreason":
                    tb, eb = branches(None, {var: ("reason", var)})
                    return ("matchopt", v[1], var, tb(env2), eb(env2))
                self.die("`if let Some(..)` on %r" % (v,))
            return self.ev(ex, env, got)
        def got(v, env2):
            if v[0] != "b":
                self.die("condition is not a comparison")
            tb, eb = branches(None, {})
            return ("if", v[1], tb(env2), eb(env2))
        return self.ev(cond, env, got)

    # a pattern as a Coq boolean over the scrutinee value (None = irrefutable)
    def pat_test(self, p, v):
        if p[0] == "pwild":
            return None
        if v == ("os",) and p[0] == "ppath" and p[1][0] == "Os" and p[1][1] in OS_CTOR:
            return "os_eqb o %s" % OS_CTOR[p[1][1]]
        if v[0] == "member" and p[0] == "pcall" and p[1] == ["Some"] and p[2][0][0] == "ppath":
            segs = p[2][0][1]
            if len(segs) == 1:
                segs = [v[1], segs[0]]                       # `use md::ProcessorArchitecture::*`
            if segs[-2] != v[1]:
                self.die("pattern of another enumeration")
            # E::from_uN(x) == Some(E::NAME)  <->  x = value(NAME): NAME is a member of E by construction
            return "(%s =? %d)" % (v[2], enum_const(segs[-2], segs[-1]))
        if v[0] == "reason" and p[0] == "pcall" and len(p[1]) == 2 and p[1][0] == "CrashReason" and p[1][1] in FAMILIES:
            vals = []
            for q in p[2]:
                if q[0] != "ppath" or q[1][-2] not in enums:
                    self.die("unsupported payload pattern")
                vals.append(str(enum_const(q[1][-2], q[1][-1])))
            return "reason_is (%s) %s [%s]" % (v[1], p[1][1], "; ".join(vals))
        if v[0] == "z" and p[0] == "ppath" and len(p[1]) >= 2 and p[1][-2] in enums:
            return "(%s =? %d)" % (v[1], enum_const(p[1][-2], p[1][-1]))
        if v[0] == "tuple" and p[0] == "ptuple" and len(p[1]) == len(v[1]):
            ts = [self.pat_test(q, w) for q, w in zip(p[1], v[1])]
            ts = [t for t in ts if t is not None]
            return " && ".join(ts) if ts else None
        self.die("unsupported pattern %r for %r" % (p, v))

    def matchx(self, e, env, k):
        _, scrut, arms = e
        def got(v, env2):
            def body(b):
                return self.block(b[1], 0, self.enter(env2), lambda val, env3: k(val, self.leave(env2, env3)))
            if v in (("cpu",), ("pw",)):
                out = []
                for pats, guard, b in arms:
                    if guard is not None:
                        self.die("guard in a match on the cpu")
                    if pats == [("pwild",)]:
                        out.append((None, body(b)))
                        continue
                    ctors = []
                    for p in pats:
                        if v == ("cpu",) and p[0] == "ppath" and p[1][0] == "Cpu" and p[1][1] in CPU_CTOR:
                            ctors.append(CPU_CTOR[p[1][1]])
                        elif v == ("cpu",) and p == ("pcall", ["Cpu", "Unknown"], [("pwild",)]):
                            ctors.append("CpuUnknown")
                        elif v == ("pw",) and p == ("ppath", ["PointerWidth", "Bits32"]):
                            ctors.append("W32")
                        else:
                            self.die("unsupported cpu pattern %r" % (p,))
                    out.append((ctors, body(b)))
                if out[-1][0] is not None and sorted(c for cs, _ in out for c in cs) != sorted(list(CPU_CTOR.values()) + ["CpuUnknown"]):
                    self.die("match on the cpu is neither exhaustive nor closed by a wildcard arm")
                return ("matchenum", "c" if v == ("cpu",) else "pointer_width c", out)
            # everything else: a chain of tests in arm order
            def chain(i):
                if i == len(arms):
                    self.die("match without an irrefutable last arm")
                pats, guard, b = arms[i]
                tests = [self.pat_test(p, v) for p in pats]
                if any(t is None for t in tests):
                    if guard is not None:
                        self.die("guard on a wildcard arm")
                    return body(b)
                cond = " || ".join("(%s)" % t for t in tests) if len(tests) > 1 else tests[0]
                if guard is not None:
                    g = []
                    self.ev(guard, env2, lambda gv, _: g.append(gv) or ("leaf", ("unit",)))
                    if len(g) != 1 or g[0][0] != "b":
                        self.die("unsupported guard")
                    cond = "(%s) && %s" % (cond, g[0][1])
                return ("if", cond, body(b), chain(i + 1))
            return chain(0)
        return self.ev(scrut, env, got)


def show_value(v, want, fn):
    if want == "reason":
        if v[0] == "reason":
            return v[1]
    elif want == "optreason":
        if v[0] == "some" and v[1][0] == "reason":
            return "Some (%s)" % v[1][1]
        if v[0] == "none":
            return "None"
        if v[0] == "optreason":
            return v[1]
    elif want == "z" and v[0] == "z":
        return v[1]
    elif want == "ctor" and v[0] == "ctor":
        return v[1]
    die("%s: result %r is not a %s" % (fn, v, want))


def show(t, want, fn, ind):
    pad = "  " * ind
    if t[0] == "leaf":
        return pad + show_value(t[1], want, fn)
    if t[0] == "if":
        return "%sif %s then\n%s\n%selse\n%s" % (pad, t[1], show(t[2], want, fn, ind + 1), pad, show(t[3], want, fn, ind + 1))
    if t[0] == "matchopt":
        return "%smatch %s with\n%s| Some %s =>\n%s\n%s| None =>\n%s\n%send" % (
            pad, t[1], pad, t[2], show(t[3], want, fn, ind + 1), pad, show(t[4], want, fn, ind + 1), pad)
    if t[0] == "matchenum":
        s = "%smatch %s with\n" % (pad, t[1])
        for ctors, sub in t[2]:
            s += "%s| %s =>\n%s\n" % (pad, " | ".join(ctors) if ctors else "_", show(sub, want, fn, ind + 1))
        return s + pad + "end"
    die("tree %r" % (t[0],))


fmt_src = open(os.path.join(repo, "minidump-common/src/format.rs")).read()
for name in ("PlatformId", "ProcessorArchitecture"):
    m = re.search(r"((?:#\[[^\]]*\]\s*)*)pub enum %s\s*\{(.*?)\n\}" % name, fmt_src, re.S)
    if not m or "FromPrimitive" not in m.group(1):
        die("format.rs: enum %s (FromPrimitive) not found" % name)
    ents = {}
    for ent in re.sub(r"//[^\n]*", "", m.group(2)).split(","):
        ent = ent.strip()
        if not ent:
            continue
        mm = re.match(r"^(\w+)\s*=\s*(0x[0-9a-fA-F_]+|[0-9_]+)$", ent)
        if not mm:
            die("format.rs: unrecognised entry %r in %s" % (ent, name))
        ents[mm.group(1)] = int(mm.group(2).replace("_", ""), 0)
    if len(set(ents.values())) != len(ents):
        die("duplicate discriminants in " + name)
    enums[name] = ents


def flag_bits(struct):
    m = re.search(r"pub struct %s\s*:\s*u32\s*\{(.*?)\}" % struct, fmt_src, re.S)
    if not m:
        die("format.rs: bitflags %s not found" % struct)
    out = {}
    for ent in re.sub(r"//[^\n]*", "", m.group(1)).split(";"):
        ent = ent.strip()
        if not ent:
            continue
        mm = re.match(r"^const\s+(\w+)\s*=\s*(?:1\s*<<\s*([0-9]+)|(0x[0-9a-fA-F_]+|[0-9_]+))$", ent)
        if not mm:
            die("format.rs: unrecognised flag %r in %s" % (ent, struct))
        v = 1 << int(mm.group(2)) if mm.group(2) else int(mm.group(3).replace("_", ""), 0)
        if v & (v - 1) or v == 0:
            die("flag %s of %s is not a single bit" % (mm.group(1), struct))
        out[mm.group(1)] = v.bit_length() - 1
    return out


src = open(os.path.join(repo, "minidump/src/minidump.rs")).read()
nows = re.sub(r"\s+", "", re.sub(r"//[^\n]*", "", src))
bp_bits, misc_bits = flag_bits("BreakpadInfoValid"), flag_bits("MiscInfoFlags")
consts = []
# MinidumpBreakpadInfo::read: which validity flag guards which id
if "letflags=md::BreakpadInfoValid::from_bits_truncate(raw.validity);" not in nows:
    die("MinidumpBreakpadInfo::read no longer decodes raw.validity with from_bits_truncate")
for field in ("dump_thread_id", "requesting_thread_id"):
    m = re.search(r"let%s=ifflags\.contains\(md::BreakpadInfoValid::(\w+)\)\{Some\(raw\.%s\)\}else\{None\};" % (field, field), nows)
    if not m or m.group(1) not in bp_bits:
        die("MinidumpBreakpadInfo::read: the guard of %s is not recognised" % field)
    consts.append(("GEN_BP_BIT_%s" % field, bp_bits[m.group(1)]))
# RawMiscInfo accessors: the flag that guards process_id / process_create_time, and how the macro tests it
if "ifmd::MiscInfoFlags::from_bits_truncate(raw.flags1).contains(md::MiscInfoFlags::$flag){Some(&raw.$name)}else{None}" not in nows:
    die("misc_accessors!: the flag-guarded accessor no longer tests from_bits_truncate(raw.flags1).contains($flag)")
for field in ("process_id", "process_create_time"):
    m = re.search(r"1:%s if(\w+)->u32," % field, re.sub(r"[ \t\n]+", "", re.sub(r"//[^\n]*", "", src)).replace("if", " if"))
    if not m or m.group(1) not in misc_bits:
        die("misc_accessors!: the guard of %s is not recognised" % field)
    consts.append(("GEN_MISC_BIT_%s" % field, misc_bits[m.group(1)]))
# MinidumpBreakpadInfo::read / MinidumpMiscInfo::read: the stream must hold the whole (smallest) structure
def u32_struct_size(name):
    mm = re.search(r"pub struct %s \{(.*?)\}" % name, fmt_src, re.S)
    if not mm:
        die("format.rs: struct %s not found" % name)
    fields = [f.strip() for f in re.sub(r"//[^\n]*", "", mm.group(1)).split(",") if f.strip()]
    for f in fields:
        if not re.match(r"^pub \w+: u32$", f):
            die("format.rs: field %r of %s is not a u32" % (f, name))
    return 4 * len(fields)


if "letraw:md::MINIDUMP_BREAKPAD_INFO=bytes.pread_with(0,endian).or(Err(Error::StreamReadFailure))?;" not in nows:
    die("MinidumpBreakpadInfo::read no longer reads one MINIDUMP_BREAKPAD_INFO at offset 0")
if ("ifbytes.len()>=<$t>::size_with(&endian){returnOk(MinidumpMiscInfo{raw:RawMiscInfo::$variant(bytes.pread_with(0,endian).or(Err(Error::StreamReadFailure))?),});}" not in nows
        or "(md::MINIDUMP_MISC_INFO_2,MiscInfo2),(md::MINIDUMP_MISC_INFO,MiscInfo),);Err(Error::StreamReadFailure)}" not in nows):
    die("MinidumpMiscInfo::read: the size ladder ending in MINIDUMP_MISC_INFO is not recognised")
consts.append(("GEN_BREAKPAD_INFO_SIZE", u32_struct_size("MINIDUMP_BREAKPAD_INFO")))
consts.append(("GEN_MISC_INFO_SIZE", u32_struct_size("MINIDUMP_MISC_INFO")))
# MinidumpContext::read: the architectures that have a context reader
ctx_src = open(os.path.join(repo, "minidump/src/context.rs")).read()
i = ctx_src.find("match md::ProcessorArchitecture::from_u16(system_info.raw.processor_architecture) {")
j = ctx_src.find("_ => Err(ContextError::UnknownCpuContext),", i)
if i < 0 or j < 0:
    die("context.rs: MinidumpContext::read's match on the raw architecture not found")
ctx_archs = []
for m in re.finditer(r"(?m)^ {12}((?:Some\(\w+\)\s*\|?\s*)+)=> \{", ctx_src[i:j]):
    for a in re.findall(r"Some\((\w+)\)", m.group(1)):
        ctx_archs.append(enum_const("ProcessorArchitecture", a))
if len(ctx_archs) < 3 or len(set(ctx_archs)) != len(ctx_archs):
    die("context.rs: arms of MinidumpContext::read not recognised")

sysinfo_src = open(os.path.join(repo, "minidump/src/system_info.rs")).read()
PLATFORM_SPEC = [
    ("from_platform_id", "impl Os {", "gen_os_of_platform", "(id : Z)", "os", {"id": ("z", "id")}),
    ("from_processor_architecture", "impl Cpu {", "gen_cpu_of_arch", "(arch : Z)", "cpu", {"arch": ("z", "arch")}),
    ("pointer_width", "impl Cpu {", "gen_pointer_width", "(c : cpu)", "pwidth", {"self": ("cpu",)}),
]
platform_defs = []
for fn, hdr, coqname, binders, ty, env0 in PLATFORM_SPEC:
    sig, body = function_body(sysinfo_src, hdr, fn)
    tree = Exec(fn).block(body[1], 0, dict(env0), lambda v, env: ("leaf", v))
    platform_defs.append("(* %s *)\nDefinition %s %s : %s :=\n%s.\n" % (sig, coqname, binders, ty, show(tree, "ctor", fn, 1)))

SPEC = [   # fn, impl header, Coq name, Coq binders, result kind, initial environment
    ("from_windows_error_with_facility", "impl CrashReason {", "gen_windows_error_with_facility", "(error_code : Z)", "optreason",
     {"error_code": ("z", "error_code")}),
    ("from_windows_error", "impl CrashReason {", "gen_windows_error", "(error_code : Z)", "reason", {"error_code": ("z", "error_code")}),
    ("from_windows_code", "impl CrashReason {", "gen_windows_code", "(exception_code : Z)", "reason",
     {"exception_code": ("z", "exception_code")}),
    ("from_windows_exception", "impl CrashReason {", "gen_windows_exception", "(e : exception)", "optreason", {"raw": ("raw",), "_cpu": ("cpu",)}),
    ("from_mac_exception", "impl CrashReason {", "gen_mac_exception", "(c : cpu) (e : exception)", "optreason", {"raw": ("raw",), "cpu": ("cpu",)}),
    ("from_linux_exception", "impl CrashReason {", "gen_linux_exception", "(e : exception)", "optreason", {"raw": ("raw",), "_cpu": ("cpu",)}),
    ("from_exception", "impl CrashReason {", "gen_from_exception", "(o : os) (c : cpu) (e : exception)", "reason",
     {"raw": ("raw",), "os": ("os",), "cpu": ("cpu",)}),
    ("get_crash_address", "impl<'a> MinidumpException<'a> {", "gen_crash_address", "(o : os) (c : cpu) (e : exception)", "z",
     {"self": ("self",), "os": ("os",), "cpu": ("cpu",)}),
]
defs = []
for fn, hdr, coqname, binders, kind, env0 in SPEC:
    sig, body = function_body(src, hdr, fn)
    ex = Exec(fn)
    tree = ex.block(body[1], 0, dict(env0), lambda v, env: ("leaf", v))
    lkb = "" if fn == "get_crash_address" else "(lk : Z -> Z -> bool) "
    text = show(tree, kind, fn, 1)
    if fn == "get_crash_address" and "lk " in text:
        die("get_crash_address consults an enumeration beyond the constants of its patterns")
    ty = {"reason": "reason", "optreason": "option reason", "z": "Z"}[kind]
    defs.append("(* %s *)\nDefinition %s %s%s : %s :=\n%s.\n" % (sig, coqname, lkb, binders, ty, text))

# ------------------------------------------------------------------------------------------------ processor.rs
# MinidumpInfo::into_process_state: the thread -> CallStack closure, process id / create time, the stack memory of a walk.
# values: ("z", coq) ("nat", coq) ("optz", coq) ("optnat", coq) ("optctx", coq) ("ctxv", coq) ("optname", coq) ("info", ctor)
#         ("frames", coq) ("frame", coq) ("cs", {id,name,info,ctx}) ("tuple", [..]) ("b", coq) ("closure", params, body, env)
#         ("optmem", coq) ("optsp", coq) ("sp", coq) ("optunit", coq) and opaque handles ("selfp",) ("thread",) ...
INFO_CTOR = {"Ok": "CsOk", "DumpThreadSkipped": "CsDumpThreadSkipped", "MissingContext": "CsMissingContext"}


class ExecP(Exec):
    def ev(self, e, env, k):
        t = e[0]
        if t == "path" and len(e[1]) == 2 and e[1][0] == "CallStackInfo" and e[1][1] in INFO_CTOR:
            return k(("info", INFO_CTOR[e[1][1]]), env)
        if t == "path" and e[1] == ["FrameTrust", "Context"]:
            return k(("trust",), env)
        if t == "path" and e[1] == ["UnifiedMemory", "Memory"]:
            return k(("ctorfn",), env)
        if t == "closure":
            return k(("closure", e[1], e[2], env), env)
        if t == "try":
            def tr(v, env2):
                if v[0] == "optmem":
                    return ("matchopt", v[1], "m", k(("mem", "m"), env2), ("leaf", ("none",)))
                self.die("`?` on %r" % (v,))
            return self.ev(e[1], env, tr)
        if t == "not":
            return self.ev(e[1], env, lambda v, env2: k(("b", "negb (%s)" % self.b(v)), env2))
        if t == "bin" and e[1] == "==":
            def l(a, env2):
                def r(b, env3):
                    if a[0] == "optz" and b[0] == "optz":
                        return k(("b", "optz_eqb (%s) (%s)" % (a[1], b[1])), env3)
                    self.die("== on %r and %r" % (a, b))
                return self.ev(e[3], env2, r)
            return self.ev(e[2], env, l)
        if t == "macro":
            if e[1] != "vec":
                self.die("macro %s!" % e[1])
            def done(a, env2):
                if not a:
                    return k(("frames", "None"), env2)
                if len(a) == 1 and a[0][0] == "frame":
                    return k(("frames", "Some %s" % a[0][1]), env2)
                self.die("vec! of %r" % (a,))
            return self.args(e[2], env, done)
        if t == "struct":
            names = [f for f, _ in e[2]]
            if sorted(names) != ["frames", "info", "last_error_value", "thread_id", "thread_name"]:
                self.die("fields of the CallStack literal: %s" % names)
            def done(a, env2):
                d = dict(zip(names, a))
                if d["frames"][0] != "frames" or d["info"][0] != "info" or d["thread_name"][0] != "optname" or d["thread_id"][0] != "z":
                    self.die("CallStack literal built from %r" % (d,))
                return k(("cs", {"id": d["thread_id"][1], "name": d["thread_name"][1], "info": d["info"][1], "ctx": d["frames"][1]}), env2)
            return self.args([x for _, x in e[2]], env, done)
        return Exec.ev(self, e, env, k)

    def b(self, v):
        if v[0] != "b":
            self.die("expected a boolean, got %r" % (v,))
        return v[1]

    def field(self, v, name):
        table = {
            (("selfp",), "dump_thread_id"): ("optz", "dump_tid d"), (("selfp",), "requesting_thread_id"): ("optz", "req_tid d"),
            (("selfp",), "thread_names"): ("names",), (("selfp",), "dump_system_info"): ("sysarg",), (("selfp",), "misc_info"): ("optmisc",),
            (("selfp",), "linux_proc_status"): ("optstatus",), (("selfp",), "system_info"): ("sysinfo",), (("selfp",), "memory_list"): ("memlist",),
            (("sysinfo",), "cpu"): ("cpuarg",),
            (("thread",), "raw"): ("thraw",), (("thraw",), "thread_id"): ("z", "t_id t"),
            (("stack",), "frames"): ("framesof",),
            (("selft",), "stack"): ("optmem", "t_stack t"), (("selft",), "raw"): ("thraw",), (("thraw",), "stack"): ("thstack",),
            (("thstack",), "start_of_memory_range"): ("sp", "t_sbase t"),
        }
        if (v, name) in table:
            return table[(v, name)]
        if v[0] == "misc" and name == "raw":
            return ("miscraw", v[1])
        if v[0] == "status" and name == "pid":
            return ("z", "status_pid %s" % v[1])
        if v[0] == "ctxframe" and name == "context":
            return ("framectx", v[1])
        self.die("unknown field .%s of %r" % (name, v))

    def call(self, e, env, k):
        fn = e[1]
        segs = fn[1] if fn[0] == "path" else None
        def done(a, env2):
            if segs == ["Some"] and len(a) == 1 and a[0][0] == "z":
                return k(("optz", "Some (%s)" % a[0][1]), env2)
            if segs == ["Some"] and len(a) == 1 and a[0][0] == "mem":
                return k(("optmem", "Some %s" % a[0][1]), env2)
            if segs == ["Some"] and len(a) == 1 and a[0][0] == "nat":
                return k(("optnat", "Some %s" % a[0][1]), env2)
            if segs == ["CallStack", "with_info"] and len(a) == 2 and a[0][0] == "z" and a[1][0] == "info":
                return k(("cs", {"id": a[0][1], "name": "None", "info": a[1][1], "ctx": "None"}), env2)
            if segs == ["StackFrame", "from_context"] and len(a) == 2 and a[0][0] == "ctxv" and a[1] == ("trust",):
                return k(("frame", a[0][1]), env2)
            self.die("unknown function %s%r" % ("::".join(segs or ["?"]), tuple(a)))
        return self.args(e[2], env, done)

    def apply(self, clo, vals, k, env_after):
        _, params, body, cenv = clo
        if len(params) != len(vals):
            self.die("closure arity")
        env2 = dict(cenv)
        env2.update(zip(params, vals))
        return self.ev(body, env2, lambda v, _e: k(v, env_after))

    def method(self, e, env, k):
        name = e[2]
        def recv(v, env2):
            def done(a, env3):
                K = lambda val: k(val, env3)
                if name in ("as_ref", "as_deref", "clone") and not a and v[0] in ("optctx", "optmisc", "optmem", "ctxv"):
                    return K(v)
                if name == "cloned" and not a and v[0] == "optzref":
                    return K(("optz", v[1]))
                if name == "or" and len(a) == 1 and v[0] == a[0][0] and v[0] in ("optz", "optctx", "optmem"):
                    return K((v[0], "%s (%s) (%s)" % ("or_ctx" if v[0] == "optctx" else "or_optz", v[1], a[0][1])))
                if name == "get_name" and v == ("names",) and len(a) == 1 and a[0][0] == "z":
                    return K(("optname", "get_name (d_names d) (%s)" % a[0][1]))
                if name == "map" and v[0] == "optname" and len(a) == 1 and a[0][0] == "closure" and \
                        a[0][2] == ("method", ("path", [a[0][1][0]]), "into_owned", []):
                    return K(v)                                   # Cow -> String: the same name
                if name == "context" and v == ("thread",) and a == [("sysarg",), ("optmisc",)]:
                    return K(("optctx", "tag_ctx FromThread (t_ctx t)"))
                if name == "last_error" and v == ("thread",):
                    return K(("ignored",))
                if name == "process_id" and v[0] == "miscraw" and not a:
                    return K(("optzref", "misc_process_id %s" % v[1]))
                if name == "process_create_time" and v[0] == "misc" and not a:
                    return K(("optz", "misc_create_time %s" % v[1]))
                if name == "map" and v == ("optstatus",) and len(a) == 1 and a[0][0] == "closure":
                    return self.apply(a[0], [("status", "s")], lambda r, e4: k(("optz", "option_map (fun s => %s) (d_status d)" % self.z(r)), e4), env3)
                if name == "map" and v[0] == "optmem" and e[3] == [("path", ["UnifiedMemory", "Memory"])]:
                    return K(v)                                   # wrapping in the UnifiedMemory enum
                if name == "or_else" and v[0] == "optmem" and len(a) == 1 and a[0][0] == "closure" and not a[0][1]:
                    tree = self.ev(a[0][2], dict(a[0][3]), lambda r, _e: ("leaf", r))
                    txt = " ".join(show_p(tree, leaf_optmem, 0).split())
                    return K(("optmem", "or_else_optz (%s) (fun _ => %s)" % (v[1], txt)))
                if name == "stack_memory" and v == ("thread",) and a == [("memlist",)]:
                    return K(("optmem", "thread_stack mems t"))
                if name == "first" and v == ("framesof",) and not a:
                    return K(("optframe",))
                if name == "map" and v == ("optframe",) and len(a) == 1 and a[0][0] == "closure":
                    return self.apply(a[0], [("ctxframe", "f")], lambda r, e4: k(("optsp", "option_map (fun f => %s) frame0" % self.sp(r)), e4), env3)
                if name == "get_stack_pointer" and v[0] == "framectx" and not a:
                    return K(("sp", "c_sp (snd %s)" % v[1]))
                if name == "and_then" and v[0] == "optmem" and len(a) == 1 and a[0][0] == "closure":
                    return self.apply(a[0], [("mem", "memory")], lambda r, e4: k(("optunit", "opt_and_then (%s) (fun memory => %s)" % (v[1], self.unit(r))), e4), env3)
                if name == "get_memory_at_address::<u64>" and v[0] == "mem" and len(a) == 1 and a[0][0] == "sp":
                    return K(("optunit", "get_u64 mems %s (%s)" % (v[1], a[0][1])))
                if name == "is_some" and v[0] == "optunit" and not a:
                    return K(("b", "opt_is_some (%s)" % v[1]))
                if name == "memory_at_address" and v == ("memlist",) and len(a) == 1 and a[0][0] == "sp":
                    return K(("optmem", "mem_at mems (%s)" % a[0][1]))
                self.die("unknown method .%s%r on %r" % (name, tuple(a), v))
            return self.args(e[3], env2, done)
        return self.ev(e[1], env, recv)

    def sp(self, v):
        if v[0] != "sp":
            self.die("expected a stack pointer, got %r" % (v,))
        return v[1]

    def unit(self, v):
        if v[0] != "optunit":
            self.die("expected the result of a memory read, got %r" % (v,))
        return v[1]

    def block(self, stmts, i, env, k):
        if i < len(stmts) and stmts[i][0] == "letpat":
            pat, ex = stmts[i][1], stmts[i][2]
            if pat[0] != "ptuple" or any(q[0] != "pbind" for q in pat[1]):
                self.die("unsupported let pattern")
            def bind(v, env2):
                if v[0] != "tuple" or len(v[1]) != len(pat[1]):
                    self.die("tuple pattern against %r" % (v,))
                env3 = self.declare(env2, [q[1] for q in pat[1]])
                env3.update({q[1]: w for q, w in zip(pat[1], v[1])})
                return self.block(stmts, i + 1, env3, k)
            return self.ev(ex, env, bind)
        if i < len(stmts) and stmts[i][0] == "fassign":
            _, name, fld, ex = stmts[i]
            def upd(v, env2):
                cs = env2.get(name)
                if not cs or cs[0] != "cs" or fld != "thread_name" or v[0] != "optname":
                    self.die("unsupported field assignment %s.%s" % (name, fld))
                env3 = dict(env2)
                env3[name] = ("cs", dict(cs[1], name=v[1]))
                return self.block(stmts, i + 1, env3, k)
            return self.ev(ex, env, upd)
        if i < len(stmts) and stmts[i][0] == "return":
            return self.ev(stmts[i][1], env, lambda v, env2: ("leaf", ("pair", v, env2.get("requesting_thread"))))
        return Exec.block(self, stmts, i, env, k)

    def ifx(self, e, env, k):
        _, cond, then, els = e
        if cond[0] == "iflet":
            pat, ex = cond[1], cond[2]
            if not (pat[0] == "pcall" and pat[1] == ["Some"] and len(pat[2]) == 1 and pat[2][0][0] == "pbind"):
                self.die("unsupported `if let` pattern")
            var = pat[2][0][1]
            def got(v, env2):
                if v[0] == "optctx":
                    scrut, bound = v[1], ("ctxv", var)
                elif v == ("optmisc",):
                    scrut, bound = "d_misc d", ("misc", var)
                elif v[0] == "optsp":
                    scrut, bound = v[1], ("sp", var)
                else:
                    self.die("`if let Some(..)` on %r" % (v,))
                def tb():
                    envt = self.enter(env2, [var])
                    envt[var] = bound
                    return self.block(then[1], 0, envt, lambda val, env3: k(val, self.leave(env2, env3)))
                def eb():
                    if els is None:
                        return k(("unit",), env2)
                    return self.block(els[1], 0, self.enter(env2), lambda val, env3: k(val, self.leave(env2, env3)))
                return ("matchopt", scrut, var, tb(), eb())
            return self.ev(ex, env, got)
        return Exec.ifx(self, e, env, k)


def leaf_optmem(v):
    if v[0] == "none":
        return "None"
    if v[0] != "optmem":
        die("stack memory: result %r" % (v,))
    return v[1]


def show_p(t, leaf, ind):
    pad = "  " * ind
    if t[0] == "leaf":
        return pad + leaf(t[1])
    if t[0] == "if":
        return "%sif %s then\n%s\n%selse\n%s" % (pad, t[1], show_p(t[2], leaf, ind + 1), pad, show_p(t[3], leaf, ind + 1))
    if t[0] == "matchopt":
        return "%smatch %s with\n%s| Some %s =>\n%s\n%s| None =>\n%s\n%send" % (
            pad, t[1], pad, t[2], show_p(t[3], leaf, ind + 1), pad, show_p(t[4], leaf, ind + 1), pad)
    die("tree %r" % (t[0],))


psrc = open(os.path.join(repo, "minidump-processor/src/processor.rs")).read()
i0 = psrc.find("pub async fn into_process_state")
if i0 < 0:
    die("processor.rs: into_process_state not found")
i1 = psrc.find("\n    }\n", i0)
pbody = psrc[i0:]
pnows = re.sub(r"\s+", "", re.sub(r"//[^\n]*", "", pbody))
for need in (   # the locals the closure captures, and where its results go
        "letcrashing_thread_id=self.exception.as_ref().map(|e|e.get_crashing_thread_id());",
        "let(exception_info,exception_context)=matchexception_details{Some(details)=>(Some(details.info),details.context),None=>(None,None),};",
        "letmutrequesting_thread=None;letthreads=self.thread_list.threads.iter().enumerate().map(|(i,thread)|{",
        "}).collect();",
        "time:SystemTime::UNIX_EPOCH+Duration::from_secs(dump.header.time_date_stamp asu64),".replace(" ", ""),
        "letmutstate=ProcessState{process_id,", "process_create_time,", "exception_info,", "requesting_thread,", "threads,",
        "modules:self.modules,", "unloaded_modules:self.unloaded_modules,",
        ".threads.iter_mut().zip(self.thread_list.threads.iter()).enumerate().map(|(i,(stack,thread))|asyncmove{",
        "walk_stack(i,", "stack,stack_memory,modules,system_info,symbol_provider,).await;"):
    if need not in pnows:
        die("into_process_state: expected `%s`" % need)


def braced(text, start):
    j = text.index("{", start)
    depth, k = 0, j
    while True:
        depth += {"{": 1, "}": -1}.get(text[k], 0)
        k += 1
        if depth == 0:
            return text[j:k]


def parse_block(text, what):
    p = P(lex(text), what)
    b = p.block()
    if p.peek()[0] != "eof":
        die("%s: trailing tokens" % what)
    return b


# (a) the closure
m = re.search(r"\.map\(\|\(i, thread\)\| \{", pbody)
if not m:
    die("into_process_state: the thread closure not found")
clo = parse_block(braced(pbody, m.start()), "thread closure")
envc = {"self": ("selfp",), "thread": ("thread",), "i": ("nat", "i"), "requesting_thread": ("optnat", "req"),
        "crashing_thread_id": ("optz", "crash_tid d"), "exception_context": ("optctx", "tag_ctx FromException (exc_ctx d)")}
xp = ExecP("thread closure")
tree_c = xp.block(clo[1], 0, dict(envc), lambda v, env: ("leaf", ("pair", v, env["requesting_thread"])))


def leaf_cs(v):
    if v[0] != "pair" or v[1][0] != "cs" or v[2] is None or v[2][0] != "optnat":
        die("thread closure: result %r" % (v,))
    c = v[1][1]
    return "({| cs_id := %s; cs_name := %s; cs_info := %s; cs_ctx := %s |}, %s)" % (c["id"], c["name"], c["info"], c["ctx"], v[2][1])


# (b) process id / create time
def let_expr(name):
    mm = re.search(r"let %s = " % name, pbody)
    if not mm:
        die("into_process_state: `let %s` not found" % name)
    depth, k = 0, mm.end()
    while not (pbody[k] == ";" and depth == 0):
        depth += {"{": 1, "}": -1, "(": 1, ")": -1}.get(pbody[k], 0)
        k += 1
    return parse_block("{" + pbody[mm.end():k] + "}", name)


def leaf_optz(v):
    if v[0] == "none":
        return "None"
    if v[0] != "optz":
        die("process id / time: result %r" % (v,))
    return v[1]


tree_pid = ExecP("process_id").block(let_expr("process_id")[1], 0, {"self": ("selfp",)}, lambda v, env: ("leaf", v))
tree_ct = ExecP("process_create_time").block(let_expr("process_create_time")[1], 0, {"self": ("selfp",)}, lambda v, env: ("leaf", v))

# (c) the stack memory of a walk
a = pbody.find("let mut stack_memory = thread.stack_memory(memory_list);")
b = pbody.find("walk_stack(", a)
if a < 0 or b < 0:
    die("into_process_state: the stack memory statements not found")
blk = parse_block("{" + pbody[a:b] + "}", "stack memory")
tree_sm = ExecP("stack memory").block(blk[1], 0, {"thread": ("thread",), "memory_list": ("memlist",), "stack": ("stack",)},
                                      lambda v, env: ("leaf", env["stack_memory"]))


def leaf_mem(v):
    if v[0] != "optmem":
        die("stack memory: result %r" % (v,))
    return v[1]


# (e) MinidumpThread::stack_memory, MinidumpMemoryBase::get_memory_at_address
sig_sm, body_sm = function_body(src, "impl<'a> MinidumpThread<'a> {", "stack_memory<'mem>")
tree_ts = ExecP("stack_memory").block(body_sm[1], 0, {"self": ("selft",), "memory_list": ("memlist",)}, lambda v, env: ("leaf", v))
if "pubfnget_memory_at_address<T>(&self,addr:u64)->Option<T>whereT:TryFromCtx<'a,scroll::Endian,[u8],Error=scroll::Error>,{letstart=addr.checked_sub(self.base_address)?asusize;self.bytes.pread_with::<T>(start,self.endian).ok()}" not in nows:
    die("MinidumpMemoryBase::get_memory_at_address: expected checked_sub(base_address)? then pread_with::<T>(start)")

# (f) where the arguments of the translated functions come from
for need in ("letos=Os::from_platform_id(raw.platform_id);letcpu=Cpu::from_processor_architecture(raw.processor_architecture);",
             "pubfnget_crash_reason(&self,os:Os,cpu:Cpu)->CrashReason{CrashReason::from_exception(&self.raw,os,cpu)}",
             "pubfnget_crashing_thread_id(&self)->u32{self.thread_id}",
             "letcontext=location_slice(all,&raw.thread_context).ok();letthread_id=raw.thread_id;Ok(MinidumpException{raw,thread_id,context,endian,})"):
    if need not in nows:
        die("minidump.rs: expected `%s`" % need)
pall = re.sub(r"\s+", "", re.sub(r"//[^\n]*", "", psrc))
for need in ("os:dump_system_info.os,", "cpu:dump_system_info.cpu,",
             "let(dump_thread_id,requesting_thread_id)=ifletOk(info)=breakpad_info{(info.dump_thread_id,info.requesting_thread_id)}else{(None,None)};",
             "letexception=self.exception.as_ref()?;letreason=exception.get_crash_reason(self.system_info.os,self.system_info.cpu);"
             "letaddress=exception.get_crash_address(self.system_info.os,self.system_info.cpu);",
             "letcontext=exception.context(&self.dump_system_info,self.misc_info.as_ref());",
             "letinfo=exception_info.unwrap_or_else(||crate::ExceptionInfo::new(reason,address.into()));Some(ExceptionDetails{info,context,instruction_registers,})",
             "exception_info=Some(crate::ExceptionInfo::with_op_analysis(reason,address.into(),adjusted_address,op_analysis,));",
             "letlinux_proc_status=linux_proc_status.map(LinuxProcStatus::from);"):
    if need not in pall:
        die("processor.rs: expected `%s`" % need)

# (d) thread names (last readable entry of an id wins: BTreeMap::insert in stream order) and the Linux status stream
for need in ("letmutnames=BTreeMap::new();forraw_nameinraw_names{letmutoffset=raw_name.thread_name_rvaasusize;"
             "ifletSome(name)=read_string_utf16(&mutoffset,all,endian){names.insert(raw_name.thread_id,name);}else{",
             "pubfnget_name(&self,thread_id:u32)->Option<Cow<str>>{self.names.get(&thread_id).map(|name|Cow::Borrowed(&**name))}"):
    if need not in nows:
        die("MinidumpThreadNames: expected `%s`" % need)
m = re.search(r"impl<'a>MinidumpLinuxProcStatus<'a>\{pubfniter\(&self\)->implIterator<Item=\(&'aLinuxOsStr,&'aLinuxOsStr\)>\{linux_list_iter\(self\.data,b'(.)'\)\}", nows)
if not m:
    die("MinidumpLinuxProcStatus::iter: linux_list_iter(self.data, b'<sep>') not found")
status_sep = ord(m.group(1))
for need in ("letinput=input.trim_ascii_whitespace();letoutput=input.strip_prefix(b\"\\\"\").and_then(|input|input.strip_suffix(b\"\\\"\")).unwrap_or(input);",
             "input.lines().filter_map(move|line|{line.split_once(separator).map(|(label,val)|(strip_quotes(label),(strip_quotes(val))))})"):
    if need not in nows:
        die("linux_list_iter: expected `%s`" % need)
ps_src = re.sub(r"\s+", "", re.sub(r"//[^\n]*", "", open(os.path.join(repo, "minidump-processor/src/process_state.rs")).read()))
m = re.search(r"letpid=status\.iter\(\)\.find\(\|entry\|entry\.0\.as_bytes\(\)==b\"(\w+)\"\)\.map_or\((\d+),\|key_val\|\{key_val\.1\.to_string_lossy\(\)\.parse::<u32>\(\)\.unwrap_or\((\d+)\)\}\);LinuxProcStatus\{pid\}", ps_src)
if not m:
    die("LinuxProcStatus::from: the Pid lookup is not recognised")
status_key, status_absent, status_bad = m.group(1), int(m.group(2)), int(m.group(3))
sm = re.sub(r"\s+", "", re.sub(r"//[^\n]*", "", open(os.path.join(repo, "minidump/src/strings.rs")).read()))
for need in ("pubfnlines(&self)->implIterator<Item=&LinuxOsStr>{self.split(b'\\n')}",
             "pubfnsplit_once(&self,separator:u8)->Option<(&LinuxOsStr,&LinuxOsStr)>{self.iter().position(|&b|b==separator).map(|idx|{(Self::from_bytes(&self[..idx]),Self::from_bytes(&self[idx+1..]),)})}"):
    if need not in sm:
        die("strings.rs: expected `%s`" % need)

# (g) MinidumpInfo::new: which streams the processor asks the reader for, and what a missing / unreadable stream means:
#     0 = required (`.or(Err(ProcessError::..))?`: processing fails), 1 = optional (`.ok()` / `if let Ok(..)`: treated as absent),
#     2 = optional with an empty default (`.unwrap_or_else(|_| X::default())` / `match .. Err(_) => X::new()`)
m = re.search(r"pub enum MINIDUMP_STREAM_TYPE\s*\{(.*?)\n\}", fmt_src, re.S)
if not m:
    die("format.rs: enum MINIDUMP_STREAM_TYPE not found")
stream_types = {}
for ent in re.sub(r"/\*.*?\*/", "", re.sub(r"//[^\n]*", "", m.group(1)), flags=re.S).split(","):
    ent = ent.strip()
    if not ent:
        continue
    mm = re.match(r"^(\w+)\s*=\s*(0x[0-9a-fA-F_]+|[0-9_]+)$", ent)
    if not mm:
        die("format.rs: unrecognised entry %r in MINIDUMP_STREAM_TYPE" % ent)
    stream_types[mm.group(1)] = int(mm.group(2).replace("_", ""), 0)
reader_type = dict(re.findall(r"impl(?:<'a>)?MinidumpStream<'(?:a|_)>for(\w+)(?:<'a>)?\{constSTREAM_TYPE:u32=MINIDUMP_STREAM_TYPE::(\w+)asu32;", nows))
k0 = pall.find("pubfnnew<T:Deref<Target=[u8]>+'a>(dump:&'aMinidump<'a,T>,options:ProcessorOptions<'a>,)->Result<Self,ProcessError>{")
k1 = pall.find("Ok(MinidumpInfo{", k0)
if k0 < 0 or k1 < 0:
    die("processor.rs: MinidumpInfo::new not found")
new_body = pall[k0:k1]
policy = {}
for var, reader, tail in re.findall(r"let(\w+)=dump\.get_stream::<(\w+)>\(\)((?:\.[^;]*)?);", new_body):
    if re.fullmatch(r"\.or\(Err\(ProcessError::\w+\)\)\?", tail):
        pol = 0
    elif tail == ".ok()" or re.fullmatch(r"\.ok\(\)\.map\(\|info\|info\.raw\)", tail):
        pol = 1
    elif tail == ".unwrap_or_default()" or tail == ".unwrap_or_else(|_|%s::default())" % reader:
        pol = 2
    elif tail == "" and var == "breakpad_info":
        pol = 1          # `if let Ok(info) = breakpad_info {..} else {(None, None)}` is pinned above
    else:
        die("MinidumpInfo::new: unrecognised treatment `%s` of get_stream::<%s>" % (tail, reader))
    policy[reader] = pol
for var, reader in re.findall(r"let(\w+)=matchdump\.get_stream::<(\w+)>\(\)\{Ok\(module_list\)=>module_list,Err\(_\)=>\2::new\(\),\};", new_body):
    policy[reader] = 2
if new_body.count("get_stream::<") != len(policy):
    die("MinidumpInfo::new: %d get_stream calls, %d recognised" % (new_body.count("get_stream::<"), len(policy)))
if "letmemory_list=dump.get_memory().unwrap_or_default();" not in new_body:
    die("MinidumpInfo::new: expected `let memory_list = dump.get_memory().unwrap_or_default();`")
policy_rows = []
for reader, pol in policy.items():
    if reader not in reader_type or reader_type[reader] not in stream_types:
        die("no STREAM_TYPE found for reader %s" % reader)
    policy_rows.append((stream_types[reader_type[reader]], pol, reader))

pout = "\n".join([
    "(* GENERATED by translate/c14_reason.py from minidump-processor/src/processor.rs (MinidumpInfo::into_process_state) - do not edit *)",
    "From Coq Require Import ZArith List Bool.", "From RM Require Import C14.Model.", "Import ListNotations.", "Open Scope Z_scope.", "",
    "(* the .map(|(i, thread)| ..) closure; req = the captured `requesting_thread` before this iteration *)",
    "Definition gen_one_thread (d : dump) (i : nat) (t : thread) (req : option nat) : callstack * option nat :=",
    show_p(tree_c, leaf_cs, 1) + ".", "",
    "Definition gen_process_id (d : dump) : option Z :=", show_p(tree_pid, leaf_optz, 1) + ".", "",
    "Definition gen_process_create_time (d : dump) : option Z :=", show_p(tree_ct, leaf_optz, 1) + ".", "",
    "(* the memory handed to walk_stack; frame0 = stack.frames.first() *)",
    "Definition gen_choose_stack (mems : list (Z * Z)) (t : thread) (frame0 : option (ctxsrc * ctx)) : option Z :=",
    show_p(tree_sm, leaf_mem, 1) + ".", "",
    "(* %s *)" % sig_sm,
    "Definition gen_thread_stack (mems : list (Z * Z)) (t : thread) : option Z :=", show_p(tree_ts, leaf_optmem, 1) + ".", "",
    "(* /proc/self/status: separator of linux_list_iter, the key LinuxProcStatus::from looks for (first match), the values for `absent` / `unparseable` *)",
    "Definition GEN_STATUS_SEP : Z := %d." % status_sep,
    "Definition GEN_STATUS_KEY : list Z := [%s]." % "; ".join(str(ord(ch)) for ch in status_key),
    "Definition GEN_STATUS_ABSENT : Z := %d." % status_absent, "Definition GEN_STATUS_UNPARSEABLE : Z := %d." % status_bad, "",
    "(* MinidumpInfo::new: (stream type, treatment of a missing / unreadable stream: 0 required, 1 optional -> None, 2 optional -> empty default), in the order of the get_stream calls *)",
    "Definition GEN_STREAM_POLICY : list (Z * Z) :=\n  [%s]." % ";\n   ".join("(%d, %d) (* %s *)" % r for r in policy_rows), ""])
ppath = os.path.join(outdir, "C14Process.v")
try:
    same = open(ppath).read() == pout
except OSError:
    same = False
if not same:
    os.makedirs(outdir, exist_ok=True)
    open(ppath, "w").write(pout)

# ------------------------------------------------------------------------------------------------ Display for CrashReason
# the literal text in front of `{ex:?}` for every variant rendered as "<literal><Debug name of its payload>"
k0 = src.find("impl fmt::Display for CrashReason {")
k1 = src.find("\nimpl", k0 + 10)
if k0 < 0:
    die("impl fmt::Display for CrashReason not found")
disp = src[k0:k1]
display = re.findall(r"\b(\w+)\(ex\) => write!\(f, \"([^\"{}]*)\{ex:\?\}\"\),", disp)
SIMPLE = ["MacBadAccessKern", "MacBadAccessArm", "MacBadAccessPpc", "MacBadAccessX86", "MacBadInstructionArm", "MacBadInstructionPpc",
          "MacBadInstructionX86", "MacArithmeticArm", "MacArithmeticPpc", "MacArithmeticX86", "MacSoftware", "MacBreakpointArm",
          "MacBreakpointPpc", "MacBreakpointX86", "LinuxSigill", "LinuxSigtrap", "LinuxSigbus", "LinuxSigfpe", "LinuxSigsegv", "LinuxSigsys",
          "WindowsGeneral", "WindowsAccessViolation"]
if [d[0] for d in display] != SIMPLE:
    die("Display for CrashReason: the `Variant(ex) => write!(f, \"..{ex:?}\")` arms are %s" % [d[0] for d in display])
for lit in ('WindowsUnknown(code) => write!(f, "unknown {code:#010x}"),', 'Unknown(code, flags) => write!(f, "unknown {code:#010x} / {flags:#010x}"),',
            'MacGeneral(ex, flags) => write!(f, "{ex:?} / {flags:#010x}"),', 'write!(f, "EXCEPTION_STACK_BUFFER_OVERRUN / ")?;',
            'MacGeneral(err::ExceptionCodeMac::SIMULATED, _) => write!(f, "Simulated Exception"),',
            'WindowsGeneral(err::ExceptionCodeWindows::OUT_OF_MEMORY) => write!(f, "Out of Memory"),'):
    if lit not in disp:
        die("Display for CrashReason: expected `%s`" % lit)

# ------------------------------------------------------------------------------------------------ output
out = ["(* GENERATED by translate/c14_reason.py from minidump/src/minidump.rs and minidump-common/src/errors/*.rs - do not edit *)",
       "From Coq Require Import ZArith List Bool.", "From RM Require Import Base.Word C14.Types.", "Import ListNotations.",
       "Open Scope Z_scope.", ""]
CH = 200
for name in ENUM_COQ:
    vals = list(enums[name].values())
    if len(vals) <= CH:
        out.append("Definition MEM_%s : list Z := [%s]." % (name, "; ".join(map(str, vals))))
    else:
        parts = []
        for j in range(0, len(vals), CH):
            parts.append("MEM_%s_%d" % (name, j // CH))
            out.append("Definition %s : list Z := [%s]." % (parts[-1], "; ".join(map(str, vals[j:j + CH]))))
        out.append("Definition MEM_%s : list Z := %s." % (name, " ++ ".join(parts)))
out.append("")
out.append("Definition gen_mem (tbl : list Z) (v : Z) : bool := existsb (Z.eqb v) tbl.")
out.append("Definition gen_lk (en v : Z) : bool :=")
for name, cn in ENUM_COQ.items():
    out.append("  if en =? %s then gen_mem MEM_%s v else" % (cn, name))
out.append("  false.")
out.append("")
out.append("(* the constants the refinement arms are keyed on, through the enumeration tables *)")
for en, var in (("ExceptionCodeWindows", "EXCEPTION_ACCESS_VIOLATION"), ("ExceptionCodeWindows", "EXCEPTION_IN_PAGE_ERROR"),
                ("NtStatusWindows", "STATUS_STACK_BUFFER_OVERRUN")):
    out.append("Definition GEN_%s : Z := %d." % (var, enum_const(en, var)))
out.append("")
out += defs
out.append("(* Display for CrashReason: the literal in front of the Debug name of the payload *)")
out.append("Definition GEN_DISPLAY : list (family * list Z) :=\n  [%s]." % ";\n   ".join(
    "(%s, [%s]) (* %s *)" % (v, "; ".join(str(ord(ch)) for ch in lit), lit) for v, lit in display))
out.append("")
out.append("(* ---- platform tables (minidump/src/system_info.rs, minidump-common/src/format.rs, minidump/src/context.rs) *)")
out += platform_defs
out.append("(* MinidumpContext::read has an arm for these raw architectures *)")
out.append("Definition gen_arch_has_context (a : Z) : bool := existsb (Z.eqb a) [%s]." % "; ".join(map(str, ctx_archs)))
out.append("(* bit numbers: BreakpadInfoValid flag guarding each id (MinidumpBreakpadInfo::read), MiscInfoFlags flag guarding each accessor *)")
for n, v in consts:
    out.append("Definition %s : Z := %d." % (n, v))
text = "\n".join(out) + "\n"
path = os.path.join(outdir, "C14Reason.v")
os.makedirs(outdir, exist_ok=True)
try:
    if open(path).read() == text:
        sys.exit(0)
except OSError:
    pass
open(path, "w").write(text)
