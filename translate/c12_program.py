#!/usr/bin/env python3
"""Translator for C12 (round 5): the BODIES of the once-per-key code -> coq/Gen/C12Program.v, as a program of
coq/C12/ProgModel.v's instruction set.

usage: c12_program.py <repo> <outdir>

Reads breakpad-symbols/src/lib.rs and http.rs (non-test code) and emits `src_program : program`:
  p_get           CachedAsyncResult::get, statement by statement (ILockAwait / IIfNone [..] / IStoreCallAwait /
                  IReturnClone / IUnlock),
  p_sym_closure   the closure Symbolizer::get_symbols passes to get (IRequestedInc / ISupplierAwait / IRetryIf v /
                  IProcessedInc / IStatsNew / IStatsClassify / ILeafKey / IStatsInsert / IReturnResult), after checking
                  that get_symbols is `self.symbols.cache_default(module_key(module)).get(|| async {..}).await`,
  p_file_closure  the closure of HttpSymbolSupplier::locate_file_internal (IFileClosure: local lookup, fetch per
                  server, NotFound; must not touch a slot map, the counters or the stats), after checking the wrapper,
  p_entry         fill_symbol / walk_frame (IGetSymbolsAwait; IUseResult  or, with a non-waiting probe, IProbeElseGet),
                  get_symbol_at_address (ICall EFill), HttpSymbolSupplier::locate_file (ILocateFileInternalAwait;
                  IUseResult); Symbolizer::get_file_path must be the plain delegation to supplier.locate_file.
Statements of an entry point that touch neither `self` nor an `.await` are pure functions of the awaited result: a
run of them after the await is ONE IUseResult; before the first await they are dropped.
C12/ProgSource.v proves the theorems of C12 for the interpreter running THIS program; they go through only while it is
the program C12/Model.v was written from.  Aborts on any statement it has no instruction for."""
import importlib.util
import os
import re
import sys

_here = os.path.dirname(os.path.abspath(__file__))
_spec = importlib.util.spec_from_file_location("c12_structure", os.path.join(_here, "c12_structure.py"))
S = importlib.util.module_from_spec(_spec)
_spec.loader.exec_module(S)


def die(msg):
    print("c12_program.py: ABORT: " + msg, file=sys.stderr)
    sys.exit(1)


VARIANT = {"NotFound": "ONotFound", "MissingDebugFileOrId": "OMissing", "LoadError": "OLoad", "ParseError": "OParse"}


def block_of(stmt, what):
    """the `{..}` block that ends a squashed statement -> its inner text"""
    i = stmt.index("{")
    j = S.match_close(stmt, i)
    if j != len(stmt) - 1:
        die("%s: trailing text after the block: %s" % (what, stmt[j + 1:j + 80]))
    return stmt[i + 1:j]


def get_instrs(stmts, what):
    out = []
    for s in stmts:
        if re.match(r"^letmutguard=self\.inner\.lock\(\)\.await;$", s):
            out.append("ILockAwait")
        elif re.match(r"^ifguard\.is_none\(\)\{", s):
            inner = S.statements(block_of(s, what))
            out.append("IIfNone [" + "; ".join(get_instrs(inner, what + " (if guard.is_none())")) + "]")
        elif re.match(r"^\*guard=Some\(Arc::new\(f\(\)\.await\)\);?$", s):
            out.append("IStoreCallAwait")
        elif re.match(r"^guard\.as_ref\(\)\.unwrap\(\)\.clone\(\)$", s):
            out.append("IReturnClone")
        elif re.match(r"^(drop\(guard\)|std::mem::drop\(guard\));$", s):
            out.append("IUnlock")
        else:
            die("%s: no instruction for statement: %s" % (what, s[:200]))
    return out


def closure_instrs(stmts, what):
    out = []
    for s in stmts:
        if re.match(r"^trace!\(.*\);$", s):
            continue
        if re.match(r"^self\.pending_stats\.lock\(\)\.unwrap\(\)\.symbols_requested\+=1;$", s):
            out.append("IRequestedInc")
        elif re.match(r"^let(mut)?result=self\.supplier\.locate_symbols\(module\)\.await;$", s):
            out.append("ISupplierAwait")
        elif re.match(r"^self\.pending_stats\.lock\(\)\.unwrap\(\)\.symbols_processed\+=1;$", s):
            out.append("IProcessedInc")
        elif re.match(r"^letmutstats=SymbolStats::default\(\);$", s):
            out.append("IStatsNew")
        elif re.match(r"^match&result\{.*\}$", s):
            out.append("IStatsClassify")
        elif re.match(r"^letkey=leafname\(module\.code_file\(\)\.as_ref\(\)\)\.to_string\(\);$", s):
            out.append("ILeafKey")
        elif re.match(r"^self\.stats\.lock\(\)\.unwrap\(\)\.insert\(key,stats\);$", s):
            out.append("IStatsInsert")
        elif re.match(r"^result\.map\(\|r\|r\.symbols\)$", s):
            out.append("IReturnResult")
        else:
            m = re.match(r"^ifletErr\(SymbolError::([A-Za-z]+)(?:\([^)]*\))?\)=&?result\{(.*)\}$", s)
            if m and m.group(1) in VARIANT:
                inner = [x for x in S.statements(m.group(2)) if not re.match(r"^trace!\(.*\);$", x)]
                if inner == ["result=self.supplier.locate_symbols(module).await;"]:
                    out.append("IRetryIf " + VARIANT[m.group(1)])
                    continue
            die("%s: no instruction for statement: %s" % (what, s[:200]))
    return out


PROBE_RE = (r"^letcached_sym=matchself\.symbols\.cache_default\(module_key\(module\)\)\.probe\(\)\{"
            r"Some\(Some\(([a-z_]+)\)\)=>\1,Some\(None\)=>self\.get_symbols\(module\)\.await,"
            r"None=>\{(?:trace!\([^;]*\);)?returnNone;\},?\};$")


def is_pure(s):
    return ".await" not in s and not re.search(r"\bself\b", s) and "try_lock" not in s and "probe(" not in s


def entry_instrs(stmts, what, lib):
    out = []
    awaited = False
    for s in stmts:
        if re.match(r"^trace!\(.*\);$", s):
            continue
        if re.match(r"^letcached_sym=self\.get_symbols\(module\)\.await;$", s):
            out.append("IGetSymbolsAwait")
            awaited = True
        elif re.match(PROBE_RE, s):
            m = re.search(r"fn\s+probe\s*\(\s*&self\s*\)[^{]*\{(.*?)\n    \}", lib, re.S)
            if not m or S.squash(m.group(1)) != "self.inner.try_lock().map(|guard|guard.clone())":
                die("%s: probe() is not `self.inner.try_lock().map(|guard| guard.clone())`" % what)
            out.append("IProbeElseGet")
            awaited = True
        elif re.match(r"^self\.fill_symbol\(&k,&mutframe\)\.await\.ok\(\)\?;$", s):
            out.append("ICall EFill")
            awaited = False
        elif re.match(r"^self\.locate_file_internal\(module,file_kind\)\.await\.map\(\|\(path,_url\)\|path\)$", s):
            out += ["ILocateFileInternalAwait", "IUseResult"]
            awaited = False
        elif is_pure(s):
            if awaited:
                out.append("IUseResult")
                awaited = False
        else:
            die("%s: no instruction for statement: %s" % (what, s[:240]))
    return out


def the_fn(src, name, what):
    fs = [b for n, b in S.fns_of(src) if n == name]
    if len(fs) != 1:
        die("%s: expected exactly one fn %s, found %d" % (what, name, len(fs)))
    return fs[0]


def main():
    repo, outdir = sys.argv[1], sys.argv[2]
    lib = S.non_test(S.strip_comments(open(os.path.join(repo, "breakpad-symbols/src/lib.rs")).read()))
    http = S.non_test(S.strip_comments(open(os.path.join(repo, "breakpad-symbols/src/http.rs")).read()))

    if not re.search(r"use\s+futures_util::lock::Mutex\s+as\s+FutMutex\s*;", lib):
        die("FutMutex is not futures_util::lock::Mutex any more (ILockAwait's meaning is that of its MutexLockFuture)")
    if not re.search(r"struct\s+CachedAsyncResult\s*<T,\s*E>\s*\{\s*inner:\s*FutMutex<Option<Arc<Result<T,\s*E>>>>,?\s*\}", lib):
        die("CachedAsyncResult is not { inner: FutMutex<Option<Arc<Result<T, E>>>> }")
    get_body = S.fn_body(lib, r"pub\s+async\s+fn\s+get\s*<'a,\s*F,\s*Fut>\s*\(\s*&self\s*,\s*f:\s*F\s*\)", "CachedAsyncResult::get")
    p_get = get_instrs(S.statements(get_body), "CachedAsyncResult::get")
    # every method of CachedAsyncResult other than get / default / probe would be another way into the slot
    impl = re.search(r"impl<T,\s*E>\s*CachedAsyncResult<T,\s*E>\s*\{", lib)
    if not impl:
        die("impl<T, E> CachedAsyncResult<T, E> not found")
    j = S.match_close(lib, impl.end() - 1)
    methods = [n for n, _ in S.fns_of(lib[impl.end():j])]
    for n in methods:
        if n not in ("get", "probe"):
            die("CachedAsyncResult has a method the program model does not know: " + n)

    raw = S.fn_body(lib, r"async\s+fn\s+get_symbols\s*\(", "Symbolizer::get_symbols")
    sq = S.squash(raw)
    if not re.match(r"^self\.symbols\.cache_default\(module_key\(module\)\)\.get\(\|\|async\{.*\}\)\.await$", sq):
        die("get_symbols is not `self.symbols.cache_default(module_key(module)).get(|| async {..}).await`: " + sq[:200])
    i = raw.index("async", raw.index(".get("))
    i = raw.index("{", i)
    p_sym = closure_instrs(S.statements(raw[i + 1:S.match_close(raw, i)]), "get_symbols closure")

    rawf = S.fn_body(http, r"pub\s+async\s+fn\s+locate_file_internal\s*\(", "locate_file_internal")
    sqf = S.squash(rawf)
    if not re.match(r"^self\.cached_file_paths\.cache_default\(file_key\(module,file_kind\)\)\.get\(\|\|async\{.*\}\)\.await\.as_ref\(\)\.clone\(\)$", sqf):
        die("locate_file_internal is not `self.cached_file_paths.cache_default(file_key(module, file_kind)).get(|| async {..}).await.as_ref().clone()`")
    i = rawf.index("async", rawf.index(".get("))
    i = rawf.index("{", i)
    fst = S.statements(rawf[i + 1:S.match_close(rawf, i)])
    # the closure's statements as a program of C12/FileProg.v's instruction set
    def take(text, table, what):
        out = []
        while text:
            for rx, tag in table:
                m = re.match(rx, text)
                if m:
                    if callable(tag):
                        t, used = tag(text)
                        out.append(t)
                        text = text[used:]
                    else:
                        out.append(tag)
                        text = text[m.end():]
                    break
            else:
                die("%s: no instruction for: %s" % (what, text[:160]))
        return out

    def for_servers(text):
        i = text.index("{")
        j = S.match_close(text, i)
        body = take(text[i + 1:j], [
            (r"letfetch=fetch_lookup\(&self\.client,url,&lookup,&self\.cache,&self\.tmp\)\.await;", "FFetchAwait"),
            (r"ifletOk\(\(path,url\)\)=fetch\{returnOk\(\(path,url\)\);\}", "FIfFetchOkReturn"),
        ], "locate_file_internal closure, for url in &self.urls")
        return "FForServers [" + "; ".join(body) + "]", j + 1

    def cab(text):
        i = text.index("{")
        j = S.match_close(text, i)
        return "FCabCompiledOut", j + 1

    p_file_body = []
    for st in fst:
        if re.match(r"^ifletOk\(path\)=self\.local\.locate_file\(module,file_kind\)\.await\{returnOk\(\(path,None\)\);\}$", st):
            p_file_body.append("FLocalLookupReturn")
        elif re.match(r"^ifletSome\(lookup\)=lookup\(module,file_kind\)\{.*\}$", st):
            i = st.index("{")
            if S.match_close(st, i) != len(st) - 1:
                die("locate_file_internal closure: text after the `if let Some(lookup)` block")
            inner = take(st[i + 1:-1], [
                (r"forurlin&self\.urls\{", for_servers),
                (r"ifcfg!\(feature=\"mozilla_cab_symbols\"\)\{", cab),
            ], "locate_file_internal closure, if let Some(lookup)")
            p_file_body.append("FIfLookup [" + "; ".join(inner) + "]")
        elif st == "Err(FileError::NotFound)":
            p_file_body.append("FNotFound")
        else:
            die("locate_file_internal closure: no instruction for statement: " + st[:200])
    for w in ("cached_file_paths", "pending_stats", "self.symbols", "self.stats", "locate_file_internal"):
        if any(w in x for x in fst):
            die("locate_file_internal closure touches " + w)
    p_file = ["IFileClosure"]

    sym_impl = lib.split("impl Symbolizer", 1)[1]
    e_fill = entry_instrs(S.statements(the_fn(sym_impl, "fill_symbol", "Symbolizer")), "fill_symbol", lib)
    e_walk = entry_instrs(S.statements(the_fn(sym_impl, "walk_frame", "Symbolizer")), "walk_frame", lib)
    e_addr = entry_instrs(S.statements(the_fn(sym_impl, "get_symbol_at_address", "Symbolizer")), "get_symbol_at_address", lib)
    gfp = S.statements(the_fn(sym_impl, "get_file_path", "Symbolizer"))
    if gfp != ["self.supplier.locate_file(module,file_kind).await"]:
        die("get_file_path is not the plain delegation `self.supplier.locate_file(module, file_kind).await`: " + " ".join(gfp)[:200])
    http_impl = http.split("impl SymbolSupplier for HttpSymbolSupplier", 1)
    if len(http_impl) != 2:
        die("impl SymbolSupplier for HttpSymbolSupplier not found")
    e_file = entry_instrs(S.statements(the_fn(http_impl[1], "locate_file", "HttpSymbolSupplier")), "HttpSymbolSupplier::locate_file", lib)

    # who reaches the slots: every non-test fn that calls get_symbols / locate_file_internal / cache_default / fill_symbol,
    # or looks at an async mutex without waiting
    ways = []
    for fname, src in (("lib.rs", lib), ("http.rs", http)):
        for name, body in S.fns_of(src):
            hit = [w for w in ("get_symbols(", "locate_file_internal(", "cache_default(", "fill_symbol(", "try_lock(", ".probe(")
                   if w in S.squash(body)]
            if hit:
                ways.append((fname, name, hit))

    def lst(items):
        return "[" + "; ".join(items) + "]"

    def q(x):
        return '"' + x + '"'
    o = []
    o.append("(* GENERATED by translate/c12_program.py from breakpad-symbols/src/{lib,http}.rs — do not edit. *)")
    o.append("From RM Require Import C12.ProgModel C12.FileProg.")
    o.append("")
    o.append("(* CachedAsyncResult::get *)")
    o.append("Definition src_get : list instr := %s." % lst(p_get))
    o.append("(* the closure Symbolizer::get_symbols passes to get; get_symbols is")
    o.append("   self.symbols.cache_default(module_key(module)).get(|| async {..}).await *)")
    o.append("Definition src_sym_closure : list instr := %s." % lst(p_sym))
    o.append("(* the closure HttpSymbolSupplier::locate_file_internal passes to get; locate_file_internal is")
    o.append("   self.cached_file_paths.cache_default(file_key(module, file_kind)).get(|| async {..}).await.as_ref().clone() *)")
    o.append("Definition src_file_closure : list instr := %s." % lst(p_file))
    o.append("(* ... and its statements (C12/FileProg.v gives them their meaning: FileModel.file_script) *)")
    o.append("Definition src_file_body : list fins := %s." % lst(p_file_body))
    o.append("(* fill_symbol / walk_frame / get_symbol_at_address / HttpSymbolSupplier::locate_file")
    o.append("   (Symbolizer::get_file_path is `self.supplier.locate_file(module, file_kind).await`) *)")
    o.append("Definition src_entry (e : entry) : list instr :=")
    o.append("  match e with")
    o.append("  | EFill => %s" % lst(e_fill))
    o.append("  | EWalk => %s" % lst(e_walk))
    o.append("  | EAddr => %s" % lst(e_addr))
    o.append("  | EFile => %s" % lst(e_file))
    o.append("  end.")
    o.append("Definition src_program : program :=")
    o.append("  {| p_get := src_get; p_sym_closure := src_sym_closure; p_file_closure := src_file_closure; p_entry := src_entry |}.")
    o.append("(* every non-test fn of lib.rs / http.rs that calls get_symbols, locate_file_internal, cache_default or fill_symbol, or looks")
    o.append("   at an async mutex without waiting: the ways into the slots *)")
    o.append("From Coq Require Import String.")
    o.append("Open Scope string_scope.")
    o.append("Definition src_ways : list (string * string * list string) := [")
    o.append(";\n".join("  (%s, %s, %s)" % (q(f), q(n), lst(q(h) for h in hs)) for f, n, hs in ways))
    o.append("].")
    text = "\n".join(o) + "\n"
    os.makedirs(outdir, exist_ok=True)
    path = os.path.join(outdir, "C12Program.v")
    if not os.path.exists(path) or open(path).read() != text:
        with open(path, "w") as f:
            f.write(text)


if __name__ == "__main__":
    main()
