#!/usr/bin/env python3
"""Translator for C13: every place where the non-test code on the way to the report ITERATES a
HashMap / HashSet, every future combinator that drives the per-thread walks, and the key -> field
table of LinuxStandardBase::from  ->  coq/Gen/C13Sites.v.

usage: c13_sites.py <repo> <outdir>

* hash_iteration_sites: (file, enclosing fn, text) for every `for .. in <hash>`, `<hash>.iter() / .into_iter() /
  .keys() / .values() / .drain() / .retain() / ...`, `.extend(<hash>)` in FILES, where <hash> is a local / parameter /
  closure parameter whose annotation or initialiser is a HashMap / HashSet (shadowing `let`s are followed), a struct
  field declared with such a type (accessed as `x.field`), a name bound by a pattern of a known hash-carrying enum variant
  (HASH_VARIANTS), or the result of a fn declared to return one.  When the
  iteration is collected into a `let` and the NEXT statement sorts that variable, the sort is part of the text: removing
  it changes the generated list.
* concurrency_sites: every join_all / join! / try_join* / buffered / buffer_unordered / FuturesUnordered / FuturesOrdered /
  select* / for_each_concurrent / spawn / JoinSet in FILES, with the head of its argument.
* shared_state_sites: every thread_local! static, `static mut` and static with interior mutability in FILES (state that survives
  from one evaluation / walk / report to the next).
* interior_mutable_sites (round 5): every struct field whose type, and every constructor call `X::new( / X::default(` whose X, is a
  cell that can be written through a shared reference (Mutex / FutMutex / RwLock / Atomic* / RefCell / Cell / Once* / Lazy /
  UnsafeCell / CacheMap) in FILES — statics or not: a budget, counter or cache shared by the per-thread walk futures is one of these.
* walk_future_captures / walk_future_steps / walk_future_interior_mutations (round 5): the closure handed to join_all in
  into_process_state must have the shape `.map(|(i, (stack, thread))| async move { ... })`; listed are (1) every name of the
  enclosing scopes the body uses (the `let`s of the block around the join_all with their initialisers, the fn's parameters, self),
  (2) the top-level statements of the body in order, each with the captured names it uses and whether it awaits — so anything
  'charged' after walk_stack(..).await is a new step, (3) every call of a writing method of a cell (fetch_*, store, swap, lock,
  borrow_mut, set, replace, compare_exchange*, get_or_init ..) inside the body.
* lsb_aliases: the match arms of `impl From<MinidumpLinuxLsbRelease<'_>> for LinuxStandardBase`, which must be a `for (key, val)
  in linux_standard_base.iter()` over the lines in file order whose arms assign `lsb.<field>`.
coq/C13/Sites.v lists the sites the theorems cover and why each is harmless; C13/Properties proves the generated lists equal
to them, so a NEW iteration over a hash container (or a new completion-ordered combinator) breaks a proof obligation.
Aborts on text it cannot delimit."""
import os
import re
import sys

FILES = ["minidump-processor/src/processor.rs", "minidump-processor/src/process_state.rs", "minidump-processor/src/evil.rs",
         "minidump-processor/src/arg_recovery.rs", "minidump-processor/src/op_analysis.rs", "minidump-processor/src/lib.rs",
         "minidump-unwind/src/lib.rs", "minidump-unwind/src/symbols/mod.rs", "minidump-unwind/src/amd64.rs", "minidump-unwind/src/arm.rs",
         "minidump-unwind/src/arm64.rs", "minidump-unwind/src/arm64_old.rs", "minidump-unwind/src/mips.rs", "minidump-unwind/src/x86.rs",
         "minidump-unwind/src/system_info.rs", "breakpad-symbols/src/lib.rs",
         "breakpad-symbols/src/sym_file/walker.rs", "breakpad-symbols/src/sym_file/parser.rs", "breakpad-symbols/src/sym_file/types.rs",
         "breakpad-symbols/src/sym_file/mod.rs",
         # feature-gated code (http / debuginfo-symbols): a supplier and an alternative SymbolProvider
         "breakpad-symbols/src/http.rs", "minidump-unwind/src/symbols/debuginfo.rs",
         # the CpuContext accessors (the trait's valid_registers(&Some(set)) walks the validity HashSet)
         "minidump/src/context.rs"]
MUTABLE_TY = r"RefCell|\bCell<|Mutex|RwLock|Atomic|OnceLock|OnceCell|Lazy|UnsafeCell"
ITER_METHODS = ["iter", "iter_mut", "into_iter", "keys", "values", "values_mut", "drain", "into_keys", "into_values", "retain",
                "par_iter", "into_par_iter"]
COMBINATORS = ["join_all", "try_join_all", "join!", "try_join!", "join", "try_join", "buffer_unordered", "buffered", "FuturesUnordered",
               "FuturesOrdered", "select_all", "select_ok", "select!", "select_biased!", "for_each_concurrent",
               "try_for_each_concurrent", "spawn", "spawn_blocking", "JoinSet", "block_on"]
HASH_TY = r"(?:std::collections::)?Hash(?:Map|Set)\b"
# enum variants (declared outside the scanned files) whose payload is a hash container: a name bound by such a pattern is one
HASH_VARIANTS = ["MinidumpContextValidity::Some"]
# ordered (BTreeMap / BTreeSet) containers are scanned with the same machinery (scan_ordered swaps the two globals above);
# for them a method site is just `receiver.method(` — what is done with an ascending iterator cannot matter
ORDERED_TY = r"(?:std::collections::)?BTree(?:Map|Set)\b"
SHORT_TEXT = False


def die(msg):
    print("c13_sites.py: ABORT: " + msg, file=sys.stderr)
    sys.exit(1)


def strip_comments(src):
    """comments removed; string / char literal contents kept (bracket matching skips them)"""
    out, i, n = [], 0, len(src)
    while i < n:
        c = src[i]
        if c == '"':
            j = i + 1
            while j < n and src[j] != '"':
                j += 2 if src[j] == "\\" else 1
            out.append(src[i:j + 1])
            i = j + 1
        elif src.startswith("//", i):
            j = src.find("\n", i)
            i = n if j < 0 else j
        elif src.startswith("/*", i):
            j = src.find("*/", i)
            if j < 0:
                die("unterminated block comment")
            i = j + 2
        elif c == "'" and i + 2 < n and src[i + 2] == "'":
            out.append(src[i:i + 3])
            i += 3
        elif c == "'" and src[i + 1:i + 2] == "\\" and i + 3 < n and src[i + 3] == "'":
            out.append(src[i:i + 4])
            i += 4
        else:
            out.append(c)
            i += 1
    return "".join(out)


def blank_strings(src):
    """same length, string literal contents replaced by spaces (so that regexes never match inside them)"""
    out, i, n = list(src), 0, len(src)
    while i < n:
        if src[i] == '"':
            j = i + 1
            while j < n and src[j] != '"':
                step = 2 if src[j] == "\\" else 1
                for k in range(j, min(n, j + step)):
                    out[k] = " "
                j += step
            i = j + 1
        elif src[i] == "'" and i + 2 < n and src[i + 2] == "'":
            out[i + 1] = " "
            i += 3
        elif src[i] == "'" and src[i + 1:i + 2] == "\\" and i + 3 < n and src[i + 3] == "'":
            out[i + 1] = out[i + 2] = " "
            i += 4
        else:
            i += 1
    return "".join(out)


def match_close(s, i):
    pairs = {"(": ")", "[": "]", "{": "}"}
    depth, j, n = 0, i, len(s)
    while j < n:
        c = s[j]
        if c in pairs:
            depth += 1
        elif c in ")]}":
            depth -= 1
            if depth == 0:
                return j
        j += 1
    die("unbalanced bracket at offset %d" % i)


def stmt_end(s, i):
    """index of the `;` (or of the `{` that opens a block) ending the statement that contains offset i, at nesting depth 0"""
    depth, j, n = 0, i, len(s)
    while j < n:
        c = s[j]
        if c in "([":
            depth += 1
        elif c in ")]":
            if depth == 0:
                return j
            depth -= 1
        elif c == "{":
            if depth == 0:
                return j
            depth += 1
        elif c == "}":
            if depth == 0:
                return j
            depth -= 1
        elif c == ";" and depth == 0:
            return j
        j += 1
    return n


def norm(t):
    return re.sub(r"\s+", "", t)


def path_start(s, end):
    """walk back from `end` (exclusive) over an access path  a.b.c / self.x / f(..).y / x?  ; returns its start"""
    j = end
    while j > 0:
        c = s[j - 1]
        if c.isalnum() or c in "_.?":
            j -= 1
        elif c == ":" and j >= 2 and s[j - 2] == ":":
            j -= 2
        elif c in ")]":
            op = {")": "(", "]": "["}[c]
            depth, k = 0, j - 1
            while k >= 0:
                if s[k] == c:
                    depth += 1
                elif s[k] == op:
                    depth -= 1
                    if depth == 0:
                        break
                k -= 1
            if k < 0:
                die("unbalanced receiver")
            j = k
        elif c in " \n\t" and s[j:end + 1].lstrip().startswith("."):
            # method chains are written `x\n    .iter()`
            k = j
            while k > 0 and s[k - 1] in " \n\t":
                k -= 1
            if k > 0 and (s[k - 1].isalnum() or s[k - 1] in "_)]?"):
                j = k
            else:
                break
        else:
            break
    return j


class Scan:
    def __init__(self, path, label):
        self.label = label
        src = strip_comments(open(path).read())
        cut = len(src)
        for m in re.finditer(r"\n\s*#\[(test|cfg\(test\))\]", src):
            cut = min(cut, m.start())
        self.src = src[:cut]
        self.s = blank_strings(self.src)
        self.depth = []
        d = 0
        for c in self.s:
            if c == "}":
                d -= 1
            self.depth.append(d)
            if c == "{":
                d += 1
        self.fns = [(m.start(), m.group(1)) for m in re.finditer(r"\bfn\s+(\w+)", self.s)]
        # body span of every fn that has one: the first `{` after the signature's parameter list
        self.fn_spans = []
        for p, n in self.fns:
            op = self.s.find("(", p)
            if op < 0:
                continue
            j = match_close(self.s, op) + 1
            while j < len(self.s) and self.s[j] not in "{;":
                j += 1
            if j < len(self.s) and self.s[j] == "{":
                self.fn_spans.append((j, match_close(self.s, j), n))
        # fns declared to return a hash container
        self.hash_fns = set()
        for m in re.finditer(r"\bfn\s+(\w+)", self.s):
            e = stmt_end(self.s, self.s.find("(", m.end()))     # up to the body `{` or the `;` of a trait method
            sig = self.s[m.end():self.s.find("{", m.end()) if self.s.find("{", m.end()) >= 0 else len(self.s)]
            sig = sig.split(" where ")[0].split("\nwhere")[0]
            if re.search(r"->[^{;]*" + HASH_TY, sig):
                self.hash_fns.add(m.group(1))
        # struct fields with a hash type
        self.fields = set()
        for m in re.finditer(r"\bstruct\s+\w+[^;{(]*\{", self.s):
            op = m.end() - 1
            cl = match_close(self.s, op)
            for f in re.finditer(r"\b(\w+)\s*:\s*(?:Option<\s*)?" + HASH_TY + r"\s*<", self.s[op:cl]):
                self.fields.add(f.group(1))
            self.struct_spans = getattr(self, "struct_spans", []) + [(op, cl)]
        if not hasattr(self, "struct_spans"):
            self.struct_spans = []

    def fn_at(self, pos):
        """the outermost-but-one enclosing fn: `method` or `method/nested`"""
        inside = [(a, n) for a, b, n in self.fn_spans if a < pos < b]
        inside.sort()
        return "/".join(n for _, n in inside) or "?"

    def in_struct(self, pos):
        return any(a < pos < b for a, b in self.struct_spans)


def scan_file(path, label, all_fields, all_hash_fns):
    sc = Scan(path, label)
    s = sc.s
    fields = all_fields
    hash_fns = all_hash_fns
    # ---- events that change the set of hash-typed local names, in text order
    events = []
    for p, n in sc.fns:
        if sc.depth[p] <= 1:
            events.append((p, "reset", None, None))
    for m in re.finditer(r"\b(\w+)\s*:\s*&?\s*(?:'\w+\s+)?(?:mut\s+)?(?:Cow<\s*(?:'\w+\s*,\s*)?)?" + HASH_TY + r"\s*<", s):
        if not sc.in_struct(m.start()) and not s[:m.start()].rstrip().endswith("let") and not re.search(r"\blet\s+(mut\s+)?$", s[:m.start()]):
            events.append((m.start(), "bind", m.group(1), True))
    for v in HASH_VARIANTS:
        for m in re.finditer(re.escape(v) + r"\(\s*(?:ref\s+)?(?:mut\s+)?(\w+)\s*\)", s):
            if m.group(1) != "_":
                events.append((m.end(), "bind", m.group(1), True))
    for m in re.finditer(r"\blet\s+(?:mut\s+)?(\w+)\s*(:[^=;]+)?=(?!=)", s):
        name, ann = m.group(1), m.group(2)
        e = stmt_end(s, m.end())
        rhs = s[m.end():e].strip()
        if ann is not None:
            is_hash = re.search(HASH_TY + r"\s*<", ann) is not None and not re.match(r":\s*(Vec|Option<\s*Vec|\[|&\[)", ann)
        else:
            is_hash = rhs_is_hash(rhs, hash_fns, fields)
        events.append((e, "bind", name, is_hash if is_hash is not None else ("alias", rhs)))
    events.sort(key=lambda x: x[0])

    def hash_names_at(pos):
        names = set()
        for p, kind, name, val in events:
            if p >= pos:
                break
            if kind == "reset":
                names = set()
            elif val is True:
                names.add(name)
            elif val is False:
                names.discard(name)
            else:
                src_name = re.sub(r"^&(mut\s+)?", "", val[1])
                src_name = re.sub(r"\.clone\(\)$", "", src_name).strip()
                m2 = re.match(r"std::mem::take\(&mut\s+(\w+)\)$", src_name)
                if m2:
                    src_name = m2.group(1)
                if src_name in names:
                    names.add(name)
                else:
                    names.discard(name)
        return names

    def is_hash_expr(expr, pos):
        """expr: an access path (already without the iteration method)"""
        e = norm(expr)
        e = re.sub(r"^&(mut)?", "", e)
        while e.startswith("(") and e.endswith(")") and match_close(e, 0) == len(e) - 1:
            e = re.sub(r"^&(mut)?", "", e[1:-1])
        e = re.sub(r"(\.clone\(\)|\.as_ref\(\)|\.as_mut\(\)|\?|\.unwrap\(\)|\.borrow\(\)|\.lock\(\)|\.await)+$", "", e)
        if re.fullmatch(r"\w+", e):
            return e in hash_names_at(pos)
        m = re.search(r"\.(\w+)$", e)
        if m and m.group(1) in fields:
            return True
        m = re.search(r"(?:^|\.|::)(\w+)\([^()]*\)$", e)
        if m and m.group(1) in hash_fns:
            return True
        return False

    sites = []
    seen = set()

    def add(pos, text):
        key = (pos,)
        if key in seen:
            return
        seen.add(key)
        sites.append((pos, (label, sc.fn_at(pos), text)))

    def with_sort(pos_stmt_start, e, text):
        """if the statement is `let [mut] X = ...;` and the next statement sorts X, append it"""
        m = re.match(r"\s*let\s+(?:mut\s+)?(\w+)\b", s[pos_stmt_start:])
        if m and e < len(s) and s[e] == ";":
            e2 = stmt_end(s, e + 1)
            nxt = norm(sc.src[e + 1:e2])
            if re.match(re.escape(m.group(1)) + r"\.sort(_unstable)?(_by|_by_key|_by_cached_key)?\(", nxt):
                return text + ";" + nxt
        return text

    def stmt_start(pos):
        j = pos
        while j > 0 and s[j - 1] not in ";{}":
            j -= 1
        return j

    # (a) for loops
    for m in re.finditer(r"\bfor\s", s):
        e = m.end()
        # find ` in ` at depth 0
        depth, j = 0, e
        inpos = -1
        while j < len(s):
            c = s[j]
            if c in "([{":
                depth += 1
            elif c in ")]}":
                depth -= 1
                if depth < 0:
                    break
            elif depth == 0 and re.match(r"\sin\s", s[j:j + 4]):
                inpos = j
                break
            elif c == ";":
                break
            j += 1
        if inpos < 0:
            continue                      # `for<'de>` bounds, `impl X for Y`
        body = stmt_end(s, inpos + 4)
        if body >= len(s) or s[body] != "{":
            continue
        expr = s[inpos + 4:body].strip()
        recv = re.sub(r"\.\s*(%s)\s*\(\s*\)\s*$" % "|".join(ITER_METHODS), "", expr)
        if is_hash_expr(recv, m.start()):
            add(m.start(), norm(sc.src[m.start():body]))
    # (b) iteration methods
    for m in re.finditer(r"\.\s*(%s)\s*\(" % "|".join(ITER_METHODS), s):
        r0 = path_start(s, m.start())
        recv = s[r0:m.start()]
        if not recv.strip():
            continue
        if is_hash_expr(recv, r0):
            st = stmt_start(r0)
            if re.match(r"\s*for\s", s[st:]) and any(p == st + len(s[st:]) - len(s[st:].lstrip()) for p, _ in sites):
                continue
            e = stmt_end(s, m.end() + 0) if False else None
            # the whole statement (capped), so that what is done with the iterator is part of the text
            cl = match_close(s, s.find("(", m.start()))
            e = stmt_end(s, cl + 1)
            text = norm(sc.src[st:e])
            if re.match(r"for\w*\(|for\(", text) or text.startswith("for"):
                # already listed as a for loop over the same receiver
                if any(t[1][2] == text for t in sites):
                    continue
            if SHORT_TEXT:
                add(r0, norm(sc.src[r0:m.end()]))
                continue
            add(r0, with_sort(st, e, text[:300]))
    # (c) .extend(<hash>) / from_iter(<hash>)
    for m in re.finditer(r"(\.\s*extend|::from_iter|Vec::from)\s*\(", s):
        op = s.find("(", m.start())
        cl = match_close(s, op)
        arg = s[op + 1:cl]
        if is_hash_expr(arg, m.start()):
            st = stmt_start(m.start())
            add(m.start(), norm(sc.src[st:stmt_end(s, cl + 1)])[:300])
    sites.sort(key=lambda x: x[0])
    # ---- concurrency combinators
    conc = []
    for m in re.finditer(r"(?<![\w])(%s)\s*(?:::<[^>]*>\s*)?(\(|::new|::with_capacity|!)" % "|".join(re.escape(c.rstrip("!")) for c in sorted(set(COMBINATORS), key=len, reverse=True)), s):
        name = m.group(1)
        if re.search(r"\bfn\s+$", s[:m.start()]):
            continue
        if name in ("join", "try_join", "select") and m.group(2) != "!" and not re.search(r"(future|futures|futures_util|tokio)::\s*$|::\s*$", s[:m.start()]):
            continue      # slice/path .join(..) is not a future combinator
        if name in ("join", "try_join") and s[m.start() - 1:m.start()] == ".":
            continue
        r0 = m.start()
        while r0 > 0 and (s[r0 - 1].isalnum() or s[r0 - 1] in "_:."):
            r0 -= 1
        op = s.find("(", m.start())
        head = ""
        if op >= 0:
            cl = match_close(s, op)
            arg = norm(sc.src[op + 1:cl])
            k = arg.find(".map(")
            head = arg[:k] if k >= 0 else arg[:160]
        conc.append((label, sc.fn_at(m.start()), norm(sc.src[r0:m.end()]).rstrip("(") + "(" + head))
    # ---- state that outlives one evaluation / one walk: thread_local! statics, `static mut`, statics with interior mutability
    shared = []
    for m in re.finditer(r"\bthread_local!\s*\{", s):
        cl = match_close(s, m.end() - 1)
        for st in re.finditer(r"\bstatic\s+(?:mut\s+)?(\w+)\s*:\s*([^=;]+?)\s*=", s[m.end():cl]):
            shared.append((label, "thread_local " + st.group(1), norm(st.group(2))))
    for m in re.finditer(r"(?m)^\s*(?:pub(?:\([^)]*\))?\s+)?static\s+(mut\s+)?(\w+)\s*:\s*([^=;]+?)\s*=", s):
        if any(a <= m.start() <= b for a, b in [(t.end(), match_close(s, t.end() - 1)) for t in re.finditer(r"\bthread_local!\s*\{", s)]):
            continue
        if m.group(1) or re.search(MUTABLE_TY, m.group(3)):
            shared.append((label, "static " + m.group(2), norm(m.group(3))))
    for m in re.finditer(r"\blazy_static!\s*\{", s):
        shared.append((label, "lazy_static", norm(sc.src[m.end():match_close(s, m.end() - 1)])[:120]))
    return [t for _, t in sites], conc, shared


def scan_ordered(repo):
    """every iteration over a BTreeMap / BTreeSet in FILES (same scan as for the hash containers, with the type pattern
    swapped), and every struct field declared with such a type.  Field names are collected over ALL the scanned crates:
    the printers of minidump-processor iterate public fields of minidump-unwind's StackFrame (so a same-named field of
    another type is listed too and has to be classified in C13/Sites.v: the scan is name based)."""
    global HASH_TY, HASH_VARIANTS, SHORT_TEXT
    saved = (HASH_TY, HASH_VARIANTS, SHORT_TEXT)
    HASH_TY, HASH_VARIANTS, SHORT_TEXT = ORDERED_TY, [], True
    try:
        fields, fns, decls = set(), set(), []
        for f in FILES:
            sc = Scan(os.path.join(repo, f), label_of(f))
            fields |= sc.fields
            fns |= sc.hash_fns
            s = sc.s
            for m in re.finditer(r"\bstruct\s+(\w+)[^;{(]*\{", s):
                op = m.end() - 1
                cl = match_close(s, op)
                for fm in re.finditer(r"\b(\w+)\s*:\s*((?:Option<\s*)?" + ORDERED_TY + r"\s*<[^,\n]*(?:,[^,\n]*>+)?)\s*,?\s*\n", s[op:cl]):
                    decls.append((label_of(f), "struct %s.%s" % (m.group(1), fm.group(1)), norm(fm.group(2)).rstrip(",")))
        sites = []
        for f in FILES:
            a, _, _ = scan_file(os.path.join(repo, f), label_of(f), fields, fns)
            sites += a
        return sites, decls
    finally:
        HASH_TY, HASH_VARIANTS, SHORT_TEXT = saved


def rhs_is_hash(rhs, hash_fns, fields):
    r = norm(rhs)
    if re.match(HASH_TY + r"(::<[^>]*>)?::", r):
        return True
    if re.search(r"\.collect::<" + HASH_TY, r) and re.search(r"\.collect::<" + HASH_TY + r".*>\(\)\??$", r):
        return True
    m = re.search(r"(?:^|\.|::)(\w+)\([^()]*\)\??(\.unwrap_or_default\(\))?$", r)
    if m and m.group(1) in hash_fns:
        return True
    if re.fullmatch(r"&?(mut)?\w+(\.clone\(\))?", r) or re.fullmatch(r"std::mem::take\(&mut\w+\)", r):
        return None        # alias: decided when the names are known
    m = re.fullmatch(r"&?(?:mut)?[\w.]+\.(\w+)(\.clone\(\))?", r)
    if m and m.group(1) in fields:
        return True
    return False


CELL_NAMES = r"(?:\w*Mutex|RwLock|Atomic\w+|RefCell|Cell|OnceCell|OnceLock|Lazy|LazyLock|UnsafeCell|CacheMap|Semaphore)"
CELL_METHODS = ["fetch_\\w+", "store", "swap", "lock", "try_lock", "borrow_mut", "set", "replace", "take", "compare_exchange\\w*",
                "compare_and_swap", "get_or_init", "get_or_insert_with", "get_mut", "write", "cache_default", "cache"]


def scan_cells(path, label):
    """struct fields / constructor calls of interior-mutable cells in the non-test code of one file"""
    sc = Scan(path, label)
    s = sc.s
    out = []
    for m in re.finditer(r"\bstruct\s+(\w+)[^;{(]*\{", s):
        op = m.end() - 1
        cl = match_close(s, op)
        body = s[op + 1:cl]
        # fields at depth 0 of the struct body
        depth, start = 0, 0
        parts = []
        for k, ch in enumerate(body):
            if ch in "<([{":
                depth += 1
            elif ch in ">)]}":
                depth -= 1
            elif ch == "," and depth == 0:
                parts.append(body[start:k])
                start = k + 1
        parts.append(body[start:])
        for part in parts:
            part = re.sub(r"#\[[^\]]*\]", "", part)
            fm = re.match(r"\s*(?:pub(?:\([^)]*\))?\s+)?(\w+)\s*:\s*(.+)$", part.strip(), re.S)
            if fm and re.search(r"\b" + CELL_NAMES + r"\b", fm.group(2)):
                out.append((m.start(), (label, "struct " + m.group(1) + "." + fm.group(1), norm(fm.group(2)))))
    for m in re.finditer(r"\b(" + CELL_NAMES + r")\s*(?:::<[^>]*>\s*)?::\s*(new|default|with_capacity|const_new)\s*\(", s):
        st = m.start()
        while st > 0 and s[st - 1] not in ";{},":
            st -= 1
        cl = match_close(s, s.find("(", m.end() - 1))
        out.append((m.start(), (label, sc.fn_at(m.start()), norm(sc.src[st:cl + 1])[:200])))
    out.sort(key=lambda x: x[0])
    return [t for _, t in out]


def split_statements(s, src, a, b):
    """top-level statements of the block body s[a:b] (s = blanked text, src = text with string contents)"""
    stmts, depth, start, k = [], 0, a, a
    while k < b:
        ch = s[k]
        if ch in "([{":
            depth += 1
        elif ch in ")]}":
            depth -= 1
            if depth == 0 and ch == "}":
                # a block statement ends here unless an `else`, a method call, `?` or `;` continues it
                rest = s[k + 1:b].lstrip()
                if not (rest.startswith("else") or rest.startswith(".") or rest.startswith("?") or rest.startswith(";") or rest.startswith(")")):
                    head = s[start:k + 1].lstrip()
                    if re.match(r"(if|for|while|loop|match|unsafe|\{)\b|\{", head):
                        stmts.append((start, k + 1))
                        start = k + 1
        elif ch == ";" and depth == 0:
            stmts.append((start, k + 1))
            start = k + 1
        k += 1
    if s[start:b].strip():
        stmts.append((start, b))
    return [(x, y) for x, y in stmts if s[x:y].strip()]


def walk_futures(repo):
    """the closure handed to join_all in MinidumpInfo::into_process_state"""
    label = label_of("minidump-processor/src/processor.rs")
    sc = Scan(os.path.join(repo, "minidump-processor/src/processor.rs"), label)
    s, src = sc.s, sc.src
    spans = [(a, b) for a, b, n in sc.fn_spans if n == "into_process_state"]
    if len(spans) != 1:
        die("into_process_state: expected exactly one fn of that name, found %d" % len(spans))
    fa, fb = spans[0]
    js = [m.start() for m in re.finditer(r"\bjoin_all\s*\(", s[fa:fb])]
    if len(js) != 1:
        die("into_process_state: expected exactly one join_all(..), found %d (how are the per-thread walks driven now?)" % len(js))
    j = fa + js[0]
    op = s.find("(", j)
    cl = match_close(s, op)
    arg = s[op + 1:cl]
    mm = re.search(r"\.map\(\s*\|\s*\(\s*(\w+)\s*,\s*\(\s*(\w+)\s*,\s*(\w+)\s*\)\s*\)\s*\|\s*async\s+move\s*\{", arg)
    if not mm:
        die("into_process_state: the join_all argument is not `<iter>.map(|(i, (stack, thread))| async move { .. })`: " + norm(arg)[:200])
    bop = op + 1 + mm.end() - 1
    bcl = match_close(s, bop)
    if norm(s[bcl + 1:cl]) not in (")", "),"):
        die("into_process_state: something follows the async block inside join_all(..): " + norm(s[bcl + 1:cl])[:120])
    params = [mm.group(1), mm.group(2), mm.group(3)]
    body = s[bop + 1:bcl]
    # names visible from outside: lets of the enclosing blocks before the join_all (innermost block first), fn parameters, self
    outer = {}
    pos = j
    while True:
        # opening brace of the block containing pos
        depth, k = 0, pos - 1
        while k > fa:
            if s[k] in ")]}":
                depth += 1
            elif s[k] in "([{":
                if depth == 0:
                    break
                depth -= 1
            k -= 1
        if k <= fa:
            blk = fa
        else:
            blk = k
        for a, b in split_statements(s, src, blk + 1, pos):
            lm = re.match(r"\s*let\s+(?:mut\s+)?(\w+)\s*(?::[^=;]+)?=(?!=)", s[a:b])
            if lm and lm.group(1) not in outer:
                outer[lm.group(1)] = "let:" + norm(src[a + lm.end():b]).rstrip(";")[:120]
        if blk == fa:
            break
        pos = blk
    # the fn's parameters
    sig_op = s.rfind("(", 0, fa)
    hdr = s[:fa]
    fm = list(re.finditer(r"\bfn\s+into_process_state\b", hdr))[-1]
    pop = s.find("(", fm.end())
    pcl = match_close(s, pop)
    for part in re.split(r",(?![^<]*>)", s[pop + 1:pcl]):
        pm = re.match(r"\s*(?:mut\s+)?(\w+)\s*(?::\s*(.+))?$", part.strip(), re.S)
        if pm and pm.group(1) and pm.group(1) not in outer:
            outer[pm.group(1)] = "param:" + norm(pm.group(2) or "")
    shadow = set(params)
    for lm in re.finditer(r"\blet\s+(?:mut\s+)?(\w+)\b", body):
        shadow.add(lm.group(1))
    used = []
    for m in re.finditer(r"(?<![\w.])([A-Za-z_]\w*)\b(?!\s*(?:::|!|\())", body):
        n = m.group(1)
        if n in outer and n not in shadow and n not in used:
            # a field initialiser / struct field `name:` is not a use
            if re.match(r"\s*:[^:]", body[m.end():m.end() + 3]):
                continue
            used.append(n)
    captures = [(label, "into_process_state/walk future", "%s=%s" % (n, outer[n])) for n in used]
    steps = []
    for a, b in split_statements(s, src, bop + 1, bcl):
        text = norm(src[a:b])
        names = [n for n in used if re.search(r"(?<![\w.])" + re.escape(n) + r"\b", s[a:b])]
        steps.append((label, "into_process_state/walk future",
                      "%s|uses:%s%s" % (text[:90], ",".join(names), "|awaits" if re.search(r"\.await\b", s[a:b]) else "")))
    if not any("|awaits" in t[2] and t[2].startswith("walk_stack(") for t in steps):
        die("into_process_state: no top-level `walk_stack(..).await` statement in the per-thread future: " + "; ".join(t[2][:40] for t in steps))
    muts = []
    for m in re.finditer(r"\.\s*(%s)\s*\(" % "|".join(CELL_METHODS), body):
        r0 = path_start(body, m.start())
        muts.append((label, "into_process_state/walk future", norm(body[r0:m.end()])))
    return captures, steps, muts


def arm64_registers(repo, ctx="CONTEXT_ARM64", unwinder="minidump-unwind/src/arm64.rs"):
    """REGISTERS and the alias arms of memoize_register of `impl CpuContext for md::<ctx>` (minidump/src/context.rs):
    which STACK CFI register names a walker accepts and which of them are two names of one register"""
    src = strip_comments(open(os.path.join(repo, "minidump/src/context.rs")).read())
    m = re.search(r"impl\s+CpuContext\s+for\s+md::" + ctx + r"\s*\{", src)
    if not m:
        die("impl CpuContext for md::%s not found in minidump/src/context.rs" % ctx)
    body = src[m.end() - 1:match_close(blank_strings(src), m.end() - 1) + 1]
    r = re.search(r"const\s+REGISTERS\s*:\s*&'static\s*\[&'static\s+str\]\s*=\s*&\[([^\]]*)\]", body)
    if not r:
        die(ctx + ": const REGISTERS not found")
    regs = re.findall(r'"([^"]+)"', r.group(1))
    f = re.search(r"fn\s+memoize_register\s*\(\s*&self\s*,\s*reg\s*:\s*&str\s*\)\s*->\s*Option<&'static\s+str>\s*\{", body)
    if not f:
        die(ctx + ": fn memoize_register(&self, reg: &str) -> Option<&'static str> not found")
    fb = norm(body[f.end() - 1:match_close(blank_strings(body), f.end() - 1) + 1])
    mm = re.fullmatch(r'\{matchreg\{((?:"[^"]+"=>Some\("[^"]+"\),)*)_=>default_memoize_register\(Self::REGISTERS,reg\),?\}\}', fb)
    if not mm:
        die(ctx + "::memoize_register is not `match reg { \"a\" => Some(\"b\"), .., _ => default_memoize_register(Self::REGISTERS, reg) }`: " + fb[:200])
    aliases = re.findall(r'"([^"]+)"=>Some\("([^"]+)"\)', mm.group(1))
    d = re.search(r"fn\s+default_memoize_register\s*\([^)]*\)\s*->\s*Option<&'static\s+str>\s*\{", src)
    if not d:
        die("default_memoize_register not found")
    db = norm(src[d.end() - 1:match_close(blank_strings(src), d.end() - 1) + 1])
    if db != "{letidx=registers.iter().position(|val|*val==reg)?;Some(registers[idx])}":
        die("default_memoize_register is not `let idx = registers.iter().position(|val| *val == reg)?; Some(registers[idx])`: " + db[:200])
    usrc = strip_comments(open(os.path.join(repo, unwinder)).read())
    cs = re.search(r"const\s+CALLEE_SAVED_REGS\s*:\s*&\[&str\]\s*=\s*&\[([^\]]*)\]", usrc)
    if not cs:
        die(unwinder + ": const CALLEE_SAVED_REGS: &[&str] not found")
    saved = re.findall(r'"([^"]+)"', cs.group(1))
    if "CfiStackWalker::from_ctx_and_args(ctx,args,callee_forwarded_regs)" not in norm(usrc):
        die(unwinder + " get_caller_by_cfi no longer builds its walker with CfiStackWalker::from_ctx_and_args(ctx, args, callee_forwarded_regs)")
    return regs, aliases, saved


UNWINDER_FILES = ["minidump-unwind/src/lib.rs", "minidump-unwind/src/amd64.rs", "minidump-unwind/src/arm.rs", "minidump-unwind/src/arm64.rs",
                  "minidump-unwind/src/arm64_old.rs", "minidump-unwind/src/mips.rs", "minidump-unwind/src/x86.rs",
                  "minidump-unwind/src/symbols/mod.rs"]


def walk_awaits(repo):
    """every `.await` of the unwinder (non-test code): the function whose future is awaited; and the async fns defined there.
    A walk can only be suspended inside one of these calls."""
    callees, async_fns, n = [], [], 0
    for f in UNWINDER_FILES:
        sc = Scan(os.path.join(repo, f), label_of(f))
        s = sc.s
        for m in re.finditer(r"\basync\s+fn\s+(\w+)", s):
            if m.group(1) not in async_fns:
                async_fns.append(m.group(1))
        for m in re.finditer(r"\.\s*await\b", s):
            r0 = path_start(s, m.start())
            expr = s[r0:m.start()].rstrip()
            if not expr.endswith(")"):
                die("%s: awaited expression is not a call: %s" % (f, norm(expr)[-80:]))
            # the call whose result is awaited: identifier in front of the last parenthesis group
            depth, k = 0, len(expr) - 1
            while k >= 0:
                if expr[k] == ")":
                    depth += 1
                elif expr[k] == "(":
                    depth -= 1
                    if depth == 0:
                        break
                k -= 1
            cm = re.search(r"(\w+)\s*(?:::<[^>]*>\s*)?$", expr[:k])
            if not cm:
                die("%s: cannot name the awaited call: %s" % (f, norm(expr)[-80:]))
            n += 1
            if cm.group(1) not in callees:
                callees.append(cm.group(1))
    if n == 0:
        die("no .await found in the unwinder (the extraction is broken)")
    return sorted(callees), sorted(async_fns)


def lsb_aliases(repo):
    path = os.path.join(repo, "minidump-processor/src/process_state.rs")
    src = strip_comments(open(path).read())
    m = re.search(r"impl\s+From<\s*MinidumpLinuxLsbRelease<'_>\s*>\s+for\s+LinuxStandardBase\s*\{", src)
    if not m:
        die("impl From<MinidumpLinuxLsbRelease<'_>> for LinuxStandardBase not found")
    body = src[m.end() - 1:match_close(blank_strings(src), m.end() - 1) + 1]
    nb = norm(body)
    head = "{fnfrom(linux_standard_base:MinidumpLinuxLsbRelease)->Self{letmutlsb=LinuxStandardBase::default();for(key,val)inlinux_standard_base.iter(){matchkey.as_bytes(){"
    if not nb.startswith(head):
        die("LinuxStandardBase::from is not `let mut lsb = default; for (key, val) in linux_standard_base.iter() { match key.as_bytes() {..` "
            "(the fold over the lines in file order that C13/Linux.v models): " + nb[:200])
    rest = nb[len(head):]
    if not rest.endswith("_=>{}}}lsb}}"):
        die("LinuxStandardBase::from: unexpected tail after the match arms: " + rest[-80:])
    rest = rest[:-len("_=>{}}}lsb}}")]
    arms = []
    arm_re = re.compile(r'((?:b"[^"]*"\|?)+)=>\{?lsb\.(\w+)=val\.to_string_lossy\(\)\.into_owned\(\)\}?,?')
    pos = 0
    while pos < len(rest):
        a = arm_re.match(rest, pos)
        if not a:
            die("LinuxStandardBase::from: unrecognised match arm: " + rest[pos:pos + 120])
        keys = re.findall(r'b"([^"]*)"', a.group(1))
        arms.append((keys, a.group(2)))
        pos = a.end()
    if not arms:
        die("LinuxStandardBase::from: no match arms")
    return arms


def fn_body(src, blanked, pattern, what):
    """normalised text of the body of the first fn whose header matches `pattern` (searched in the blanked text)"""
    m = re.search(pattern, blanked)
    if not m:
        die(what + " not found")
    op = blanked.find("{", m.end() - 1)
    return norm(src[op:match_close(blanked, op) + 1])


def unloaded_code(repo):
    """the code C13/Unloaded.v models, as normalised text: (1) the block of the per-thread future that fills
    frame.unloaded_modules, (2) MinidumpUnloadedModuleList::modules_at_address, (3) MinidumpUnloadedModule::memory_range,
    (4) the size guard of MinidumpUnloadedModuleList::read, (5) what the processor does with a stream it cannot read"""
    sc = Scan(os.path.join(repo, "minidump-processor/src/processor.rs"), "processor/processor.rs")
    s, src = sc.s, sc.src
    m = re.search(r"if\s+frame\s*\.\s*module\s*\.\s*is_none\(\)\s*\{", s)
    if not m:
        die("processor.rs: `if frame.module.is_none() {` (the unloaded-module block of the walk future) not found")
    block = norm(src[m.start():match_close(s, m.end() - 1) + 1])
    m = re.search(r"let\s+unloaded_modules\s*=\s*match\s+dump\s*\.\s*get_stream::<MinidumpUnloadedModuleList>\(\)\s*\{", s)
    if not m:
        die("processor.rs: `let unloaded_modules = match dump.get_stream::<MinidumpUnloadedModuleList>() {` not found")
    fallback = norm(src[m.start():match_close(s, m.end() - 1) + 1])
    if "Err(_)=>MinidumpUnloadedModuleList::new()" not in fallback:
        die("processor.rs: an unreadable unloaded-module stream is no longer replaced by an empty list: " + fallback[:200])
    sm = Scan(os.path.join(repo, "minidump/src/minidump.rs"), "minidump/minidump.rs")
    s, src = sm.s, sm.src
    at = fn_body(src, s, r"pub\s+fn\s+modules_at_address\s*\(\s*&self\s*,\s*address\s*:\s*u64\s*,?\s*\)\s*->\s*impl\s+Iterator<Item\s*=\s*&MinidumpUnloadedModule>\s*\{",
                 "minidump.rs: MinidumpUnloadedModuleList::modules_at_address")
    im = re.search(r"impl\s+Module\s+for\s+MinidumpUnloadedModule\s*\{", s)
    if not im:
        die("minidump.rs: impl Module for MinidumpUnloadedModule not found")
    # memory_range is an inherent method written just before the Module impl
    starts = [x.start() for x in re.finditer(r"fn\s+memory_range\s*\(\s*&self\s*\)\s*->\s*Option<Range<u64>>\s*\{", s) if x.start() < im.start()]
    if not starts:
        die("minidump.rs: MinidumpUnloadedModule::memory_range not found")
    op = s.find("{", starts[-1])
    rng = norm(src[op:match_close(s, op) + 1])
    rm = re.search(r"impl<'a>\s*MinidumpStream<'a>\s*for\s+MinidumpUnloadedModuleList\s*\{", s)
    if not rm:
        die("minidump.rs: impl MinidumpStream for MinidumpUnloadedModuleList not found")
    body = norm(src[rm.end() - 1:match_close(s, rm.end() - 1) + 1])
    g = re.search(r"forrawinraw_modules\.into_iter\(\)\{(if.*?\{)(.*?)\}modules\.push", body)
    if not g:
        die("minidump.rs: MinidumpUnloadedModuleList::read is not `for raw in raw_modules.into_iter() { if <guard> { .. } modules.push(..` : " + body[:300])
    guard = g.group(1) + g.group(2) + "}"
    se = Scan(os.path.join(repo, "minidump-processor/src/evil.rs"), "processor/evil.rs")
    em = re.search(r"\.map\(\s*\|\s*certs\s*:\s*HashMap<String,\s*Vec<String>>\s*\|\s*\{", se.s)
    if not em:
        die("evil.rs: `.map(|certs: HashMap<String, Vec<String>>| {` (the certificate fold) not found")
    fold = norm(se.src[em.end() - 1:match_close(se.s, em.end() - 1) + 1])
    bm = re.search(r"for\s+reg\s+in\s+&exception_details\s*\.\s*instruction_registers\s*\{", sc.s)
    if not bm:
        die("processor.rs: `for reg in &exception_details.instruction_registers {` (check_for_bitflips) not found")
    regloop = norm(sc.src[bm.start():match_close(sc.s, bm.end() - 1) + 1])
    return [("processor/evil.rs", "handle_evil", fold),
            ("processor/processor.rs", "check_for_bitflips", regloop),
            ("processor/processor.rs", "into_process_state/walk future", block),
            ("processor/processor.rs", "new", fallback),
            ("minidump/minidump.rs", "MinidumpUnloadedModuleList::modules_at_address", at),
            ("minidump/minidump.rs", "MinidumpUnloadedModule::memory_range", rng),
            ("minidump/minidump.rs", "MinidumpUnloadedModuleList::read", guard)]


def print_context_sites(repo):
    """who writes and who reads the thread_local SERIALIZATION_CONTEXT (the pointer width every printed address depends on):
    every call of set_print_context( and every SERIALIZATION_CONTEXT.with( in minidump-processor/src, with the enclosing fn and,
    for a call inside a fn body, whether it is the FIRST statement of that body"""
    out = []
    for f in sorted(x for x in FILES if x.startswith("minidump-processor/src/")):
        sc = Scan(os.path.join(repo, f), label_of(f))
        s = sc.s
        for m in re.finditer(r"(\bfn\s+)?\bset_print_context\s*\(", s):
            if m.group(1):
                continue
            spans = sorted((a, b, n) for a, b, n in sc.fn_spans if a < m.start() < b)
            first = bool(spans) and norm(s[spans[-1][0] + 1:m.start()]) in ("self.", "state.")
            out.append((label_of(f), sc.fn_at(m.start()), "call" + ("|first statement" if first else "|NOT the first statement")))
        for m in re.finditer(r"\bSERIALIZATION_CONTEXT\s*\.\s*with\s*\(", s):
            cl = match_close(s, s.find("(", m.end() - 1))
            body = norm(sc.src[m.start():cl + 1])
            out.append((label_of(f), sc.fn_at(m.start()), ("write:" if "borrow_mut" in body else "read:") + body[:160]))
    if not out:
        die("no use of SERIALIZATION_CONTEXT / set_print_context found in minidump-processor (how do the printers learn the pointer width now?)")
    return out


def label_of(f):
    return f.replace("minidump-", "").replace("/src/", "/")


def coq_str(s):
    return '"%s"' % s.replace('"', '""')


def main():
    if len(sys.argv) != 3:
        print(__doc__, file=sys.stderr)
        sys.exit(2)
    repo, outdir = sys.argv[1], sys.argv[2]
    # struct fields / fns with a hash type are collected per crate (a field name means nothing in another crate)
    fields, hash_fns = {}, {}
    for f in FILES:
        p = os.path.join(repo, f)
        if not os.path.exists(p):
            die("%s not found" % f)
        crate = f.split("/")[0]
        sc = Scan(p, label_of(f))
        fields.setdefault(crate, set()).update(sc.fields)
        hash_fns.setdefault(crate, {"stats"}).update(sc.hash_fns)   # SymbolProvider::stats() -> HashMap<String, SymbolStats>
    sites, conc, shared, cells = [], [], [], []
    for f in FILES:
        crate = f.split("/")[0]
        a, b, c = scan_file(os.path.join(repo, f), label_of(f), fields[crate], hash_fns[crate])
        sites += a
        conc += b
        shared += c
        cells += scan_cells(os.path.join(repo, f), label_of(f))
    captures, steps, muts = walk_futures(repo)
    if not cells:
        die("no interior-mutable cell found (the extraction is broken: Symbolizer.stats is a Mutex)")
    if not sites:
        die("no hash iteration site found (the extraction is broken: print_json sorts proc_limits out of a HashMap)")
    if not conc:
        die("no future combinator found (the extraction is broken: into_process_state joins the per-thread walks)")
    arms = lsb_aliases(repo)
    a64_regs, a64_aliases, a64_saved = arm64_registers(repo)
    arm_regs, arm_aliases, arm_saved = arm64_registers(repo, "CONTEXT_ARM", "minidump-unwind/src/arm.rs")
    await_callees, unwinder_async_fns = walk_awaits(repo)
    ordered_sites, ordered_decls = scan_ordered(repo)
    unloaded_texts = unloaded_code(repo)
    pctx = print_context_sites(repo)
    if not ordered_sites or not ordered_decls:
        die("no BTreeMap / BTreeSet iteration or field found (the extraction is broken: StackFrame.unloaded_modules is a BTreeMap)")
    o = ["(* GENERATED by translate/c13_sites.py from minidump-processor, minidump-unwind and breakpad-symbols sources — do not edit. *)",
         "From Coq Require Import List String ZArith.", "Import ListNotations.", "Open Scope string_scope.", "",
         "(* every iteration over a HashMap / HashSet in the non-test code: (file, enclosing fn, text without whitespace) *)",
         "Definition hash_iteration_sites : list (string * string * string) := ["]
    o.append(";\n".join("  (%s, %s, %s)" % tuple(coq_str(x) for x in t) for t in sites))
    o.append("].")
    o.append("")
    o.append("(* every future combinator: (file, enclosing fn, combinator and the head of its argument) *)")
    o.append("Definition concurrency_sites : list (string * string * string) := [")
    o.append(";\n".join("  (%s, %s, %s)" % tuple(coq_str(x) for x in t) for t in conc))
    o.append("].")
    o.append("")
    o.append("(* state that outlives one evaluation / one walk: thread_local statics, static mut, statics with interior mutability *)")
    o.append("Definition shared_state_sites : list (string * string * string) := [")
    o.append(";\n".join("  (%s, %s, %s)" % tuple(coq_str(x) for x in t) for t in shared))
    o.append("].")
    o.append("")
    for title, name, lst in [
            ("every struct field / constructor call of a cell writable through a shared reference (Mutex, Atomic*, RefCell, Cell, Once*, CacheMap ..)", "interior_mutable_sites", cells),
            ("what the per-thread walk future of into_process_state uses from the enclosing scopes (shared by all the futures of the join_all)", "walk_future_captures", captures),
            ("the top-level statements of that future's body, in order: text | captured names used | awaits", "walk_future_steps", steps),
            ("calls of writing methods of cells inside that body", "walk_future_interior_mutations", muts)]:
        o.append("(* %s *)" % title)
        o.append("Definition %s : list (string * string * string) := [" % name)
        o.append(";\n".join("  (%s, %s, %s)" % tuple(coq_str(x) for x in t) for t in lst))
        o.append("].")
        o.append("")
    for title, name, lst in [
            ("every iteration over a BTreeMap / BTreeSet (ascending by key, whatever the insertion order): for loops as written, method sites as receiver.method(", "ordered_iteration_sites", ordered_sites),
            ("every struct field declared as a BTreeMap / BTreeSet: (file, struct.field, type)", "ordered_container_fields", ordered_decls),
            ("code that C13/Model.v (cert_of) and C13/Unloaded.v model, as written (whitespace and comments removed)", "pinned_model_code", unloaded_texts),
            ("the thread_local print context (pointer width of every printed address): every call of set_print_context and every access of the cell", "print_context_sites", pctx)]:
        o.append("(* %s *)" % title)
        o.append("Definition %s : list (string * string * string) := [" % name)
        o.append(";\n".join("  (%s, %s, %s)" % tuple(coq_str(x) for x in t) for t in lst))
        o.append("].")
        o.append("")
    o.append("(* LinuxStandardBase::from: match arms in source order, (key spellings, field assigned) *)")
    o.append("Definition lsb_aliases : list (list string * string) := [")
    o.append(";\n".join("  ([%s], %s)" % ("; ".join(coq_str(k) for k in ks), coq_str(fld)) for ks, fld in arms))
    o.append("].")
    o.append("")
    o.append("(* minidump-unwind/src/{lib,amd64,arm,arm64,arm64_old,mips,x86}.rs, symbols/mod.rs: the functions whose futures the unwinder awaits (every .await of the non-test code), and the async fns defined in those files *)")
    o.append("Definition walk_await_callees : list string := [%s]." % "; ".join(coq_str(c) for c in await_callees))
    o.append("Definition unwinder_async_fns : list string := [%s]." % "; ".join(coq_str(c) for c in unwinder_async_fns))
    o.append("")
    o.append("(* minidump/src/context.rs, impl CpuContext for md::CONTEXT_ARM64: REGISTERS and the alias arms of memoize_register *)")
    o.append("Definition arm64_registers : list string := [%s]." % "; ".join(coq_str(r) for r in a64_regs))
    o.append("Definition arm64_aliases : list (string * string) := [%s]." % "; ".join("(%s, %s)" % (coq_str(a), coq_str(b)) for a, b in a64_aliases))
    zb0 = lambda t: "[%s]" % "; ".join("%d%%Z" % b for b in t.encode())
    o.append("Definition arm64_register_bytes : list (list Z) := [%s]." % "; ".join(zb0(r) for r in a64_regs))
    o.append("(* minidump-unwind/src/arm64.rs CALLEE_SAVED_REGS: what a CFI caller frame inherits from its callee before the rules run *)")
    o.append("Definition arm64_callee_saved : list string := [%s]." % "; ".join(coq_str(r) for r in a64_saved))
    o.append("Definition arm64_callee_saved_bytes : list (list Z) := [%s]." % "; ".join(zb0(r) for r in a64_saved))
    o.append("Definition arm64_alias_bytes : list (list Z * list Z) := [%s]." % "; ".join("(%s, %s)" % (zb0(a), zb0(b)) for a, b in a64_aliases))
    o.append("(* the same for md::CONTEXT_ARM / minidump-unwind/src/arm.rs *)")
    o.append("Definition arm_registers : list string := [%s]." % "; ".join(coq_str(r) for r in arm_regs))
    o.append("Definition arm_aliases : list (string * string) := [%s]." % "; ".join("(%s, %s)" % (coq_str(a), coq_str(b)) for a, b in arm_aliases))
    o.append("Definition arm_callee_saved : list string := [%s]." % "; ".join(coq_str(r) for r in arm_saved))
    o.append("Definition arm_register_bytes : list (list Z) := [%s]." % "; ".join(zb0(r) for r in arm_regs))
    o.append("Definition arm_alias_bytes : list (list Z * list Z) := [%s]." % "; ".join("(%s, %s)" % (zb0(a), zb0(b)) for a, b in arm_aliases))
    o.append("Definition arm_callee_saved_bytes : list (list Z) := [%s]." % "; ".join(zb0(r) for r in arm_saved))
    o.append("")
    o.append("(* the same table as byte strings (what the extracted model runs on) *)")
    o.append("Definition lsb_alias_bytes : list (list (list Z) * list Z) := [")
    zb = lambda t: "[%s]" % "; ".join("%d%%Z" % b for b in t.encode())
    o.append(";\n".join("  ([%s], %s)" % ("; ".join(zb(k) for k in ks), zb(fld)) for ks, fld in arms))
    o.append("].")
    content = "\n".join(o) + "\n"
    path = os.path.join(outdir, "C13Sites.v")
    os.makedirs(outdir, exist_ok=True)
    try:
        if open(path).read() == content:
            return
    except OSError:
        pass
    open(path, "w").write(content)


if __name__ == "__main__":
    main()
