#!/usr/bin/env python3
"""Translator for C12 (round 5, second pass): how the PROCESSOR and the unwinder reach the symbolizer
-> coq/Gen/C12Processor.v, as a `walker` of coq/C12/ProcModel.v.

usage: c12_processor.py <repo> <outdir>

Reads (non-test code)
  minidump-processor/src/processor.rs   MinidumpInfo::into_process_state: every use of `symbol_provider`, in source order:
                                        `let symbol_stats = symbol_provider.stats();` (WStatsRead) and the block
                                        `futures_util::future::join_all(state.threads.iter_mut().zip(..).enumerate()
                                         .map(|(i, (stack, thread))| async move { .. })).await` (WJoinAllThreads [..]) whose
                                        async block awaits exactly once: `walk_stack(i, .., symbol_provider).await`
                                        (WWalkStackAwait),
  minidump-unwind/src/lib.rs            walk_stack: one `while has_new_frame { .. }` whose awaits are
                                        `fill_source_line_info(frame, modules, symbol_provider).await` (WFillSourceLineAwait)
                                        and `get_caller_frame(frame_idx, &GetCallerFrameArgs { .., symbol_provider }).await`
                                        (WGetCallerAwait), in this order; fill_source_line_info:
                                        `if let Some(module) = modules.module_at_address(frame.instruction) { ..
                                         let _ = symbol_provider.fill_symbol(module, frame).await; .. }`
                                        (WIfModule [WFillSymbolAwait]),
  minidump-unwind/src/symbols/mod.rs    `impl SymbolProvider for Symbolizer`: every method is the delegation to the inherent
                                        method of the same name with the same arguments (w_provider),
  every source file of minidump-unwind/src/**/*.rs and minidump-processor/src/*.rs (without *_unittest.rs) that CALLS a provider
  method (`.fill_symbol(` / `.walk_frame(` / `.get_file_path(` / `symbol_provider.stats()` / `.pending_stats()`), with the number of
  call sites: src_provider_users.
  minidump-unwind/src/{amd64,arm,arm64,arm64_old,mips,x86}.rs   get_caller_by_cfi: exactly one provider call,
                                        `args.symbol_provider.walk_frame(stack_walker.module, &mut stack_walker).await?` on a
                                        `CfiStackWalker::from_ctx_and_args(ctx, args, ..)?` whose module is
                                        `args.modules.module_at_address(args.callee_frame.instruction)?` (src_cfi, src_cfi_module).
Aborts on anything it does not recognise (a second await in the per-thread future, another executor than join_all, a
provider call outside the loop, a delegation that does something else)."""
import importlib.util
import os
import re
import sys

_here = os.path.dirname(os.path.abspath(__file__))
_spec = importlib.util.spec_from_file_location("c12_structure", os.path.join(_here, "c12_structure.py"))
S = importlib.util.module_from_spec(_spec)
_spec.loader.exec_module(S)


def die(msg):
    print("c12_processor.py: ABORT: " + msg, file=sys.stderr)
    sys.exit(1)


def read(repo, rel):
    path = os.path.join(repo, rel)
    if not os.path.exists(path):
        die("missing " + rel)
    return S.non_test(S.strip_comments(open(path).read()))


def raw_statements(body):
    """S.statements without the final squash (nested blocks are split again, which needs the word boundaries)"""
    out, cur, i, n = [], [], 0, len(body)
    while i < n:
        c = body[i]
        if c in "([{":
            j = S.match_close(body, i)
            cur.append(body[i:j + 1])
            i = j + 1
            if c == "{":
                rest = body[i:].lstrip()
                head = "".join(cur).lstrip()
                if re.match(r"(if|match|for|while|loop)\b", head) and not rest.startswith(("else", ".", "?")):
                    out.append("".join(cur))
                    cur = []
            continue
        if c == '"':
            j = i + 1
            while j < n and body[j] != '"':
                j += 2 if body[j] == "\\" else 1
            cur.append(body[i:j + 1])
            i = j + 1
            continue
        if c == ";":
            out.append("".join(cur) + ";")
            cur = []
        else:
            cur.append(c)
        i += 1
    if "".join(cur).strip():
        out.append("".join(cur))
    return [x.strip() for x in out if x.strip()]


def sq(x):
    return S.squash(x)


def inner_block(stmt, what):
    i = stmt.index("{")
    j = S.match_close(stmt, i)
    return stmt[i + 1:j], stmt[j + 1:]


def process_ops(body):
    ops = []
    for raw in raw_statements(body):
        s = sq(raw)
        if "symbol_provider" not in s:
            if "join_all" in s or "spawn(" in s or "FuturesUnordered" in s or "buffer_unordered" in s:
                die("into_process_state: a concurrent combinator that does not mention symbol_provider: " + s[:160])
            continue
        if re.match(r"^letsymbol_stats=symbol_provider\.stats\(\);$", s):
            ops.append("WStatsRead")
            continue
        if s.startswith("{"):
            blk, tail = inner_block(raw, "into_process_state")
            if sq(tail) not in (";", ""):
                die("into_process_state: text after the thread-walk block: " + tail[:80])
            inner = raw_statements(blk)
            users = [x for x in inner if "symbol_provider" in x]
            others = [x for x in inner if "symbol_provider" not in x]
            for x in others:
                if ".await" in x or "join_all" in x or "spawn(" in x:
                    die("into_process_state: unexpected await / combinator next to the thread walks: " + sq(x)[:160])
            if len(users) != 1:
                die("into_process_state: expected exactly one statement using symbol_provider in the thread-walk block")
            u = users[0]
            m = re.match(r"^futures_util::future::join_all\(state\.threads\.iter_mut\(\)\.zip\(self\.thread_list\.threads\.iter\(\)\)"
                         r"\.enumerate\(\)\.map\(\|\(i,\(stack,thread\)\)\|asyncmove\{(.*)\}\),?\)\.await$", sq(u))
            if not m:
                die("into_process_state: the threads are not walked by `futures_util::future::join_all(state.threads.iter_mut()"
                    ".zip(..).enumerate().map(|(i, (stack, thread))| async move {..})).await`: " + sq(u)[:200])
            am = re.search(r"async\s+move\s*\{", u)
            i = am.end() - 1
            ab = raw_statements(u[i + 1:S.match_close(u, i)])
            body_ops = []
            for xr in ab:
                x = sq(xr)
                if "symbol_provider" in x:
                    if not re.match(r"^walk_stack\(i,.*,stack,stack_memory,modules,system_info,symbol_provider,?\)\.await;$", x):
                        die("per-thread future: unexpected use of symbol_provider: " + x[:200])
                    if x.count("symbol_provider") != 1 or x.count(".await") != 1:
                        die("per-thread future: walk_stack statement uses the provider / awaits more than once: " + x[:200])
                    body_ops.append("WWalkStackAwait")
                elif ".await" in x or "spawn(" in x or "block_on(" in x:
                    die("per-thread future: a second suspension point: " + x[:200])
            if body_ops != ["WWalkStackAwait"]:
                die("per-thread future: expected exactly one walk_stack(.., symbol_provider).await, got %r" % body_ops)
            ops.append("WJoinAllThreads [WWalkStackAwait]")
            continue
        die("into_process_state: unexpected use of symbol_provider: " + s[:200])
    return ops


def walk_stack_ops(body):
    ops = []
    for raw in raw_statements(body):
        s = sq(raw)
        if "symbol_provider" not in s:
            if ".await" in s:
                die("walk_stack: an await that does not mention symbol_provider: " + s[:160])
            continue
        if not re.match(r"^whilehas_new_frame\{.*\}$", s):
            die("walk_stack: symbol_provider used outside `while has_new_frame {..}`: " + s[:200])
        blk, tail = inner_block(raw, "walk_stack")
        if sq(tail):
            die("walk_stack: text after the loop: " + tail[:80])
        inner = []
        for xr in raw_statements(blk):
            x = sq(xr)
            if re.match(r"^fill_source_line_info\(frame,modules,symbol_provider\)\.await;$", x):
                inner.append("WFillSourceLineAwait")
            elif re.match(r"^letnew_frame=get_caller_frame\(frame_idx,&GetCallerFrameArgs\{callee_frame,grand_callee_frame,"
                          r"stack_memory,modules,system_info,symbol_provider,?\},?\)\.await;$", x):
                inner.append("WGetCallerAwait")
            elif "symbol_provider" in x or ".await" in x:
                die("walk_stack loop: unexpected statement: " + x[:200])
        ops.append("WWhileNewFrame [" + "; ".join(inner) + "]")
    return ops


def fill_source_ops(body):
    ops = []
    for raw in raw_statements(body):
        s = sq(raw)
        if "symbol_provider" not in s:
            if ".await" in s:
                die("fill_source_line_info: an await that does not mention symbol_provider: " + s[:160])
            continue
        if not re.match(r"^ifletSome\(module\)=modules\.module_at_address\(frame\.instruction\)\{.*\}$", s):
            die("fill_source_line_info: unexpected use of symbol_provider: " + s[:200])
        blk, tail = inner_block(raw, "fill_source_line_info")
        if sq(tail):
            die("fill_source_line_info: text after the if block: " + tail[:80])
        inner = []
        for xr in raw_statements(blk):
            x = sq(xr)
            if re.match(r"^let_=symbol_provider\.fill_symbol\(module,frame\)\.await;$", x):
                inner.append("WFillSymbolAwait")
            elif "symbol_provider" in x or ".await" in x:
                die("fill_source_line_info: unexpected statement: " + x[:200])
        ops.append("WIfModule [" + "; ".join(inner) + "]")
    return ops


DELEG = [
    ("fill_symbol", "self.fill_symbol(module,frame).await", "PMFill"),
    ("walk_frame", "self.walk_frame(module,walker).await", "PMWalk"),
    ("get_file_path", "self.get_file_path(module,file_kind).await", "PMFile"),
    ("stats", "self.stats()", "PMStats"),
    ("pending_stats", "self.pending_stats()", "PMPending"),
]


def provider_impl(mod):
    parts = mod.split("impl SymbolProvider for Symbolizer", 1)
    if len(parts) != 2:
        die("impl SymbolProvider for Symbolizer not found")
    i = parts[1].index("{")
    j = S.match_close(parts[1], i)
    fns = S.fns_of(parts[1][i + 1:j])
    table = {n: (b, t) for n, b, t in DELEG}
    out = []
    for name, body in fns:
        if name not in table:
            die("impl SymbolProvider for Symbolizer: unknown method " + name)
        want, tag = table[name]
        if S.squash(body) != want:
            die("impl SymbolProvider for Symbolizer::%s is not the plain delegation `%s`: %s" % (name, want, S.squash(body)[:160]))
        out.append(tag)
    return out


CALLS = [".fill_symbol(", ".walk_frame(", ".get_file_path(", "symbol_provider.stats()", ".pending_stats()"]


def users(repo):
    """(file, [(call, occurrences)]) for every source file (unit-test files excluded) with at least one provider call"""
    out = []
    roots = [("minidump-unwind/src", True), ("minidump-processor/src", False)]
    for root, rec in roots:
        base = os.path.join(repo, root)
        files = []
        for d, _, fs in os.walk(base):
            if not rec and d != base:
                continue
            for f in fs:
                if f.endswith(".rs") and not f.endswith("_unittest.rs"):
                    files.append(os.path.relpath(os.path.join(d, f), repo))
        for rel in sorted(files):
            b = S.squash(S.strip_comments(open(os.path.join(repo, rel)).read()))
            hit = [(w, b.count(w)) for w in CALLS if w in b]
            if hit:
                out.append((rel, hit))
    return out


ARCHS = ["amd64", "arm", "arm64", "arm64_old", "mips", "x86"]


def cfi_ops(repo):
    """per architecture: get_caller_by_cfi builds `stack_walker = CfiStackWalker::from_ctx_and_args(ctx, args, ..)?` and makes exactly
    one provider call, `args.symbol_provider.walk_frame(stack_walker.module, &mut stack_walker).await?` (CfiWalkCalleeModule)"""
    out = []
    for a in ARCHS:
        src = S.strip_comments(open(os.path.join(repo, "minidump-unwind/src/%s.rs" % a)).read())
        fns = [b for n, b in S.fns_of(src) if n == "get_caller_by_cfi"]
        if len(fns) != 1:
            die("%s.rs: expected exactly one fn get_caller_by_cfi" % a)
        b = S.squash(fns[0])
        calls = [w for w in CALLS if w in b]
        if (calls != [".walk_frame("] or b.count(".walk_frame(") != 1
                or "args.symbol_provider.walk_frame(stack_walker.module,&mutstack_walker).await?;" not in b
                or "letmutstack_walker=CfiStackWalker::from_ctx_and_args(ctx,args,callee_forwarded_regs)?;" not in b
                or b.count("stack_walker.module") != 1 or "stack_walker.module=" in b):
            die("%s.rs: get_caller_by_cfi is not `stack_walker = CfiStackWalker::from_ctx_and_args(..)?; "
                "args.symbol_provider.walk_frame(stack_walker.module, &mut stack_walker).await?`" % a)
        out.append((a, ["CfiWalkCalleeModule"]))
    return out


def cfi_module(unw):
    """CfiStackWalker::from_ctx_and_args: module = args.modules.module_at_address(args.callee_frame.instruction)?"""
    b = S.squash(S.fn_body(unw, r"fn\s+from_ctx_and_args\s*<P,\s*R>\s*\(", "CfiStackWalker::from_ctx_and_args"))
    if ("letmodule=args.modules.module_at_address(args.callee_frame.instruction)?;" not in b or b.count("module_at_address") != 1
            or not re.search(r"[{,]module,", b)):
        die("CfiStackWalker::from_ctx_and_args does not take `module` from args.modules.module_at_address(args.callee_frame.instruction)")
    return "CfiModuleOfCalleeInstruction"


def main():
    if len(sys.argv) != 3:
        die("usage: c12_processor.py <repo> <outdir>")
    repo, outdir = sys.argv[1], sys.argv[2]
    proc = read(repo, "minidump-processor/src/processor.rs")
    unw = read(repo, "minidump-unwind/src/lib.rs")
    mod = read(repo, "minidump-unwind/src/symbols/mod.rs")

    p_ops = process_ops(S.fn_body(proc, r"pub\s+async\s+fn\s+into_process_state\s*<", "into_process_state"))
    w_ops = walk_stack_ops(S.fn_body(unw, r"pub\s+async\s+fn\s+walk_stack\s*<", "walk_stack"))
    f_ops = fill_source_ops(S.fn_body(unw, r"async\s+fn\s+fill_source_line_info\s*<", "fill_source_line_info"))
    impl = provider_impl(mod)
    cfi = cfi_ops(repo)
    cfim = cfi_module(unw)
    us = users(repo)

    def lst(items):
        return "[" + "; ".join(items) + "]"

    def q(x):
        return '"' + x + '"'
    o = []
    o.append("(* GENERATED by translate/c12_processor.py from minidump-processor/src/processor.rs, minidump-unwind/src/lib.rs and")
    o.append("   minidump-unwind/src/symbols/mod.rs — do not edit. *)")
    o.append("From RM Require Import C12.ProcModel.")
    o.append("")
    o.append("(* MinidumpInfo::into_process_state: the uses of symbol_provider, in source order *)")
    o.append("Definition src_process : list wop := %s." % lst(p_ops))
    o.append("(* minidump_unwind::walk_stack *)")
    o.append("Definition src_walk_stack : list wop := %s." % lst(w_ops))
    o.append("(* minidump_unwind::fill_source_line_info *)")
    o.append("Definition src_fill_source : list wop := %s." % lst(f_ops))
    o.append("(* impl SymbolProvider for Symbolizer: methods that are the plain delegation to the inherent method of the same name *)")
    o.append("Definition src_provider : list pmeth := %s." % lst(impl))
    o.append("(* get_caller_by_cfi of every architecture: the one provider call, and where CfiStackWalker takes its module from *)")
    o.append("From Coq Require Import String.")
    o.append("Definition src_cfi : list (string * list cfiop) := [" + "; ".join('(%s%%string, %s)' % (q(a), lst(ops)) for a, ops in cfi) + "].")
    o.append("Definition src_cfi_x86 : list cfiop := %s." % lst(dict(cfi)["x86"]))
    o.append("Definition src_cfi_module : cfimod := %s." % cfim)
    o.append("Definition src_walker : walker :=")
    o.append("  {| w_process := src_process; w_walk_stack := src_walk_stack; w_fill_source := src_fill_source; w_provider := src_provider |}.")
    o.append("(* every source file of minidump-unwind / minidump-processor (unit-test files excluded) with calls of provider methods, and how many *)")
    o.append("From Coq Require Import String.")
    o.append("Open Scope string_scope.")
    o.append("Definition src_provider_users : list (string * list (string * nat)) := [")
    o.append(";\n".join("  (%s, %s)" % (q(f), lst("(%s, %d)" % (q(h), n) for h, n in hs)) for f, hs in us))
    o.append("].")
    text = "\n".join(o) + "\n"
    os.makedirs(outdir, exist_ok=True)
    path = os.path.join(outdir, "C12Processor.v")
    if not os.path.exists(path) or open(path).read() != text:
        with open(path, "w") as f:
            f.write(text)


if __name__ == "__main__":
    main()
