#!/usr/bin/env python3
"""Translator for C03: the anchored sites whose hand-written models live in coq/C03/{Model,FetchModel}.v
-> coq/Gen/C03Sites.v (constants, the unwinder dispatch table, shape pins).   argv: <repo> <outdir>.
Every site is matched against the exact shape the model was written for (white space normalised, comments dropped);
on any other shape the translator aborts loudly: the model must then be re-read against the source."""
import os, re, sys

repo, outdir = sys.argv[1], sys.argv[2]


def die(msg):
    sys.stderr.write("c03_sites.py: " + msg + "\n")
    sys.exit(1)


def src(rel):
    try:
        return open(os.path.join(repo, rel)).read()
    except OSError as e:
        die("cannot read %s: %s" % (rel, e))


def norm(text):
    text = re.sub(r"//[^\n]*", "", text)
    text = re.sub(r"/\*.*?\*/", "", text, flags=re.S)
    return re.sub(r"\s+", " ", text).strip()


def fn_body(text, header_re, what):
    """text of the function whose header matches header_re, from the header to the closing brace at the header's indent"""
    m = re.search(header_re, text)
    if not m:
        die(what + ": function header not found")
    line_start = text.rfind("\n", 0, m.start()) + 1
    indent = re.match(r"[ \t]*", text[line_start:]).group(0)
    end = re.search(r"\n" + indent + r"\}\n", text[m.end():])
    if not end:
        die(what + ": end of function not found")
    return text[m.start(): m.end() + end.end()]


# ---- 1. minidump-unwind/src/lib.rs: which CPU contexts have an unwinder
lib = src("minidump-unwind/src/lib.rs")
body = norm(fn_body(lib, r"async fn get_caller_frame<P>\(", "get_caller_frame"))
m = re.search(r"match args\.callee_frame\.context\.raw \{(.*)\} \}$", body)
if not m:
    die("get_caller_frame: `match args.callee_frame.context.raw` not found:\n" + body)
arm_re = r"MinidumpRawContext::(\w+)\(ref ctx\) => (\w+)::get_caller_frame\(ctx, args\)\.await,"
KNOWN = {"Arm": "CpuArm", "Arm64": "CpuArm64", "OldArm64": "CpuArm64Old", "Amd64": "CpuAmd64", "X86": "CpuX86", "Mips": "CpuMips",
         "Ppc": "CpuPpc", "Ppc64": "CpuPpc64", "Sparc": "CpuSparc"}
unwinders = []
for variant, _mod in re.findall(arm_re, m.group(1)):
    if variant not in KNOWN:
        die("get_caller_frame: unknown context variant " + variant)
    unwinders.append(KNOWN[variant])
rest = re.sub(arm_re, "", m.group(1)).strip()
saw_default = rest == "_ => None,"
if not saw_default and rest:
    die("get_caller_frame: unrecognised match arms: " + rest)
if not saw_default:
    die("get_caller_frame: no `_ => None` arm")

# ---- 2. walk_stack: the loop condition and the two ways out of it
ws = norm(fn_body(lib, r"pub async fn walk_stack<P>\(", "walk_stack"))
for need in ("let mut has_new_frame = !stack.frames.is_empty();", "while has_new_frame {",
             "let Some(stack_memory) = stack_memory else { break; };",
             "if callee_frame.trust != FrameTrust::Context && stack_memory .get_memory_at_address::<u8>(callee_frame.context.get_stack_pointer()) .is_none() {",
             "has_new_frame = false;"):
    if need not in ws:
        die("walk_stack: expected fragment missing (loop shape changed): " + need)

# ---- 3. op_analysis.rs: instruction-bytes fetch, implicit stack access
op = src("minidump-processor/src/op_analysis.rs")
fetch = norm(fn_body(op, r"fn get_thread_instruction_bytes<'a>\(", "get_thread_instruction_bytes"))
expected_fetch = ("fn get_thread_instruction_bytes<'a>( context: &MinidumpContext, memory_list: &'a minidump::UnifiedMemoryList<'a>, ) "
                  "-> Result<&'a [u8], OpAnalysisError> { let instruction_pointer = context.get_instruction_pointer(); "
                  "memory_list .memory_at_address(instruction_pointer) .map(|memory| { "
                  "let offset = (instruction_pointer - memory.base_address()) as usize; &memory.bytes()[offset..] }) "
                  ".ok_or(OpAnalysisError::ReadThreadInstructionFailed) }")
if fetch != expected_fetch:
    die("get_thread_instruction_bytes changed; coq/C03/FetchModel.v (fetch_instruction_bytes) must be re-read against it:\n" + fetch)
opn = norm(op)
if "push_implicit_access(rsp.wrapping_sub(8), MemoryAccessType::Write);" not in opn:
    die("op_analysis: implicit CALL/PUSH access is no longer `rsp.wrapping_sub(8)`")
if "push_implicit_access(rsp, MemoryAccessType::Read);" not in opn:
    die("op_analysis: implicit POP/RET access is no longer `rsp`")

# ---- 4. minidump.rs: memory_range / from_regions / memory_at_address of the memory lists
md = src("minidump/src/minidump.rs")
mdn = norm(md)
for need in ("pub fn memory_range(&self) -> Option<Range<u64>> { if self.size == 0 { return None; } "
             "Some(Range::new( self.base_address, self.base_address.checked_add(self.size)? - 1, )) }",
             "let regions_by_addr = regions .iter() .enumerate() .map(|(i, region)| (region.memory_range(), i)) .into_rangemap_safe();",
             "self.regions_by_addr .get(address) .and_then(|&index| self.regions.get(index))"):
    if need not in mdn:
        die("minidump.rs: memory list lookup changed shape, expected: " + need)

# ---- 5. processor.rs: guard pages
pr = src("minidump-processor/src/processor.rs")
prn = norm(pr)
m = re.search(r"const GUARD_MEMORY_MAX_SIZE: u64 = (\d+) << (\d+);", pr)
if not m:
    die("GUARD_MEMORY_MAX_SIZE not found")
guard_max = int(m.group(1)) << int(m.group(2))
for need in ("if other_range.end.checked_add(1) == Some(range.start) && is_accessible(&region) { return true; }",
             "if range.end.checked_add(1) == Some(other_range.start) { return is_accessible(&region); }",
             "if !is_accessible(&info) && range.end - range.start < GUARD_MEMORY_MAX_SIZE && is_adjacent_to_accessible_memory() {"):
    if need not in prn:
        die("check_for_guard_pages changed shape, expected: " + need)

# ---- 6. process_state.rs: limits lines
ps = norm(src("minidump-processor/src/process_state.rs"))
for need in ('l.split(" ") .filter(|x| !x.is_empty())', "if m.len() < 3 { return None; }",
             'let u = if m.len() == 3 { "n/a".to_string() } else { m[3].trim().to_string() };',
             "soft: parse_limit(&m[1]), hard: parse_limit(&m[2]),"):
    if need not in ps:
        die("LinuxProcLimits::from changed shape, expected: " + need)

# ---- 7. sym_file/mod.rs: inline-level enumeration of fill_symbol
sf = norm(src("breakpad-symbols/src/sym_file/mod.rs"))
m = re.search(r"for depth in (\d+)\.\. \{ match func\.get_inlinee_at_depth\(depth, addr\) \{ "
              r"Some\(\(call_file_id, call_line, _address, next_inline_origin\)\) => \{ .*? inline_origin = next_inline_origin; \} "
              r"None => break, \} \}", sf)
if not m:
    die("fill_symbol: the inline-level loop is no longer `for depth in 1.. { match get_inlinee_at_depth { Some => .., None => break } }`; "
        "coq/C03/FetchModel.v (inline_loop) and c03_inline_levels_bound must be re-read against it")
inline_start = int(m.group(1))
ty = norm(src("breakpad-symbols/src/sym_file/types.rs"))
if "if inlinee.depth != depth { return None; }" not in ty:
    die("get_inlinee_at_depth no longer rejects a candidate of another depth (look_sound of c03_inline_levels_bound)")

# ---- 8. processor.rs into_process_state: the two passes over the thread list (coq/C03/ProcessModel.v)
ips = norm(fn_body(pr, r"pub async fn into_process_state<P, T>\(", "into_process_state"))


def in_order(text, frags, what):
    """every fragment occurs, each after the previous one; returns nothing, dies otherwise"""
    at = 0
    for f in frags:
        k = text.find(f, at)
        if k < 0:
            die(what + ": expected fragment missing or out of order (the model's order of steps must be re-read): " + f)
        at = k + len(f)


# first pass: the dump-writer thread returns early BEFORE the context selection touches requesting_thread
in_order(ips, [
    "let crashing_thread_id = self.exception.as_ref().map(|e| e.get_crashing_thread_id());",
    "let mut requesting_thread = None;",
    ".enumerate() .map(|(i, thread)| {",
    "let id = thread.raw.thread_id;",
    "if self.dump_thread_id == Some(id) {",
    "CallStack::with_info(id, CallStackInfo::DumpThreadSkipped);",
    "return skipped; }",
    "let thread_context = thread.context(&self.dump_system_info, self.misc_info.as_ref());",
    "let context = if ",
    "requesting_thread = Some(i);",
    "} else { thread_context.as_deref() };",
    "let (info, frames) = if let Some(context) = context { let ctx = context.clone(); ( CallStackInfo::Ok, "
    "vec![StackFrame::from_context(ctx, FrameTrust::Context)], ) } else { (CallStackInfo::MissingContext, vec![]) };",
    "CallStack { frames, info, thread_id: id,",
], "into_process_state (first pass)")
OPT_NAMES = {"crashing_thread_id": "crashing", "self.requesting_thread_id": "requesting",
             "exception_context.as_deref()": "exception_context", "thread_context.as_deref()": "thread_context",
             "memory_list.memory_at_address(stack_ptr)": "by_stack_ptr", "stack_memory": "stack_memory"}


def or_expr(m, what):
    a, b = m.group(1).strip(), m.group(2).strip()
    if a not in OPT_NAMES or b not in OPT_NAMES:
        die(what + ": unrecognised operands of .or(): %r, %r" % (a, b))
    return OPT_NAMES[a], OPT_NAMES[b]


m = re.search(r"let context = if ([\w\.]+)\.or\(([\w\.]+)\) == Some\(id\) \{ requesting_thread = Some\(i\); "
              r"([\w\.\(\)]+?)\.or\(([\w\.\(\)]+?)\) \} else \{", ips)
if not m:
    die("into_process_state: the context selection is no longer `if A.or(B) == Some(id) { requesting_thread = Some(i); C.or(D) } else {..}`")
want_a, want_b = or_expr(m, "wanted thread id")


class _M:            # the second .or() of the same match
    def __init__(self, a, b):
        self.a, self.b = a, b

    def group(self, i):
        return self.a if i == 1 else self.b


ctx_a, ctx_b = or_expr(_M(m.group(3), m.group(4)), "selected context")
if {want_a, want_b} != {"crashing", "requesting"} or {ctx_a, ctx_b} != {"exception_context", "thread_context"}:
    die("into_process_state: unexpected operands in the context selection")
# second pass: order of the steps of one thread's future
in_order(ips, [
    "futures_util::future::join_all( state .threads .iter_mut() .zip(self.thread_list.threads.iter()) .enumerate() .map(|(i, (stack, thread))| async move {",
    "let mut stack_memory = thread.stack_memory(memory_list);",
    "let stack_ptr = stack .frames .first() .map(|ctx_frame| ctx_frame.context.get_stack_pointer());",
    "if let Some(stack_ptr) = stack_ptr { let contains_stack_ptr = stack_memory .as_ref() .and_then(|memory| memory.get_memory_at_address::<",
    ">(stack_ptr)) .is_some(); if !contains_stack_ptr { stack_memory =",
    "walk_stack( i,",
    "stack, stack_memory, modules, system_info, symbol_provider, ) .await;",
    "for frame in &mut stack.frames {",
    "if frame.module.is_none() {",
    "for unloaded in unloaded_modules.modules_at_address(frame.instruction) { let offset = frame.instruction - unloaded.raw.base_of_image;",
    "frame.unloaded_modules = offsets;",
    "if options.recover_function_args { arg_recovery::fill_arguments(stack, stack_memory); }",
    "reporter.inc_processed_threads();",
], "into_process_state (second pass)")
m = re.search(r"memory\.get_memory_at_address::<(u8|u16|u32|u64|u128)>\(stack_ptr\)", ips)
if not m:
    die("into_process_state: the stack-pointer probe is no longer get_memory_at_address::<uN>(stack_ptr)")
probe_bytes = int(m.group(1)[1:]) // 8
m = re.search(r"if !contains_stack_ptr \{ stack_memory = (.+?)\.or\(([\w\.]+)\); \}", ips)
if not m:
    die("into_process_state: the fall-back is no longer `stack_memory = X.or(Y);`")
fb_a, fb_b = or_expr(m, "stack-memory fall-back")
if {fb_a, fb_b} != {"by_stack_ptr", "stack_memory"}:
    die("into_process_state: unexpected operands in the stack-memory fall-back")
# MinidumpThread::stack_memory and MinidumpMemory::read's empty-descriptor test; walk_stack's prologue
for need in ("self.stack.as_ref().map(UnifiedMemory::Memory).or_else(|| { let stack_addr = self.raw.stack.start_of_memory_range; "
             "let memory = memory_list.memory_at_address(stack_addr)?; Some(memory) })",
             "if desc.memory.rva == 0 || desc.memory.data_size == 0 {",
             "let stack = MinidumpMemory::read(&raw.stack, all, endian).ok();"):
    if need not in mdn:
        die("minidump.rs: thread stack memory changed shape, expected: " + need)
if "let stack_memory = stack_memory.and_then(|stack_memory| stack_memory.memory_range().map(|_| stack_memory));" not in ws:
    die("walk_stack: the prologue no longer drops a stack memory without a valid memory_range()")
in_order(ws, ["let mut has_new_frame = !stack.frames.is_empty();", "while has_new_frame {",
              "fill_source_line_info(frame, modules, symbol_provider).await;",
              "let Some(stack_memory) = stack_memory else { break; };",
              "if callee_frame.trust != FrameTrust::Context",
              "let new_frame = get_caller_frame(",
              "if let Some(new_frame) = new_frame { stack.frames.push(new_frame); } else { has_new_frame = false; }"],
         "walk_stack (order of the loop body)")


# ---- 9. process_state.rs BitFlipDetails::confidence: the NEARBY_REGISTER table and the expression that indexes it
psrc = src("minidump-processor/src/process_state.rs")
m = re.search(r"pub const NEARBY_REGISTER: \[f32; (\d+)\] = \[([^\]]*)\];", psrc)
if not m:
    die("confidence::NEARBY_REGISTER table not found")
nearby_len = int(m.group(1))
if len([x for x in m.group(2).split(",") if x.strip()]) != nearby_len:
    die("confidence::NEARBY_REGISTER: initialiser length differs from the declared length")
m = re.search(r"if self\.nearby_registers > 0 \{ let nearby = (.+?); values\.push\(NEARBY_REGISTER\[nearby\]\); \}", ps)
if not m:
    die("BitFlipDetails::confidence: `if self.nearby_registers > 0 { let nearby = <expr>; values.push(NEARBY_REGISTER[nearby]); }` not found")
nearby_src = m.group(1)
N, L = r"self\.nearby_registers as usize", r"NEARBY_REGISTER\.len\(\)"
FORMS = [
    # min(n, len) - 1
    (r"std::cmp::min\(%s, %s\) - 1" % (N, L), "chk_sub p 64 302 (Z.min n len) 1"),
    (r"\(%s\)\.min\(%s\) - 1" % (N, L), "chk_sub p 64 302 (Z.min n len) 1"),
    # min(n - 1, len - 1)
    (r"std::cmp::min\(%s - 1, %s - 1\)" % (N, L), "do a <- chk_sub p 64 302 n 1; do b <- chk_sub p 64 302 len 1; Ret (Z.min a b)"),
    (r"\(%s - 1\)\.min\(%s - 1\)" % (N, L), "do a <- chk_sub p 64 302 n 1; do b <- chk_sub p 64 302 len 1; Ret (Z.min a b)"),
    # min(n - 1, len)
    (r"\(%s - 1\)\.min\(%s\)" % (N, L), "do a <- chk_sub p 64 302 n 1; Ret (Z.min a len)"),
    (r"std::cmp::min\(%s - 1, %s\)" % (N, L), "do a <- chk_sub p 64 302 n 1; Ret (Z.min a len)"),
    # min(n, len)
    (r"std::cmp::min\(%s, %s\)" % (N, L), "Ret (Z.min n len)"),
    (r"\(%s\)\.min\(%s\)" % (N, L), "Ret (Z.min n len)"),
]
nearby_gallina = None
for rx, g in FORMS:
    if re.fullmatch(rx, nearby_src):
        nearby_gallina = g
        break
if nearby_gallina is None:
    die("BitFlipDetails::confidence: unrecognised index expression `%s` (the model nearby_index must be re-read against it)" % nearby_src)
for need in ("const NEARBY_REGISTER_DISTANCE: u64 = 1 << 12;", "const LOW_ADDRESS_CUTOFF: u64 = NEARBY_REGISTER_DISTANCE * 2;",
             "let should_calculate_nearby_registers = self.address.0 > LOW_ADDRESS_CUTOFF;",
             "if should_calculate_nearby_registers && self.address.0.abs_diff(addr) <= NEARBY_REGISTER_DISTANCE { self.details.nearby_registers += 1; }"):
    if need not in ps:
        die("calculate_heuristics changed shape, expected: " + need)

# ---- 10. processor.rs MinidumpInfo::new: which streams are required, which are degraded to a default on error
mi = norm(fn_body(pr, r"pub fn new<T: Deref<Target = \[u8\]> \+ 'a>\(", "MinidumpInfo::new"))
stream_handling = []          # (stream type name, None | error name), in source order
for m in re.finditer(r"dump\s*\.get_stream::<(\w+)>\(\)|dump\.get_memory\(\)", mi):
    name = m.group(1) or "UnifiedMemoryList"
    tail = mi[m.end():m.end() + 160].lstrip()
    head = mi[max(0, m.start() - 40):m.start()]
    req = re.match(r"\.or\(Err\(ProcessError::(\w+)\)\)\?;", tail)
    if req:
        stream_handling.append((name, req.group(1)))
    elif (re.match(r"\.ok\(\)", tail) or re.match(r"\.unwrap_or_default\(\)", tail)
          or re.match(r"\.unwrap_or_else\(\|_\| %s::default\(\)\)" % name, tail)
          or (head.rstrip().endswith("match") and re.match(r"\{ Ok\(module_list\) => module_list, Err\(_\) => %s::new\(\), \}" % name, tail))
          or (tail.startswith("; let (dump_thread_id, requesting_thread_id) = if let Ok(info) = breakpad_info {")
              and "} else { (None, None) };" in mi[m.end():m.end() + 260])):
        stream_handling.append((name, None))
    else:
        die("MinidumpInfo::new: unrecognised handling of the %s stream: ...%s" % (name, tail[:100]))
if len(set(n for n, _ in stream_handling)) != len(stream_handling):
    die("MinidumpInfo::new: a stream is read twice")
if not stream_handling:
    die("MinidumpInfo::new: no stream reads found")
errs = sorted(set(e for _, e in stream_handling if e))

ALL = ["CpuX86", "CpuAmd64", "CpuArm", "CpuArm64", "CpuArm64Old", "CpuMips", "CpuPpc", "CpuPpc64", "CpuSparc", "CpuUnknown"]
out = """(* GENERATED by translate/c03_sites.py from minidump-unwind/src/lib.rs, minidump-processor/src/{op_analysis,processor,process_state}.rs,
   minidump/src/minidump.rs, breakpad-symbols/src/sym_file/{mod,types}.rs — do not edit.
   Besides these values the translator pins the shape of: get_caller_frame's dispatch, walk_stack's loop, get_thread_instruction_bytes,
   the implicit stack accesses, memory_range / from_regions / memory_at_address, check_for_guard_pages, LinuxProcLimits::from,
   fill_symbol's inline-level loop and get_inlinee_at_depth's depth test; (round 5) the order of the steps of both passes of
   into_process_state, MinidumpThread::stack_memory, MinidumpMemory::read's empty-descriptor test, walk_stack's prologue and loop-body order. *)
From Coq Require Import ZArith List. From RM Require Import Base.Word. Import ListNotations. Open Scope Z_scope.
(* the context variants with a `=> <arch>::get_caller_frame(ctx, args).await` arm, in source order; everything else is `_ => None` *)
Inductive gen_cpu := %s.
Definition gen_unwinder_arms : list gen_cpu := [%s].
Definition gen_guard_memory_max_size : Z := %d.
Definition gen_inline_first_depth : Z := %d.
(* into_process_state (round 5).  `a.or(b)` of Option: *)
Definition gen_or {A : Type} (a b : option A) : option A := match a with Some _ => a | None => b end.
(* `if %s.or(%s) == Some(id)`: the thread id a thread must have to count as the requesting thread *)
Definition gen_wanted_id (crashing requesting : option Z) : option Z := gen_or %s %s.
(* `%s.or(%s)`: the context such a thread is walked from *)
Definition gen_selected_context {A : Type} (exception_context thread_context : option A) : option A := gen_or %s %s.
(* `if !contains_stack_ptr { stack_memory = %s.or(%s) }` *)
Definition gen_stack_fallback {A : Type} (by_stack_ptr stack_memory : option A) : option A := gen_or %s %s.
(* contains_stack_ptr = stack_memory.get_memory_at_address::<u%d>(stack_ptr).is_some(): size of the probe in bytes *)
Definition gen_stack_probe_bytes : Z := %d.
(* BitFlipDetails::confidence (round 5): `let nearby = %s;` then NEARBY_REGISTER[nearby]; n = self.nearby_registers as usize,
   len = NEARBY_REGISTER.len(); usize `-` is chk_sub (traps in a debug build, wraps in release) *)
Definition gen_nearby_table_len : Z := %d.
Definition gen_nearby_index (p : profile) (n len : Z) : outcome Z := %s.
(* MinidumpInfo::new (round 5): every `dump.get_stream::<X>()` / `dump.get_memory()` in source order, with the ProcessError a failed
   read is turned into (`.or(Err(ProcessError::E))?`) or None when the failure is degraded to a default / None
   (`.ok()`, `.unwrap_or_default()`, `.unwrap_or_else(|_| X::default())`, `match .. { Err(_) => X::new() }`, `if let Ok(..) .. else ..`) *)
Inductive gen_stream := %s.
Inductive gen_process_error := %s.
Definition gen_stream_handling : list (gen_stream * option gen_process_error) := [%s].
""" % (" | ".join("G" + c for c in ALL), "; ".join("G" + c for c in unwinders), guard_max, inline_start,
       want_a, want_b, want_a, want_b, ctx_a, ctx_b, ctx_a, ctx_b, fb_a, fb_b, fb_a, fb_b, probe_bytes * 8, probe_bytes, nearby_src, nearby_len, nearby_gallina,
       " | ".join("GS_" + n for n, _ in stream_handling), " | ".join("GE_" + e for e in errs),
       "; ".join("(GS_%s, %s)" % (n, "Some GE_" + e if e else "None") for n, e in stream_handling))
os.makedirs(outdir, exist_ok=True)
path = os.path.join(outdir, "C03Sites.v")
old = open(path).read() if os.path.exists(path) else None
if old != out:
    with open(path, "w") as f:
        f.write(out)
