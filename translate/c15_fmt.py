#!/usr/bin/env python3
"""Translator: the formatting code behind the hex strings and the proc_limits values of print_json -> coq/Gen/C15Fmt.v.
  * `impl std::fmt::Display for Address` (process_state.rs): the default of the thread-local pointer width
    (`unwrap_or(PointerWidth::X)`) and, per match arm, the pointer-width pattern, the total width N of the `{:#0Nx}`
    format and the formatted expression (`self.0`, or `self.0 as uK` = a truncating cast);
  * that every Address reaches the document through that Display impl: `#[serde(into = "String")]` on Address,
    `impl From<Address> for String` = `a.to_string()`, `json_hex` = `Address(address).to_string()`, and set_print_context
    stores `self.system_info.cpu.pointer_width()` (called by print_json before the document is built);
  * `impl serde::Serialize for Limit`: per arm the variant and what is written (`serialize_str("text")` / `serialize_u64(val)`);
    a match guard or any other serializer call is not modelled;
  * `cpu_microcode_version`: `format!("{num:#x}")`;
  * minidump_common::utils::basename: `match f.rfind([separators]) { None => f, Some(index) => &f[(index + 1)..] }` -> the separators.
Theorem c15_format_pinned states that the arms are the ones the hand-written model (address_str, json_of_lim) was written for and
c15_format_semantics that address_str / json_of_lim render exactly what those arms say, so an edit of a width, of the formatted
expression or of a Limit arm breaks a proof obligation even when no generated state exhibits the difference.
argv: <repo> <outdir>.  Aborts loudly on anything it does not recognise."""
import os
import re
import sys

repo, outdir = sys.argv[1], sys.argv[2]


def die(msg):
    sys.stderr.write("c15_fmt.py: " + msg + "\n")
    sys.exit(1)


ps = open(os.path.join(repo, "minidump-processor/src/process_state.rs")).read()
nocomment = re.sub(r"//[^\n]*", "", ps)


def squash(s):
    return re.sub(r"\s+", " ", s).strip()


# ---------------------------------------------------------------- Display for Address
m = re.search(r"impl std::fmt::Display for Address \{\s*fn fmt\(&self, f: &mut std::fmt::Formatter\) -> std::fmt::Result \{(.*?)\n    \}\n\}", nocomment, re.S)
if not m:
    die("impl std::fmt::Display for Address not found in the recognised shape")
body = squash(m.group(1))
m2 = re.match(r"^let pointer_width = SERIALIZATION_CONTEXT \.with\(\|ctx\| ctx\.borrow\(\)\.pointer_width\.unwrap_or\(PointerWidth::(\w+)\)\); "
              r"match pointer_width \{ (.*) \}$", body)
if not m2:
    die("Display for Address: body not recognised: %r" % body[:300])
WIDTHS = {"Bits32": 0, "Bits64": 1, "Unknown": 2}
if m2.group(1) not in WIDTHS:
    die("Display for Address: unknown default pointer width %r" % m2.group(1))
default_width = WIDTHS[m2.group(1)]
arms = []
rest = m2.group(2).strip()
arm_re = re.compile(r'^(PointerWidth::(\w+)|_) => write!\(f, "\{:#0(\d+)x\}", (self\.0(?: as u(8|16|32|64))?)\),?\s*')
while rest:
    a = arm_re.match(rest)
    if not a:
        die("Display for Address: match arm not recognised (guards, other format strings and other expressions are not modelled): %r" % rest[:200])
    if a.group(1) == "_":
        pat = -1
    else:
        if a.group(2) not in WIDTHS:
            die("Display for Address: unknown pointer width pattern %r" % a.group(2))
        pat = WIDTHS[a.group(2)]
    arms.append((pat, int(a.group(3)), int(a.group(5)) if a.group(5) else 0))
    rest = rest[a.end():]
if not arms or arms[-1][0] != -1 and len({p for p, _, _ in arms}) < 3:
    die("Display for Address: the match is not exhaustive in the recognised way")

# every Address goes through Display
need = [
    (r'#\[serde\(into = "String"\)\]\s*pub struct Address\(pub u64\);', '#[serde(into = "String")] pub struct Address(pub u64)'),
    (r"impl From<Address> for String \{\s*fn from\(a: Address\) -> Self \{\s*a\.to_string\(\)\s*\}\s*\}", "impl From<Address> for String = a.to_string()"),
    (r"fn json_hex\(address: u64\) -> String \{\s*Address\(address\)\.to_string\(\)\s*\}", "json_hex = Address(address).to_string()"),
    (r"fn set_print_context\(&self\) \{\s*SERIALIZATION_CONTEXT\.with\(\|ctx\| \{\s*ctx\.borrow_mut\(\)\.pointer_width = Some\(self\.system_info\.cpu\.pointer_width\(\)\);\s*\}\);\s*\}",
     "set_print_context stores self.system_info.cpu.pointer_width()"),
    (r'"cpu_microcode_version": sys\.cpu_microcode_version\.map\(\|num\| format!\("\{num:#x\}"\)\)', 'cpu_microcode_version = format!("{num:#x}")'),
]
for rx, what in need:
    if not re.search(rx, nocomment):
        die("not found in the recognised shape: " + what)
i = nocomment.find("pub fn print_json<T: Write>(")
j = nocomment.find("let mut output = json!({", i)
if i < 0 or j < 0 or "self.set_print_context();" not in nocomment[i:j]:
    die("print_json no longer calls self.set_print_context() before building the document")

# ---------------------------------------------------------------- Serialize for Limit
m = re.search(r"impl serde::Serialize for Limit \{\s*fn serialize<S>\(&self, serializer: S\) -> Result<S::Ok, S::Error>\s*where\s*S: serde::Serializer,\s*\{\s*match \*self \{(.*?)\}\s*\}\s*\}",
              nocomment, re.S)
if not m:
    die("impl serde::Serialize for Limit not found in the recognised shape")
rest = squash(m.group(1))
VARIANTS = {"Error": 0, "Unlimited": 1, "Limited": 2}
lim_arms = []
lim_re = re.compile(r'^Limit::(\w+)(?:\((\w+)\))? => serializer\.(?:serialize_str\("([^"\\]*)"\)|serialize_u64\((\w+)\)),?\s*')
while rest:
    a = lim_re.match(rest)
    if not a:
        die("Serialize for Limit: match arm not recognised (guards and other serializer calls are not modelled): %r" % rest[:200])
    v = a.group(1)
    if v not in VARIANTS:
        die("Serialize for Limit: unknown variant %r" % v)
    if a.group(4) is not None:
        if a.group(2) is None or a.group(4) != a.group(2):
            die("Serialize for Limit: serialize_u64 of something else than the variant's payload")
        lim_arms.append((VARIANTS[v], None))
    else:
        lim_arms.append((VARIANTS[v], a.group(3)))
    rest = rest[a.end():]
if sorted(v for v, _ in lim_arms) != [0, 1, 2]:
    die("Serialize for Limit: expected exactly one arm per variant, got %r" % (lim_arms,))
em = re.search(r"pub enum Limit \{(.*?)\}", nocomment, re.S)
if not em or squash(em.group(1)) != "Error, Unlimited, Limited(u64),":
    die("enum Limit is no longer { Error, Unlimited, Limited(u64) }")


# ---------------------------------------------------------------- basename (minidump-common/src/utils.rs)
ut = re.sub(r"//[^\n]*", "", open(os.path.join(repo, "minidump-common/src/utils.rs")).read())
bm = re.search(r"pub fn basename\(f: &str\) -> &str \{\s*match f\.rfind\(\[(.*?)\]\) \{\s*None => f,\s*Some\(index\) => &f\[\(index \+ 1\)\.\.\],\s*\}\s*\}", ut, re.S)
if not bm:
    die("minidump_common::utils::basename is no longer `match f.rfind([...]) { None => f, Some(index) => &f[(index + 1)..] }`")
seps = []
for tok in [t.strip() for t in bm.group(1).split(",") if t.strip()]:
    cm = re.match(r"^'(\\\\|[^'\\])'$", tok)
    if not cm:
        die("basename: separator %r not recognised" % tok)
    seps.append(ord("\\") if cm.group(1) == "\\\\" else ord(cm.group(1)))
if "use minidump_common::utils::basename;" not in nocomment:
    die("process_state.rs no longer imports minidump_common::utils::basename")


# ---------------------------------------------------------------- possible_bit_flips[].confidence: which float goes through serde
# C15/Float.v models Value::from(f32): the binary32 is widened to binary64 and printed by ryu.  That is only what happens while the field is an
# `Option<f32>` of a struct with a DERIVED Serialize, without a serde attribute of its own, handed to json! as it is.
sm = re.search(r"#\[derive\(([^)]*)\)\]\s*pub struct PossibleBitFlip \{(.*?)\n\}", nocomment, re.S)
if not sm:
    die("struct PossibleBitFlip (with its derive list) not found")
if "Serialize" not in [d.strip().split("::")[-1] for d in sm.group(1).split(",")]:
    die("PossibleBitFlip no longer derives Serialize: how possible_bit_flips is written is not modelled")
fields = re.findall(r"((?:\s*#\[[^\]]*\])*)\s*pub (\w+): ([^,\n]+),", sm.group(2))
conf = [(attrs, ty.strip()) for attrs, name, ty in fields if name == "confidence"]
if len(conf) != 1:
    die("PossibleBitFlip: expected exactly one field `confidence`, got %r" % (conf,))
if conf[0][0].strip():
    die("PossibleBitFlip.confidence carries an attribute (%s): its serialisation is not the derived one the model renders" % squash(conf[0][0]))
cm2 = re.match(r"^Option<f(32|64)>$", conf[0][1])
if not cm2:
    die("PossibleBitFlip.confidence has type %r, expected Option<f32>" % conf[0][1])
confidence_bits = int(cm2.group(1))
if [name for _, name, _ in fields] != ["address", "source_register", "details", "confidence"]:
    die("PossibleBitFlip fields changed: %r" % ([name for _, name, _ in fields],))
if not re.search(r'"possible_bit_flips": self\.exception_info\.as_ref\(\)\.and_then\(\|info\| \{\s*\(!info\.possible_bit_flips\.is_empty\(\)\)\.then_some\(&info\.possible_bit_flips\)\s*\}\),', nocomment):
    die("print_json no longer hands `&info.possible_bit_flips` (non-empty) to json! as it is")


# ---------------------------------------------------------------- MinidumpModule::version (minidump/src/minidump.rs), printed as modules[].version
mdsrc = re.sub(r"//[^\n]*", "", open(os.path.join(repo, "minidump/src/minidump.rs")).read())
fmtsrc = re.sub(r"//[^\n]*", "", open(os.path.join(repo, "minidump-common/src/format.rs")).read())
impl_at = mdsrc.find("impl Module for MinidumpModule {")
if impl_at < 0:
    die("impl Module for MinidumpModule not found")
vstart = mdsrc.find("fn version(&self)", impl_at)
vend = mdsrc.find("impl MinidumpUnloadedModule {", vstart)
if vstart < 0 or vend < 0:
    die("MinidumpModule::version not found")
vbody = squash(mdsrc[vstart:vend])
ARG = r"self\.raw\.version_info\.(\w+)(?: (>>|&) (0x[0-9a-fA-F]+|\d+))?"
FMT = r'let ver = format!\( "\{\}\.\{\}\.\{\}\.\{\}", ' + ", ".join([ARG] * 4) + r",? \); Some\(Cow::Owned\(ver\)\)"
vm = re.match(r"^fn version\(&self\) -> Option<Cow<'_, str>> \{ if self\.raw\.version_info\.signature == md::(\w+) && self\.raw\.version_info\.struct_version == md::(\w+) "
              r"\{ if matches!\(self\.os, ([^)]*)\) \{ " + FMT + r" \} else \{ " + FMT + r" \} \} else \{ None \} \} \}$", vbody)
if not vm:
    die("MinidumpModule::version no longer has the shape `if signature == .. && struct_version == .. { if matches!(self.os, ..) { format!(\"{}.{}.{}.{}\", ..) } else { format!(..) } } else { None }`: %r" % vbody[:300])
g = vm.groups()


def md_const(name):
    m_ = re.search(r"pub const %s: u32 = (0x[0-9a-fA-F_]+|\d+);" % re.escape(name), fmtsrc)
    if not m_:
        die("minidump_common::format::%s (u32 constant) not found" % name)
    return int(m_.group(1).replace("_", ""), 0)


ver_sig, ver_struct = md_const(g[0]), md_const(g[1])
osm = re.search(r"pub enum Os \{(.*?)\}", re.sub(r"//[^\n]*", "", open(os.path.join(repo, "minidump/src/system_info.rs")).read()), re.S)
if not osm:
    die("enum Os not found")
os_variants = [re.sub(r"\(.*", "", v.strip()) for v in osm.group(1).split(",") if v.strip()]
split_os = []
for tok in [t.strip() for t in g[2].split("|")]:
    if not tok.startswith("Os::") or tok[4:] not in os_variants:
        die("MinidumpModule::version: pattern %r is not a variant of Os" % tok)
    split_os.append(os_variants.index(tok[4:]))
VFIELDS = {"file_version_hi": 0, "file_version_lo": 1, "product_version_hi": 2, "product_version_lo": 3}


def ver_arm(gs):
    arm = []
    for i in range(4):
        fld, op, num = gs[3 * i:3 * i + 3]
        if fld not in VFIELDS:
            die("MinidumpModule::version: field %r not recognised" % fld)
        arm.append((VFIELDS[fld], {None: 0, ">>": 1, "&": 2}[op], int(num, 0) if num else 0))
    return arm


ver_split, ver_else = ver_arm(g[3:15]), ver_arm(g[15:27])
if '"version": module.version(),' not in nocomment:
    die("print_json no longer prints `\"version\": module.version()`")


def coqstr(s):
    return "[" + ";".join(str(ord(c)) for c in s) + "]"


out = ("(* GENERATED by translate/c15_fmt.py from minidump-processor/src/process_state.rs — do not edit *)\n"
       "From Coq Require Import ZArith List.\nImport ListNotations.\nOpen Scope Z_scope.\n\n"
       "(* Display for Address: per match arm (pointer-width pattern: 0 Bits32, 1 Bits64, 2 Unknown, -1 `_`;\n"
       "   total width N of `{:#0Nx}`; 0 = the formatted expression is self.0, K = it is `self.0 as uK`) *)\n"
       "Definition ADDRESS_ARMS : list (Z * Z * Z) :=\n  [" + "; ".join("(%d, %d, %d)" % a for a in arms) + "].\n"
       "(* the pointer width when the thread-local holds none: unwrap_or(PointerWidth::...) *)\n"
       "Definition ADDRESS_DEFAULT_WIDTH : Z := %d.\n\n" % default_width +
       "(* Serialize for Limit: per arm (variant: 0 Error, 1 Unlimited, 2 Limited(val); Some text = serialize_str(text), None = serialize_u64(val)) *)\n"
       "Definition LIMIT_ARMS : list (Z * option (list Z)) :=\n  [" +
       "; ".join("(%d, %s)" % (v, "None" if t is None else "Some %s (* %s *)" % (coqstr(t), t)) for v, t in lim_arms) + "].\n\n"
       "(* minidump_common::utils::basename: the characters f.rfind([...]) looks for; the result is the text after the last of them *)\n"
       "Definition BASENAME_SEPARATORS : list Z := [" + "; ".join(str(c) for c in seps) + "].\n\n"
       "(* PossibleBitFlip.confidence is an Option<fN> serialised by the derived Serialize (no attribute), handed to json! as it is: N *)\n"
       "Definition CONFIDENCE_FLOAT_BITS : Z := %d.\n\n" % confidence_bits +
       "(* MinidumpModule::version (minidump/src/minidump.rs): Some only when version_info.signature / struct_version equal these constants of\n"
       "   minidump-common/src/format.rs; for the Os variants (indices in declaration order) of the matches! the first arm, else the second;\n"
       "   an arm = the four arguments of format!(\"{}.{}.{}.{}\"): (field: 0 file_version_hi 1 file_version_lo 2 product_version_hi 3 product_version_lo,\n"
       "   operator: 0 none 1 `>>` 2 `&`, operand) *)\n"
       "Definition VERSION_SIGNATURE : Z := %d.\nDefinition VERSION_STRUCVERSION : Z := %d.\n" % (ver_sig, ver_struct) +
       "Definition VERSION_SPLIT_OS : list Z := [%s].\n" % "; ".join(map(str, split_os)) +
       "Definition VERSION_ARM_SPLIT : list (Z * Z * Z) := [%s].\n" % "; ".join("(%d, %d, %d)" % a for a in ver_split) +
       "Definition VERSION_ARM_ELSE : list (Z * Z * Z) := [%s].\n" % "; ".join("(%d, %d, %d)" % a for a in ver_else))
path = os.path.join(outdir, "C15Fmt.v")
os.makedirs(outdir, exist_ok=True)
try:
    if open(path).read() == out:
        sys.exit(0)
except OSError:
    pass
open(path, "w").write(out)
