#!/usr/bin/env python3
"""Translator for C18: /repo/minidump/src/context.rs + /repo/minidump-common/src/format.rs
-> coq/Gen/ContextTables.v (+ coq/Gen/context_names.json for the case generator).

usage: context_tables.py <repo> <outdir>

Parses the fixed subset of Rust that the nine `impl CpuContext for md::CONTEXT_*` blocks and
the `MinidumpContext` dispatch methods are written in (string-literal match arms onto
`self.field` / `self.arr[N]` / `self.arr[md::Enum::Variant as usize]`).  Anything it does
not recognise aborts with a non-zero exit status: a table that cannot be translated must
not be silently skipped.  The output file is rewritten only when its content changes."""
import json
import os
import re
import sys


class Abort(Exception):
    pass


def die(msg):
    raise Abort(msg)


def strip_comments(src):
    """remove // and /* */ comments, keep string literals intact"""
    out = []
    i, n = 0, len(src)
    while i < n:
        c = src[i]
        if c == '"':
            j = i + 1
            while j < n and src[j] != '"':
                j += 2 if src[j] == "\\" else 1
            out.append(src[i:j + 1])
            i = j + 1
        elif src.startswith("//", i):
            j = src.find("\n", i)
            i = n if j < 0 else j
        elif src.startswith("/*", i):
            j = src.find("*/", i)
            if j < 0:
                die("unterminated block comment")
            i = j + 2
        elif c == "'" and i + 2 < n and src[i + 2] == "'":
            out.append(src[i:i + 3])
            i += 3
        else:
            out.append(c)
            i += 1
    return "".join(out)


def match_brace(s, i, open_c="{", close_c="}"):
    """s[i] == open_c; index of the matching close (string literals skipped)"""
    assert s[i] == open_c, (s[i:i + 20], open_c)
    depth, j, n = 0, i, len(s)
    while j < n:
        c = s[j]
        if c == '"':
            j += 1
            while j < n and s[j] != '"':
                j += 2 if s[j] == "\\" else 1
        elif c == open_c:
            depth += 1
        elif c == close_c:
            depth -= 1
            if depth == 0:
                return j
        j += 1
    die("unbalanced %s" % open_c)


def norm(s):
    return re.sub(r"\s+", " ", s).strip()


def split_top(s, sep=","):
    """split on sep at nesting depth 0 (strings skipped)"""
    parts, depth, cur, i, n = [], 0, [], 0, len(s)
    while i < n:
        c = s[i]
        if c == '"':
            j = i + 1
            while j < n and s[j] != '"':
                j += 2 if s[j] == "\\" else 1
            cur.append(s[i:j + 1])
            i = j + 1
            continue
        if c in "([{":
            depth += 1
        elif c in ")]}":
            depth -= 1
        if c == sep and depth == 0:
            parts.append("".join(cur))
            cur = []
        else:
            cur.append(c)
        i += 1
    if "".join(cur).strip():
        parts.append("".join(cur))
    return [p.strip() for p in parts]


STR = r'"([A-Za-z0-9_$.]*)"'


def strip_attrs(item):
    """drop leading #[...] attributes (brackets may nest)"""
    item = item.strip()
    while item.startswith("#["):
        item = item[match_brace(item, 1, "[", "]") + 1:].strip()
    return item


def parse_pats(p, where):
    names = [x.strip() for x in p.split("|")]
    out = []
    for x in names:
        m = re.fullmatch(STR, x)
        if not m:
            die("%s: unrecognised match pattern %r" % (where, p))
        out.append(m.group(1))
    return out


def match_arms(body, where):
    """body of `match X { ... }` -> list of (pattern text, rhs text); a `{ .. }` rhs needs no comma"""
    arms = []
    i, n = 0, len(body)
    while True:
        while i < n and body[i] in " \t\r\n,":
            i += 1
        if i >= n:
            break
        j = body.find("=>", i)
        if j < 0:
            die("%s: unrecognised match arm %r" % (where, body[i:i + 80]))
        pat = body[i:j].strip()
        k = j + 2
        while k < n and body[k] in " \t\r\n":
            k += 1
        if k < n and body[k] == "{":
            e = match_brace(body, k)
            arms.append((pat, body[k + 1:e].strip()))
            i = e + 1
        else:
            rest = split_top(body[k:])
            if not rest:
                die("%s: empty match arm for %r" % (where, pat))
            rhs = rest[0]
            arms.append((pat, rhs))
            # advance past this rhs and its comma
            depth, m = 0, k
            while m < n:
                c = body[m]
                if c == '"':
                    m += 1
                    while m < n and body[m] != '"':
                        m += 2 if body[m] == "\\" else 1
                elif c in "([{":
                    depth += 1
                elif c in ")]}":
                    depth -= 1
                elif c == "," and depth == 0:
                    break
                m += 1
            i = m + 1
    return arms


# ---------------------------------------------------------------------------------------------
# The bodies of the dedicated accessors (MinidumpContext::get_stack_pointer / get_instruction_pointer arms) are
# translated as EXPRESSIONS over the context's integer fields (C18/Tables.v `aexp`), not only as one location:
#   block  ::= { `let` x `=` e `;` }* e
#   e      ::= e `||` e | e `&&` e | e (`==`|`!=`) e | e `|` e | e `^` e | e `&` e | e (`<<`|`>>`) INT | e `as` uN | `!` e
#            | `if` e `{` block `}` `else` `{` block `}` | `(` e `)` | INT | NAMED_CONST | x | place
#   place  ::= ctx.f | ctx.f[INT] | ctx.f[md::Enum::Variant as usize]
# with Rust's precedences and a width for every node (integer literals take the width of the other operand).
# Arithmetic that can trap or wrap (+ - * / %, method calls) is NOT accepted: the translator aborts.
TOK = re.compile(r"\s*(\"[A-Za-z0-9_$.]*\"|0x[0-9a-fA-F_]+(?:u\d+|usize)?|\d[\d_]*(?:u\d+|usize)?|[A-Za-z_][A-Za-z0-9_]*(?:::[A-Za-z_][A-Za-z0-9_]*)*"
                 r"|<<|>>|==|!=|&&|\|\||[-+*/%&|^!()\[\]{}.;=<>,])")


def tokenize(s, where):
    out, i = [], 0
    s = s.strip()
    while i < len(s):
        m = TOK.match(s, i)
        if not m:
            die("%s: cannot tokenise %r" % (where, s[i:i + 40]))
        out.append(m.group(1))
        i = m.end()
    return out


class ExprParser:
    """produces nodes (kind, width, ...); width is an int, 'bool' or None (untyped literal)"""

    def __init__(self, tr, toks, ctxname, where, recv):
        self.tr, self.t, self.i, self.ctx, self.w, self.recv = tr, toks, 0, ctxname, where, recv

    def peek(self):
        return self.t[self.i] if self.i < len(self.t) else None

    def take(self, want=None):
        tok = self.peek()
        if tok is None or (want is not None and tok != want):
            die("%s: expected %r, found %r in accessor body %r" % (self.w, want, tok, " ".join(self.t)))
        self.i += 1
        return tok

    def bad(self, what):
        die("%s: %s in accessor body %r (not in the subset C18/Tables.v aexp models)" % (self.w, what, " ".join(self.t)))

    def block(self, env):
        env = dict(env)
        lets = []
        while self.peek() == "let":
            self.take()
            x = self.take()
            if not re.fullmatch(r"[a-z_][a-z0-9_]*", x) or x in (self.recv, "self"):
                self.bad("let pattern %r" % x)
            self.take("=")
            e = self.expr(env)
            self.take(";")
            if e[1] is None:
                self.bad("untyped let %r" % x)
            env[x] = e[1]
            lets.append((x, e))
        body = self.expr(env)
        for x, e in reversed(lets):
            body = ("let", body[1], x, e, body)
        return body

    LEVELS = [["||"], ["&&"], ["==", "!="], ["|"], ["^"], ["&"], ["<<", ">>"]]

    def expr(self, env, lvl=0):
        if lvl == len(self.LEVELS):
            return self.cast(env)
        a = self.expr(env, lvl + 1)
        while self.peek() in self.LEVELS[lvl]:
            op = self.take()
            b = self.expr(env, lvl + 1)
            a = self.binop(op, a, b)
            if op in ("==", "!=") and self.peek() in ("==", "!="):
                self.bad("chained comparison")
        if self.peek() in ("+", "-", "*", "/", "%", "<", ">", "."):
            self.bad("operator %r" % self.peek())
        return a

    def lit_to(self, e, width):
        if e[0] != "lit" or not isinstance(width, int):
            self.bad("operand without an integer type")
        if not 0 <= e[2] < (1 << width):
            self.bad("literal %d does not fit u%d" % (e[2], width))
        return ("lit", width, e[2])

    def typed(self, e, width):
        """give an untyped literal (possibly under `!`) the integer type u<width>"""
        if e[1] is not None:
            return e
        if e[0] == "not":
            return ("not", width, self.typed(e[2], width))
        if e[0] in ("shl", "shr"):
            if not (isinstance(width, int) and e[3] < width):
                self.bad("shift amount out of range")
            return (e[0], width, self.typed(e[2], width), e[3])
        return self.lit_to(e, width)

    def unify(self, a, b):
        if a[1] is None and b[1] is None:
            self.bad("two untyped literals")
        if a[1] is None:
            a = self.typed(a, b[1])
        if b[1] is None:
            b = self.typed(b, a[1])
        if a[1] != b[1]:
            self.bad("operands of different types (u%s, u%s)" % (a[1], b[1]))
        return a, b

    def binop(self, op, a, b):
        if op in ("||", "&&"):
            if a[1] != "bool" or b[1] != "bool":
                self.bad("%s on non-bool" % op)
            return ("bor" if op == "||" else "band", "bool", a, b)
        if op in ("==", "!="):
            a, b = self.unify(a, b)
            if a[1] == "bool":
                self.bad("comparison of bools")
            return ("eq" if op == "==" else "ne", "bool", a, b)
        if op in ("<<", ">>"):
            if b[0] != "lit" or a[1] == "bool" or b[2] < 0 or (a[1] is not None and b[2] >= a[1]):
                self.bad("shift by a non-literal or out-of-range amount")
            return ("shl" if op == "<<" else "shr", a[1], a, b[2])
        a, b = self.unify(a, b)
        if a[1] == "bool":
            self.bad("bitwise operator on bools")
        return ({"&": "and", "|": "or", "^": "xor"}[op], a[1], a, b)

    def cast(self, env):
        e = self.unary(env)
        while self.peek() == "." and self.t[self.i + 1:self.i + 4] == ["into", "(", ")"]:
            # `.into()` in a u64 position: the value-preserving widening From<uN> for u64
            self.i += 4
            if not isinstance(e[1], int):
                self.bad(".into() on a non-integer")
            e = ("cast", 64, e, e[1])
        while self.peek() == "as":
            self.take()
            ty = self.take()
            m = re.fullmatch(r"u(8|16|32|64)", ty)
            if not m:
                self.bad("cast to %r" % ty)
            to = int(m.group(1))
            if e[1] is None:
                e = self.typed(e, to)
            elif e[1] == "bool":
                self.bad("cast of a bool")
            else:
                e = ("cast", to, e, e[1])
        return e

    def unary(self, env):
        tok = self.peek()
        if tok == "!":
            self.take()
            e = self.unary(env)
            if e[1] == "bool":
                return ("bnot", "bool", e)
            return ("not", e[1], e)          # width may still be None: `!1` takes it from the other operand
        if tok == "-":
            self.bad("unary minus")
        return self.atom(env)

    def atom(self, env):
        tok = self.take()
        if tok == "(":
            e = self.expr(env)
            self.take(")")
            return e
        if tok == "if":
            c = self.expr(env)
            if c[1] != "bool":
                self.bad("if on a non-bool")
            self.take("{")
            a = self.block(env)
            self.take("}")
            self.take("else")
            self.take("{")
            b = self.block(env)
            self.take("}")
            a, b = self.unify(a, b)
            return ("if", a[1], c, a, b)
        m = re.fullmatch(r"(0x[0-9a-fA-F_]+|\d[\d_]*)(u\d+|usize)?", tok)
        if m:
            v = int(m.group(1).replace("_", ""), 0)
            if m.group(2) == "usize":
                self.bad("usize literal")
            return self.lit_to(("lit", None, v), int(m.group(2)[1:])) if m.group(2) else ("lit", None, v)
        if tok in ("true", "false"):
            return ("blit", "bool", tok == "true")
        if tok == "which":
            # the validity set of `if let MinidumpContextValidity::Some(ref which) = valid`
            for want in (".", "contains", "("):
                self.take(want)
            arg = self.take()
            self.take(")")
            if arg == "reg":
                return ("bvar", "bool", "$contains")
            lm = re.fullmatch(STR, arg)
            if not lm:
                self.bad("which.contains(%s)" % arg)
            return ("bvar", "bool", "$has:" + lm.group(1))      # membership of a literal name
        if tok == "get" and self.recv == "$size":
            # MinidumpContext::register_size: `get(ctx)` = std::mem::size_of::<T::Register>() (usize, 64 bits here)
            for want in ("(", "ctx", ")"):
                self.take(want)
            return ("var", 64, "$size")
        if tok == self.recv:
            self.take(".")
            field = self.take()
            if field == "memoize_register" and self.peek() == "(":
                for want in ("(", "reg", ")", ".", "is_some", "(", ")"):
                    self.take(want)
                return ("bvar", "bool", "$memo")
            if field == "get_register_always" and self.peek() == "(":
                # the forwarded CpuContext call, as a variable of the context's Register type
                for want in ("(", "reg", ")"):
                    self.take(want)
                if self.ctx is None:
                    # MinidumpContext's own (type-erased, u64) get_register_always
                    return ("var", 64, "$mga")
                return ("var", self.tr.widths[self.ctx], "$ga")
            if field == "register_is_valid" and self.peek() == "(":
                # dispatch arms pass `&self.valid`, the trait's own get_register passes its `valid` parameter
                for want in (("(", "reg", ",", "&", "self", ".", "valid", ")") if self.recv == "ctx" else ("(", "reg", ",", "valid", ")")):
                    self.take(want)
                return ("bvar", "bool", "$iv")
            idx = None
            if self.peek() == "[":
                self.take()
                it = self.take()
                if re.fullmatch(r"\d+", it):
                    idx = int(it)
                else:
                    mm = re.fullmatch(r"md::(\w+)::(\w+)", it)
                    en = self.tr.enums.get(mm.group(1)) if mm else None
                    if en is None or mm.group(2) not in en:
                        self.bad("index %r" % it)
                    self.take("as")
                    self.take("usize")
                    idx = en[mm.group(2)]
                self.take("]")
            l = self.tr.check_loc(self.ctx, field, idx, self.w)
            return ("loc", l[2], l)
        if re.fullmatch(r"[a-z_][a-z0-9_]*", tok) and tok in env:
            return ("var", env[tok], tok)
        if re.fullmatch(r"(?:md::)?[A-Z][A-Z0-9_]*", tok):
            return self.tr.named_const(tok, self.w)
        self.bad("token %r" % tok)


def fix_widths(e, where):
    """push widths into `!lit` nodes that were unified late; reject anything still untyped"""
    k = e[0]
    if k in ("lit",):
        if e[1] is None:
            die("%s: untyped literal left in accessor expression" % where)
        return e
    if k in ("loc", "var", "blit", "bvar"):
        return e
    if k == "not":
        sub = e[2]
        if sub[1] is None:
            die("%s: `!` of an untyped literal" % where)
        return ("not", sub[1], fix_widths(sub, where))
    if k == "bnot":
        return (k, e[1], fix_widths(e[2], where))
    if k == "cast":
        return (k, e[1], fix_widths(e[2], where), e[3])
    if k in ("shl", "shr"):
        return (k, e[1], fix_widths(e[2], where), e[3])
    if k == "let":
        return (k, e[1], e[2], fix_widths(e[3], where), fix_widths(e[4], where))
    if k == "if":
        return (k, e[1], fix_widths(e[2], where), fix_widths(e[3], where), fix_widths(e[4], where))
    return (k, e[1], fix_widths(e[2], where), fix_widths(e[3], where))


class Tr:
    def __init__(self, repo):
        self.ctx_src = strip_comments(open(os.path.join(repo, "minidump/src/context.rs")).read())
        self.fmt_src = strip_comments(open(os.path.join(repo, "minidump-common/src/format.rs")).read())
        self.enums = {}
        self.structs = {}

    # ---------------------------------------------------------------- format.rs
    def parse_format(self):
        for m in re.finditer(r"pub enum (\w+RegisterNumbers)\s*\{", self.fmt_src):
            end = match_brace(self.fmt_src, m.end() - 1)
            vals = {}
            for item in split_top(self.fmt_src[m.end():end]):
                mm = re.fullmatch(r"(\w+)\s*=\s*(\d+)", item)
                if not mm:
                    die("format.rs enum %s: unrecognised variant %r" % (m.group(1), item))
                vals[mm.group(1)] = int(mm.group(2))
            self.enums[m.group(1)] = vals
        # every struct with plain `pub name: type` fields, in declaration order (for the byte layout of the contexts:
        # scroll's derive(Pread) reads the fields in declared order, packed)
        self.layouts = {}
        for m in re.finditer(r"pub struct (\w+)\s*\{", self.fmt_src):
            end = match_brace(self.fmt_src, m.end() - 1)
            fl = []
            for item in split_top(self.fmt_src[m.end():end]):
                item = strip_attrs(item)
                mm = re.fullmatch(r"pub (\w+)\s*:\s*(.+)", item, re.S)
                if not mm:
                    fl = None
                    break
                fl.append((mm.group(1), norm(mm.group(2))))
            self.layouts[m.group(1)] = fl
        for m in re.finditer(r"pub struct (CONTEXT_\w+)\s*\{", self.fmt_src):
            end = match_brace(self.fmt_src, m.end() - 1)
            fields = {}
            for item in split_top(self.fmt_src[m.end():end]):
                item = strip_attrs(item)
                mm = re.fullmatch(r"pub (\w+)\s*:\s*(.+)", item, re.S)
                if not mm:
                    die("format.rs struct %s: unrecognised field %r" % (m.group(1), item))
                name, ty = mm.group(1), norm(mm.group(2))
                ma = re.fullmatch(r"\[\s*u(8|16|32|64|128)\s*;\s*(\d+)(?:usize)?\s*\]", ty)
                ms = re.fullmatch(r"u(8|16|32|64|128)", ty)
                if ma:
                    fields[name] = (int(ma.group(1)), int(ma.group(2)))
                elif ms:
                    fields[name] = (int(ms.group(1)), None)
                else:
                    fields[name] = None      # nested struct / other: not addressable by the tables
            self.structs[m.group(1)] = fields

    # ---------------------------------------------------------------- byte layout (derive(Pread): declared order, packed)
    def usize_const(self, tok, where):
        tok = tok.strip()
        m = re.fullmatch(r"(\d+)(?:usize)?", tok)
        if m:
            return int(m.group(1))
        ms = list(re.finditer(r"\bconst\s+%s\s*:\s*usize\s*=\s*(\d+)\s*;" % re.escape(tok), self.fmt_src))
        if len(ms) != 1:
            die("%s: array length %r is neither a literal nor a `const %s: usize = N;`" % (where, tok, tok))
        return int(ms[0].group(1))

    def size_of(self, ty, where):
        m = re.fullmatch(r"[ui](8|16|32|64|128)", ty)
        if m:
            return int(m.group(1)) // 8
        m = re.fullmatch(r"\[\s*(.+?)\s*;\s*([^;\]]+?)\s*\]", ty)
        if m:
            return self.size_of(m.group(1), where) * self.usize_const(m.group(2), where)
        fl = self.layouts.get(ty)
        if fl is None:
            die("%s: cannot compute the size of field type %r" % (where, ty))
        return sum(self.size_of(t, where + "." + f) for f, t in fl)

    def offsets(self, cname):
        """field -> byte offset inside the serialised context"""
        fl = self.layouts.get(cname)
        if fl is None:
            die("format.rs: struct %s has fields the layout parser does not recognise" % cname)
        off, out = 0, {}
        for f, t in fl:
            out[f] = off
            off += self.size_of(t, "format.rs %s.%s" % (cname, f))
        return out

    # ---------------------------------------------------------------- accessor expressions
    def named_const(self, tok, where):
        src = self.fmt_src if tok.startswith("md::") else self.ctx_src
        nm = tok[4:] if tok.startswith("md::") else tok
        ms = list(re.finditer(r"\bconst\s+%s\s*:\s*u(8|16|32|64)\s*=\s*([^;]+);" % re.escape(nm), src))
        if len(ms) != 1:
            die("%s: named constant %s: %d definitions `const %s: uN = ..;` found" % (where, tok, len(ms), nm))
        width = int(ms[0].group(1))
        p = ExprParser(self, tokenize(ms[0].group(2), where + " const " + nm), None, where + " const " + nm, None)
        e = p.expr({})
        if p.peek() is not None:
            p.bad("trailing tokens")
        e = fix_widths(p.typed(e, width), where)
        if e[1] != width:
            die("%s: const %s: initialiser has type u%s" % (where, nm, e[1]))
        return ("lit", width, const_eval(e, where + " const " + nm))

    def accessor(self, text, ctxname, where, recv="ctx", want=64, env=None):
        """an arm of a MinidumpContext dispatch method / a get or set arm -> typed expression (uN, or bool)"""
        p = ExprParser(self, tokenize(text, where), ctxname, where, recv)
        e = p.block(env or {})
        if p.peek() is not None:
            p.bad("trailing tokens %r" % p.peek())
        if e[1] is None:
            e = p.typed(e, want if isinstance(want, int) else 64)
        e = fix_widths(e, where)
        if e[1] != want:
            die("%s: arm has type %s, expected %s" % (where, e[1], want))
        return e

    # ---------------------------------------------------------------- locations
    def loc(self, expr, ctxname, where, recv="self"):
        e = norm(expr)
        m = re.fullmatch(recv + r"\.(\w+)", e)
        if m:
            return self.check_loc(ctxname, m.group(1), None, where)
        m = re.fullmatch(recv + r"\.(\w+)\[(\d+)\]", e)
        if m:
            return self.check_loc(ctxname, m.group(1), int(m.group(2)), where)
        m = re.fullmatch(recv + r"\.(\w+)\[md::(\w+)::(\w+) as usize\]", e)
        if m:
            en = self.enums.get(m.group(2))
            if en is None or m.group(3) not in en:
                die("%s: unknown register number md::%s::%s" % (where, m.group(2), m.group(3)))
            return self.check_loc(ctxname, m.group(1), en[m.group(3)], where)
        die("%s: unrecognised register location %r" % (where, e))

    def check_loc(self, ctxname, field, idx, where):
        st = self.structs.get(ctxname)
        if st is None:
            die("%s: struct %s not found in format.rs" % (where, ctxname))
        if field not in st or st[field] is None:
            die("%s: %s has no integer field %r" % (where, ctxname, field))
        width, alen = st[field]
        if (idx is None) != (alen is None):
            die("%s: %s.%s indexed/array mismatch" % (where, ctxname, field))
        # an out-of-range index is kept: the Coq model turns it into a Panic and the checker reports it
        return (field, -1 if idx is None else idx, width, -1 if alen is None else alen)

    # ---------------------------------------------------------------- context.rs: fn extraction
    def fns_of_block(self, block, where):
        fns = {}
        i = 0
        while True:
            m = re.compile(r"\bfn (\w+)\s*(<[^>]*>)?\s*\(").search(block, i)
            if not m:
                break
            par_end = match_brace(block, m.end() - 1, "(", ")")
            b = block.find("{", par_end)
            semi = block.find(";", par_end)
            if b < 0 or (0 <= semi < b):
                i = semi + 1          # declaration without body
                fns[m.group(1)] = None
                continue
            e = match_brace(block, b)
            if m.group(1) in fns:
                die("%s: duplicate fn %s" % (where, m.group(1)))
            fns[m.group(1)] = (norm(block[par_end + 1:b]), block[b + 1:e])
            i = e + 1
        return fns

    def single_match(self, body, scrutinee, where):
        b = body.strip()
        m = re.match(r"match\s+%s\s*\{" % re.escape(scrutinee), b)
        if not m:
            die("%s: expected `match %s { .. }`, found %r" % (where, scrutinee, norm(b)[:80]))
        e = match_brace(b, m.end() - 1)
        return b[m.end():e], b[e + 1:].strip()

    # ---------------------------------------------------------------- one impl block
    def parse_impl(self, ctxname, block):
        w = "context.rs impl CpuContext for md::%s" % ctxname
        t = {"name": ctxname}
        m = re.search(r"type Register\s*=\s*u(32|64)\s*;", block)
        if not m:
            die(w + ": `type Register = u32|u64;` not found")
        t["width"] = int(m.group(1))
        m = re.search(r"const REGISTERS\s*:\s*&'static \[&'static str\]\s*=\s*&\[", block)
        if not m:
            die(w + ": const REGISTERS not found")
        e = match_brace(block, m.end() - 1, "[", "]")
        regs = []
        for item in split_top(block[m.end():e]):
            mm = re.fullmatch(STR, item)
            if not mm:
                die(w + ": REGISTERS entry %r" % item)
            regs.append(mm.group(1))
        t["registers"] = regs
        if "context_flags" in block:
            die(w + ": the register methods mention context_flags; C18/Model.v does not carry the flags (behaviour is modelled as "
                    "independent of them) — extend the model before translating this")
        fns = self.fns_of_block(block, w)
        allowed = {"get_register_always", "set_register", "memoize_register", "register_is_valid",
                   "stack_pointer_register_name", "instruction_pointer_register_name"}
        extra = set(fns) - allowed
        if extra:
            die(w + ": overrides %s, which the C18 model does not cover" % sorted(extra))
        for need in ("get_register_always", "set_register", "stack_pointer_register_name", "instruction_pointer_register_name"):
            if not fns.get(need):
                die(w + ": fn %s missing" % need)

        # get_register_always
        body, rest = self.single_match(fns["get_register_always"][1], "reg", w + " get_register_always")
        if rest:
            die(w + " get_register_always: trailing code %r" % rest[:60])
        get = []
        default_seen = False
        for pat, rhs in match_arms(body, w + " get_register_always"):
            if default_seen:
                die(w + " get_register_always: arm after `_`")
            if pat == "_":
                if not re.fullmatch(r"unreachable!\(.*\)", rhs, re.S):
                    die(w + " get_register_always: default arm is %r, expected unreachable!(..)" % rhs[:60])
                default_seen = True
                continue
            get.append((parse_pats(pat, w + " get_register_always"),
                        self.accessor(rhs, ctxname, w + " get_register_always " + pat, recv="self", want=t["width"])))
        if not default_seen:
            die(w + " get_register_always: no `_` arm")
        t["get"] = get

        # set_register
        body, rest = self.single_match(fns["set_register"][1], "reg", w + " set_register")
        if norm(rest) != "Some(())":
            die(w + " set_register: expected `Some(())` after the match, found %r" % rest[:60])
        st = []
        default_seen = False
        for pat, rhs in match_arms(body, w + " set_register"):
            if default_seen:
                die(w + " set_register: arm after `_`")
            if pat == "_":
                if norm(rhs) != "return None":
                    die(w + " set_register: default arm is %r, expected `return None`" % rhs[:60])
                default_seen = True
                continue
            mm = re.fullmatch(r"([^=]+?)\s*=(?!=)\s*(.+)", rhs, re.S)
            if not mm:
                die(w + " set_register: arm %s => %r is not `<place> = <value>`" % (pat, rhs[:60]))
            place = self.loc(mm.group(1), ctxname, w + " set_register " + pat)
            value = self.accessor(mm.group(2), ctxname, w + " set_register " + pat, recv="self", want=place[2],
                                  env={"val": t["width"]})
            st.append((parse_pats(pat, w + " set_register"), place, value))
        if not default_seen:
            die(w + " set_register: no `_` arm")
        t["set"] = st

        # memoize_register
        memo = []
        if fns.get("memoize_register"):
            body, rest = self.single_match(fns["memoize_register"][1], "reg", w + " memoize_register")
            if rest:
                die(w + " memoize_register: trailing code")
            default_seen = False
            for pat, rhs in match_arms(body, w + " memoize_register"):
                if default_seen:
                    die(w + " memoize_register: arm after `_`")
                if pat == "_":
                    t["memo_tbl_of"] = self.memo_table_arg(norm(rhs), ctxname, w + " memoize_register: default arm")
                    default_seen = True
                    continue
                mm = re.fullmatch(r"Some\(" + STR + r"\)", norm(rhs))
                if not mm:
                    die(w + " memoize_register: arm %s => %r" % (pat, rhs[:60]))
                memo.append((parse_pats(pat, w + " memoize_register"), mm.group(1)))
            if not default_seen:
                die(w + " memoize_register: no `_` arm")
        t["memo"] = memo

        # register_is_valid
        groups = []
        t["custom_valid"] = bool(fns.get("register_is_valid"))
        if fns.get("register_is_valid"):
            b = fns["register_is_valid"][1].strip()
            m = re.match(r"if let MinidumpContextValidity::Some\(ref which\) = \*?valid\s*\{", b)
            if not m:
                die(w + " register_is_valid: unexpected shape %r" % norm(b)[:80])
            e = match_brace(b, m.end() - 1)
            inner, tail = b[m.end():e], norm(b[e + 1:])
            mt = re.fullmatch(r"else \{ (.+) \}", tail)
            if not mt:
                die(w + " register_is_valid: else branch is %r" % tail[:80])
            t["valid_all"] = self.accessor(mt.group(1), ctxname, w + " register_is_valid (validity All)", recv="self", want="bool")
            body, rest = self.single_match(inner, "reg", w + " register_is_valid")
            if rest:
                die(w + " register_is_valid: trailing code")
            default_seen = False
            for pat, rhs in match_arms(body, w + " register_is_valid"):
                if default_seen:
                    die(w + " register_is_valid: arm after `_`")
                if pat == "_":
                    t["valid_default"] = self.accessor(rhs, ctxname, w + " register_is_valid `_` arm", recv="self", want="bool")
                    default_seen = True
                    continue
                # the arm's condition over the validity set, as an expression (which.contains("lit") / which.contains(reg), && || !)
                cond = self.accessor(rhs, ctxname, w + " register_is_valid arm " + pat, recv="self", want="bool")
                groups.append((parse_pats(pat, w + " register_is_valid"), cond))
            if not default_seen:
                die(w + " register_is_valid: no `_` arm")
        t["groups"] = groups

        for key, fn in (("sp_name", "stack_pointer_register_name"), ("ip_name", "instruction_pointer_register_name")):
            mm = re.fullmatch(STR, norm(fns[fn][1]))
            if not mm:
                die(w + " %s: body %r is not a string literal" % (fn, norm(fns[fn][1])[:60]))
            t[key] = mm.group(1)
        return t

    def memo_table_arg(self, text, ctxname, where):
        """`default_memoize_register(<T>::REGISTERS, reg)` -> the CONTEXT_* type whose REGISTERS is searched (None = Self)"""
        mm = re.fullmatch(r"default_memoize_register\((Self|md::(CONTEXT_\w+))::REGISTERS, reg\)", text)
        if not mm:
            die("%s is %r, expected default_memoize_register(<Self | md::CONTEXT_*>::REGISTERS, reg)" % (where, text[:80]))
        return mm.group(2)          # None for Self

    def names_src(self, text, where, allow_set):
        """an arm of the `let regs = match valid {..}` in CpuContext::valid_registers ->
           ("list", type or None for Self, lo, hi) | ("set",)"""
        mm = re.fullmatch(r"CpuRegistersInner::Slice\(&?(Self|md::(CONTEXT_\w+))::REGISTERS(?:\[(\d*)\.\.(\d*)\])?\s?\.iter\(\)\)", text)
        if mm:
            return ("list", mm.group(2), int(mm.group(3)) if mm.group(3) else None, int(mm.group(4)) if mm.group(4) else None)
        if allow_set and text == "CpuRegistersInner::Set(valid.iter())":
            return ("set",)
        die("%s: %r is neither CpuRegistersInner::Slice(<T>::REGISTERS[a..b].iter()) nor CpuRegistersInner::Set(valid.iter())" % (where, text[:100]))

    # ---------------------------------------------------------------- trait defaults
    # Bodies with a single well-typed shape stay pinned textually; everything with a choice in it is translated:
    # the table memoize_register's default searches, the names each arm of valid_registers iterates, how many names an
    # arm of CpuRegisters::next consumes and the value it pairs with the name.
    EXPECTED_DEFAULTS = {}

    def check_defaults(self):
        s = self.ctx_src
        m = re.search(r"pub trait CpuContext\s*\{", s)
        if not m:
            die("context.rs: trait CpuContext not found")
        e = match_brace(s, m.end() - 1)
        fns = self.fns_of_block(s[m.end():e], "trait CpuContext")
        got = fns.get("register_is_valid")
        mm = got and re.fullmatch(r"if let MinidumpContextValidity::Some\(ref which\) = \*?valid \{ (.+) \} else \{ (.+) \}", norm(got[1]))
        if not mm:
            die("context.rs: default body of CpuContext::register_is_valid has an unexpected shape: %r" % (norm(got[1]) if got else None))
        wd = "context.rs trait CpuContext register_is_valid"
        self.default_valid = (self.accessor(mm.group(1), None, wd + " (Some branch)", recv="self", want="bool"),
                              self.accessor(mm.group(2), None, wd + " (All branch)", recv="self", want="bool"))
        # format_register: the format string and the width argument are translated (prefix, padding, digits per byte)
        got = fns.get("format_register")
        mm = got and re.fullmatch(r'format!\( "([^"{}\\\\]*)\{:(0?)1\$x\}", self\.get_register_always\(reg\), '
                                  r'mem::size_of::<Self::Register>\(\)(?: \* (\d+))? \)', norm(got[1]))
        if not mm:
            die("context.rs: default body of CpuContext::format_register has an unexpected shape (C18/Model.v format_value "
                "models `format!(\"<prefix>{:[0]1$x}\", self.get_register_always(reg), mem::size_of::<Self::Register>() [* K])`): %r"
                % (norm(got[1]) if got else None))
        self.fmt = (mm.group(1), mm.group(2) == "0", int(mm.group(3) or 1))
        got = fns.get("get_register")
        mm = got and re.fullmatch(r"if (.+) \{ Some\((.+)\) \} else \{ None \}", norm(got[1]))
        if not mm:
            die("context.rs: default body of CpuContext::get_register has an unexpected shape: %r" % (norm(got[1]) if got else None))
        self.get_register_cond = self.accessor(mm.group(1), None, "context.rs trait CpuContext get_register condition", recv="self", want="bool")
        self.get_register_val_text = mm.group(2)      # parsed per type (the value has the type's Register width)
        got = fns.get("memoize_register")
        self.default_memo_tbl_of = self.memo_table_arg(norm(got[1]) if got else "", None, "context.rs: default body of CpuContext::memoize_register")
        got = fns.get("valid_registers")
        mm = got and re.fullmatch(r"let regs = match valid \{ MinidumpContextValidity::All => (.+?), MinidumpContextValidity::Some\(valid\) => (.+?),? \}; "
                                  r"CpuRegisters \{ regs, context: self,? \}", norm(got[1]))
        if not mm:
            die("context.rs: default body of CpuContext::valid_registers has an unexpected shape (C18/Model.v cpu_iter_init models "
                "`let regs = match valid { All => <src>, Some(valid) => <src> }; CpuRegisters { regs, context: self }`): %r" % (norm(got[1]) if got else None))
        wv = "context.rs trait CpuContext valid_registers"
        self.iter_all = self.names_src(mm.group(1), wv + " (All arm)", False)
        self.iter_some = self.names_src(mm.group(2), wv + " (Some arm)", True)
        # registers(): the call `self.valid_registers(&MinidumpContextValidity::All)`, or the iterator built directly
        got = fns.get("registers")
        body = norm(got[1]) if got else ""
        dm = re.fullmatch(r"CpuRegisters \{ regs: (.+), context: self,? \}", body)
        if body == "self.valid_registers(&MinidumpContextValidity::All)":
            self.regs_direct = None
        elif dm:
            self.regs_direct = self.names_src(dm.group(1), "context.rs trait CpuContext registers", False)
        else:
            die("context.rs: default body of CpuContext::registers is neither self.valid_registers(&MinidumpContextValidity::All) nor "
                "CpuRegisters { regs: CpuRegistersInner::Slice(<T>::REGISTERS[a..b].iter()), context: self }: %r" % body)
        for name, want in self.EXPECTED_DEFAULTS.items():
            got = fns.get(name)
            if not got or norm(got[1]) != want:
                die("context.rs: default body of CpuContext::%s changed (C18/Model.v models the old one):\n  found    %r\n  expected %r"
                    % (name, norm(got[1]) if got else None, want))
        m = re.search(r"fn default_memoize_register\s*\(", s)
        if not m:
            die("context.rs: default_memoize_register not found")
        b = s.find("{", m.end())
        # the comparison inside the `position` closure is translated (ct_memo_cmp); the rest of the body is pinned
        body = norm(s[b + 1:match_brace(s, b)])
        mm = re.fullmatch(r"let idx = registers\s?\.iter\(\)\s?\.position\(\|val\| (.+?)\)\?; Some\(registers\[idx\]\)", body)
        if not mm:
            die("context.rs: default_memoize_register changed: %r" % body)
        pred = mm.group(1).replace(" ", "")
        if pred in ("*val==reg", "reg==*val", "val==&reg", "&reg==val"):
            self.memo_cmp = 0
        elif pred in ("val.eq_ignore_ascii_case(reg)", "reg.eq_ignore_ascii_case(val)", "(*val).eq_ignore_ascii_case(reg)"):
            self.memo_cmp = 1
        else:
            die("context.rs: default_memoize_register compares names with %r, which C18/Model.v memo_eqb does not model" % mm.group(1))
        m = re.search(r"impl<T> Iterator for CpuRegisters<'_, T>", s)
        if not m:
            die("context.rs: Iterator impl of CpuRegisters not found")
        b = s.find("{", m.end())
        fns = self.fns_of_block(s[b + 1:match_brace(s, b)], "CpuRegisters iterator")
        mm = fns.get("next") and re.fullmatch(
            r"let reg = match &mut self\.regs \{ CpuRegistersInner::Slice\(iter\) => iter\.(?:next\(\)|nth\((\d+)\)), "
            r"CpuRegistersInner::Set\(iter\) => iter\.(?:next\(\)|nth\((\d+)\)),? \}\?; Some\(\(reg, (.+)\)\)", norm(fns["next"][1]))
        if not mm:
            die("context.rs: CpuRegisters::next has an unexpected shape (C18/Model.v cpu_iter_next models `let reg = match &mut self.regs "
                "{ Slice(iter) => iter.next()|nth(K), Set(iter) => iter.next()|nth(K) }?; Some((reg, <value>))`): %r"
                % (norm(fns["next"][1]) if fns.get("next") else None))
        self.next_skip = (int(mm.group(1) or 0), int(mm.group(2) or 0))
        self.next_val_text = mm.group(3)

    # ---------------------------------------------------------------- MinidumpContext dispatch
    def parse_dispatch(self, variants):
        s = self.ctx_src
        m = re.search(r"\nimpl MinidumpContext\s*\{", s)
        if not m:
            die("context.rs: impl MinidumpContext not found")
        e = match_brace(s, m.end() - 1)
        fns = self.fns_of_block(s[m.end():e], "impl MinidumpContext")
        w = "context.rs MinidumpContext::"
        out = {v: {} for v in variants}

        def arms_of(fn, scrut_re):
            if not fns.get(fn):
                die(w + fn + " not found")
            body = fns[fn][1]
            mm = re.search(r"match\s+" + scrut_re + r"\s*\{", body)
            if not mm:
                die(w + fn + ": match not found")
            ee = match_brace(body, mm.end() - 1)
            arms = match_arms(body[mm.end():ee], w + fn)
            seen = {}
            for pat, rhs in arms:
                pm = re.fullmatch(r"MinidumpRawContext::(\w+)\((ref ctx|ctx|_)\)", norm(pat))
                if not pm or pm.group(1) not in variants:
                    die(w + fn + ": unrecognised arm pattern %r" % pat)
                if pm.group(1) in seen:
                    die(w + fn + ": variant %s twice" % pm.group(1))
                seen[pm.group(1)] = norm(rhs)
            if set(seen) != set(variants):
                die(w + fn + ": arms do not cover exactly the variants of MinidumpRawContext")
            return seen, norm(body[:mm.start()]), norm(body[ee + 1:])

        for fn, key in (("get_instruction_pointer", "ip_acc"), ("get_stack_pointer", "sp_acc")):
            seen, pre, post = arms_of(fn, r"self\.raw")
            if pre or post:
                die(w + fn + ": code around the match")
            for v, rhs in seen.items():
                out[v][key] = self.accessor(rhs, variants[v], w + fn + " " + v)
        seen, pre, post = arms_of("get_register_always", r"self\.raw")
        if pre or post:
            die(w + "get_register_always: code around the match")
        for v, rhs in seen.items():
            out[v]["md_get"] = self.accessor(rhs, variants[v], w + "get_register_always " + v)
        seen, pre, post = arms_of("get_register", r"&self\.raw")
        pm = re.fullmatch(r"; if valid \{ Some\((.+)\) \} else \{ None \}", post)
        if pre != "let valid =" or not pm:
            die(w + "get_register: shape changed: %r ... %r" % (pre, post))
        self.md_get_val = self.accessor(pm.group(1), None, w + "get_register (the value returned)", recv="self", want=64)
        for v, rhs in seen.items():
            out[v]["md_valid"] = self.accessor(rhs, variants[v], w + "get_register " + v, want="bool")
        seen, pre, post = arms_of("valid_registers", r"&self\.raw")
        if pre != "self.registers().filter(move |(reg, _)|" or post != ")":
            die(w + "valid_registers: shape changed: %r ... %r" % (pre, post))
        for v, rhs in seen.items():
            out[v]["md_filter"] = self.accessor(rhs, variants[v], w + "valid_registers " + v, want="bool")
        mm = re.fullmatch(r"self\.general_purpose_registers\(\) ?\.iter\(\) ?\.map\(move \|&reg\| \(reg, (.+)\)\)", norm(fns["registers"][1]))
        if not mm:
            die(w + "registers: shape changed: %r" % norm(fns["registers"][1]))
        self.md_regs_val = self.accessor(mm.group(1), None, w + "registers (the value paired with a name)", recv="self", want=64)
        seen, pre, post = arms_of("general_purpose_registers", r"self\.raw")
        if pre or post:
            die(w + "general_purpose_registers: code around the match")
        for v, rhs in seen.items():
            mm = re.fullmatch(r"md::(CONTEXT_\w+)::REGISTERS", rhs)
            if not mm or mm.group(1) not in self.widths:
                die(w + "general_purpose_registers %s: %r" % (v, rhs))
            out[v]["gpr_of"] = mm.group(1)
        seen, pre, post = arms_of("format_register", r"self\.raw")
        for v, rhs in seen.items():
            # the forwarding call, or a rendering of its own: format!("<prefix>{:[0]<digits>x}", ctx.get_register_always(reg))
            fm = re.fullmatch(r'format!\("([^"{}\\]*)\{:(0?)(\d+)x\}", ctx\.get_register_always\(reg\)\)', rhs)
            if rhs == "ctx.format_register(reg)":
                out[v]["md_fmt"] = None
            elif fm:
                out[v]["md_fmt"] = (fm.group(1), fm.group(2) == "0", int(fm.group(3)))
            else:
                die(w + "format_register %s: %r is neither ctx.format_register(reg) nor format!(\"<prefix>{:[0]<digits>x}\", ctx.get_register_always(reg))" % (v, rhs))
        seen, pre, post = arms_of("register_size", r"&self\.raw")
        if pre != "fn get<T: CpuContext>(_: &T) -> usize { std::mem::size_of::<T::Register>() }" or post:
            die(w + "register_size: shape changed: %r" % pre)
        for v, rhs in seen.items():
            out[v]["md_size"] = self.accessor(rhs, None, w + "register_size " + v, recv="$size", want=64)
        return out

    # ---------------------------------------------------------------- MinidumpContext::read: which context type is chosen
    def parse_read(self, variants):
        """arms of `match md::ProcessorArchitecture::from_u16(system_info.raw.processor_architecture)` in MinidumpContext::read ->
           [(architecture numbers, architecture names, CONTEXT type read, MinidumpRawContext variant, ContextFlagsCpu constant tested)]"""
        s = self.ctx_src
        m = re.search(r"\nimpl MinidumpContext\s*\{", s)
        e = match_brace(s, m.end() - 1)
        fns = self.fns_of_block(s[m.end():e], "impl MinidumpContext")
        w = "context.rs MinidumpContext::read"
        if not fns.get("read") or not fns.get("from_raw"):
            die(w + " / from_raw not found")
        if norm(fns["from_raw"][1]) != "MinidumpContext { raw, valid: MinidumpContextValidity::All, }":
            die("context.rs MinidumpContext::from_raw changed: %r" % norm(fns["from_raw"][1]))
        body = fns["read"][1]
        mm = re.search(r"match\s+md::ProcessorArchitecture::from_u16\(system_info\.raw\.processor_architecture\)\s*\{", body)
        if not mm:
            die(w + ": `match md::ProcessorArchitecture::from_u16(system_info.raw.processor_architecture)` not found")
        ee = match_brace(body, mm.end() - 1)
        if norm(body[:mm.start()]) != "use md::ProcessorArchitecture::*; let mut offset = 0;" or norm(body[ee + 1:]):
            die(w + ": code around the match changed: %r ... %r" % (norm(body[:mm.start()])[:80], norm(body[ee + 1:])[:80]))
        # architecture numbers
        em = re.search(r"pub enum ProcessorArchitecture\s*\{", self.fmt_src)
        if not em:
            die("format.rs: enum ProcessorArchitecture not found")
        archs = {}
        for item in split_top(self.fmt_src[em.end():match_brace(self.fmt_src, em.end() - 1)]):
            im = re.fullmatch(r"(PROCESSOR_ARCHITECTURE_\w+)\s*=\s*(0x[0-9a-fA-F]+|\d+)", strip_attrs(item))
            if not im:
                die("format.rs enum ProcessorArchitecture: unrecognised variant %r" % item)
            archs[im.group(1)] = int(im.group(2), 0)
        if len(set(archs.values())) != len(archs):
            die("format.rs enum ProcessorArchitecture: duplicate discriminant")
        fm = re.search(r"pub fn from_flags\(flags: u32\) -> ContextFlagsCpu \{\s*ContextFlagsCpu::from_bits_truncate\(flags & CONTEXT_CPU_MASK\)\s*\}", self.fmt_src)
        if not fm:
            die("format.rs: ContextFlagsCpu::from_flags is not `ContextFlagsCpu::from_bits_truncate(flags & CONTEXT_CPU_MASK)`")
        mask = self.named_const("md::CONTEXT_CPU_MASK", "format.rs CONTEXT_CPU_MASK")[2]
        arms, default_seen, seen_arch = [], False, set()
        for pat, rhs in match_arms(body[mm.end():ee], w):
            if default_seen:
                die(w + ": arm after `_`")
            if pat.strip() == "_":
                if norm(rhs) != "Err(ContextError::UnknownCpuContext)":
                    die(w + ": default arm is %r, expected Err(ContextError::UnknownCpuContext)" % norm(rhs)[:80])
                default_seen = True
                continue
            names = []
            for alt in pat.split("|"):
                am = re.fullmatch(r"Some\((PROCESSOR_ARCHITECTURE_\w+)\)", alt.strip())
                if not am or am.group(1) not in archs:
                    die(w + ": unrecognised arm pattern %r" % pat)
                if am.group(1) in seen_arch:
                    die(w + ": %s matched by two arms" % am.group(1))
                seen_arch.add(am.group(1))
                names.append(am.group(1))
            bm = re.fullmatch(
                r"let ctx: md::(CONTEXT_\w+) = bytes \.gread_with\(&mut offset, endian\) \.or\(Err\(ContextError::ReadFailure\)\)\?; "
                r"let flags = ContextFlagsCpu::from_flags\(ctx\.context_flags( as u32)?\); "
                r"if flags == ContextFlagsCpu::(CONTEXT_\w+) \{ "
                r"(?:if ctx\.context_flags & md::CONTEXT_HAS_XSTATE != 0 \{ warn!\(\"[^\"]*\"\); \} )?"
                r"Ok\(MinidumpContext::from_raw\(MinidumpRawContext::(\w+)\(ctx\)\)\) \} else \{ Err\(ContextError::ReadFailure\) \}", norm(rhs))
            if not bm:
                die(w + ": arm %s has an unexpected shape (C18/Model.v read_dispatch models `let ctx: md::CONTEXT_T = bytes.gread_with(..)"
                        ".or(Err(ReadFailure))?; let flags = ContextFlagsCpu::from_flags(ctx.context_flags [as u32]); if flags == "
                        "ContextFlagsCpu::CONTEXT_F { [XSTATE warning] Ok(from_raw(MinidumpRawContext::V(ctx))) } else { Err(ReadFailure) }`): %r"
                    % (pat, norm(rhs)[:200]))
            ty, cast, flag, variant = bm.group(1), bm.group(2), bm.group(3), bm.group(4)
            if variant not in variants or ty not in self.structs:
                die(w + ": arm %s reads %s into MinidumpRawContext::%s" % (pat, ty, variant))
            fw = self.structs[ty].get("context_flags")
            if not fw or fw[1] is not None or (fw[0] == 32) == bool(cast) or fw[0] not in (32, 64):
                die(w + ": arm %s: context_flags of %s is %r but the cast to u32 is %s" % (pat, ty, fw, "present" if cast else "absent"))
            if flag not in self.cpu_flags:
                die(w + ": arm %s tests ContextFlagsCpu::%s, which format.rs does not define" % (pat, flag))
            arms.append({"archs": [archs[n] for n in names], "arch_names": names, "type": ty, "variant": variant, "flag_name": flag,
                         "flag": self.cpu_flags[flag], "size": self.size_of(ty, "format.rs " + ty), "flags_off": self.offsets(ty)["context_flags"],
                         "flags_width": fw[0]})
        if not default_seen:
            die(w + ": no `_` arm")
        allbits = 0
        for v in self.cpu_flags.values():
            allbits |= v
        return {"arms": arms, "mask": mask, "allbits": allbits, "archs": archs}

    # ---------------------------------------------------------------- all
    def run(self):
        self.parse_format()
        s = self.ctx_src
        m = re.search(r"pub enum MinidumpRawContext\s*\{", s)
        if not m:
            die("context.rs: enum MinidumpRawContext not found")
        e = match_brace(s, m.end() - 1)
        variants = {}
        for item in split_top(s[m.end():e]):
            mm = re.fullmatch(r"(\w+)\(md::(CONTEXT_\w+)\)", item)
            if not mm:
                die("context.rs: MinidumpRawContext variant %r" % item)
            variants[mm.group(1)] = mm.group(2)
        self.check_defaults()
        tables = {}
        for m in re.finditer(r"\nimpl CpuContext for md::(CONTEXT_\w+)\s*\{", s):
            e = match_brace(s, m.end() - 1)
            if m.group(1) in tables:
                die("context.rs: two impls for %s" % m.group(1))
            tables[m.group(1)] = self.parse_impl(m.group(1), s[m.end():e])
        if set(tables) != set(variants.values()):
            die("context.rs: CpuContext impls %s do not match MinidumpRawContext payloads %s" % (sorted(tables), sorted(variants.values())))
        self.widths = {k: t["width"] for k, t in tables.items()}
        disp = self.parse_dispatch(variants)
        cpu_flags = {}
        m = re.search(r"pub struct ContextFlagsCpu\s*:\s*u32\s*\{", self.fmt_src)
        if not m:
            die("format.rs: bitflags ContextFlagsCpu not found")
        e = match_brace(self.fmt_src, m.end() - 1)
        for mm in re.finditer(r"const (CONTEXT_\w+)\s*=\s*(0x[0-9a-fA-F]+|\d+)\s*;", self.fmt_src[m.end():e]):
            cpu_flags[mm.group(1)] = int(mm.group(2), 0)
        if not cpu_flags:
            die("format.rs: no constants in ContextFlagsCpu")
        self.cpu_flags = cpu_flags
        self.read = self.parse_read(variants)
        out = []
        for v, cname in variants.items():
            fw = self.structs[cname].get("context_flags")
            if not fw or fw[1] is not None:
                die("format.rs: %s has no scalar context_flags field" % cname)
            tables[cname]["flags_width"] = fw[0]
            tables[cname]["cpu_flags"] = cpu_flags
            t = dict(tables[cname])
            t["variant"] = v
            t["sp_acc"] = disp[v]["sp_acc"]
            t["ip_acc"] = disp[v]["ip_acc"]
            t["memo_cmp"] = self.memo_cmp
            t["get_cond"] = self.get_register_cond
            t["fmt"] = self.fmt
            if not t["custom_valid"]:
                t["valid_default"], t["valid_all"] = self.default_valid
            for key in ("md_get", "md_valid", "md_filter", "md_size", "md_fmt"):
                t[key] = disp[v][key]
            t["md_regs_val"] = self.md_regs_val
            t["md_get_val"] = self.md_get_val
            t["get_val"] = self.accessor(self.get_register_val_text, cname, "context.rs trait CpuContext get_register (the value returned), instantiated at " + cname,
                                         recv="self", want=t["width"])

            def regs_of(who, where):
                if who is None:
                    return tables[cname]["registers"]
                if who not in tables:
                    die("%s names md::%s::REGISTERS, which is not a CpuContext impl" % (where, who))
                return tables[who]["registers"]
            t["memo_tbl_of"] = tables[cname].get("memo_tbl_of", self.default_memo_tbl_of) or cname
            t["memo_tbl"] = regs_of(tables[cname].get("memo_tbl_of", self.default_memo_tbl_of), "memoize_register of " + cname)

            def src(x):
                if x[0] == "set":
                    return x
                return ("list", regs_of(x[1], "valid_registers")[x[2]:x[3]], "%s::REGISTERS[%s..%s]" % (x[1] or cname, "" if x[2] is None else x[2], "" if x[3] is None else x[3]))
            t["iter_all"], t["iter_some"] = src(self.iter_all), src(self.iter_some)
            t["regs_direct"] = None if self.regs_direct is None else src(self.regs_direct)
            t["next_skip"] = self.next_skip
            t["next_val"] = self.accessor(self.next_val_text.replace("self.context.", "ctx."), cname,
                                          "context.rs CpuRegisters::next (the value paired with a name), instantiated at " + cname, recv="ctx", want=t["width"])
            offs = self.offsets(cname)
            t["fields"] = [(f, wl[0], -1 if wl[1] is None else wl[1], offs[f]) for f, wl in self.structs[cname].items() if wl is not None]
            t["gpr"] = tables[disp[v]["gpr_of"]]["registers"]
            t["gpr_of"] = disp[v]["gpr_of"]
            out.append(t)
        return out


def const_eval(e, where):
    k, w = e[0], e[1]
    mask = (1 << w) - 1 if isinstance(w, int) else None
    if k == "lit":
        return e[2]
    if k == "not":
        return mask ^ const_eval(e[2], where)
    if k == "cast":
        return const_eval(e[2], where) & mask
    if k == "shl":
        return (const_eval(e[2], where) << e[3]) & mask
    if k == "shr":
        return const_eval(e[2], where) >> e[3]
    if k in ("and", "or", "xor"):
        a, b = const_eval(e[2], where), const_eval(e[3], where)
        return a & b if k == "and" else a | b if k == "or" else a ^ b
    die("%s: initialiser is not a constant expression of the modelled subset (%s)" % (where, k))


def show_aexp(e):
    k = e[0]
    if k == "loc":
        return "ctx.%s%s" % (e[2][0], "" if e[2][1] < 0 else "[%d]" % e[2][1])
    if k == "lit":
        return "%#x" % e[2]
    if k == "blit":
        return "true" if e[2] else "false"
    if k in ("var", "bvar"):
        if e[2].startswith("$has:"):
            return 'which.contains("%s")' % e[2][5:]
        return {"$ga": "ctx.get_register_always(reg)", "$mga": "self.get_register_always(reg)", "$size": "size_of::<Register>()", "$iv": "register_is_valid(reg, valid)",
                "$contains": "which.contains(reg)", "$memo": "self.memoize_register(reg).is_some()"}.get(e[2], e[2])
    if k == "cast":
        return "(%s as u%d)" % (show_aexp(e[2]), e[1])
    if k in ("not", "bnot"):
        return "!%s" % show_aexp(e[2])
    if k in ("shl", "shr"):
        return "(%s %s %d)" % (show_aexp(e[2]), "<<" if k == "shl" else ">>", e[3])
    if k == "let":
        return "let %s = %s; %s" % (e[2], show_aexp(e[3]), show_aexp(e[4]))
    if k == "if":
        return "if %s { %s } else { %s }" % (show_aexp(e[2]), show_aexp(e[3]), show_aexp(e[4]))
    op = {"and": "&", "or": "|", "xor": "^", "eq": "==", "ne": "!=", "band": "&&", "bor": "||"}[k]
    return "(%s %s %s)" % (show_aexp(e[2]), op, show_aexp(e[3]))


def coq_aexp(e):
    k = e[0]
    if k == "loc":
        return "(ALoc %s)" % coq_loc(e[2])
    if k == "lit":
        return "(ALit %d)" % e[2]
    if k == "var":
        return "(AVar %s)" % coq_str(e[2])
    if k == "cast":
        return "(ACast %s %d %d)" % (coq_aexp(e[2]), e[3], e[1])
    if k == "not":
        return "(ANot %s %d)" % (coq_aexp(e[2]), e[1])
    if k == "shl":
        return "(AShl %s %d %d)" % (coq_aexp(e[2]), e[3], e[1])
    if k == "shr":
        return "(AShr %s %d)" % (coq_aexp(e[2]), e[3])
    if k in ("and", "or", "xor"):
        return "(%s %s %s)" % ({"and": "AAnd", "or": "AOr", "xor": "AXor"}[k], coq_aexp(e[2]), coq_aexp(e[3]))
    if k == "let":
        return "(ALet %s %s %s)" % (coq_str(e[2]), coq_aexp(e[3]), coq_aexp(e[4]))
    if k == "if":
        return "(AIf %s %s %s)" % (coq_bexp(e[2]), coq_aexp(e[3]), coq_aexp(e[4]))
    raise Abort("internal: integer expression of kind %s" % k)


def coq_bexp(e):
    k = e[0]
    if k == "blit":
        return "(BLit %s)" % ("true" if e[2] else "false")
    if k == "bvar":
        return "(BVar %s)" % coq_str(e[2])
    if k in ("eq", "ne"):
        return "(%s %s %s)" % ("BEq" if k == "eq" else "BNe", coq_aexp(e[2]), coq_aexp(e[3]))
    if k in ("band", "bor"):
        return "(%s %s %s)" % ("BAnd" if k == "band" else "BOr", coq_bexp(e[2]), coq_bexp(e[3]))
    if k == "bnot":
        return "(BNot %s)" % coq_bexp(e[2])
    raise Abort("internal: boolean expression of kind %s" % k)


def coq_str(s):
    """a name as a byte list (the extracted model must not use Coq's string type)"""
    return "[" + "; ".join(str(b) for b in s.encode()) + "]"


def coq_list(xs):
    return "[" + "; ".join(xs) + "]"


def coq_z(x):
    return "(%d)" % x if x < 0 else "%d" % x


def coq_loc(l):
    return "(mkloc %s %s %s %s)" % (coq_str(l[0]), coq_z(l[1]), coq_z(l[2]), coq_z(l[3]))


def emit_read(rd):
    o = []
    o.append("(* MinidumpContext::read: `match md::ProcessorArchitecture::from_u16(system_info.raw.processor_architecture)`; per arm:")
    o.append("   the architecture numbers matched, the CONTEXT_* type read from the bytes, the MinidumpRawContext variant it is wrapped in,")
    o.append("   the name and value of the ContextFlagsCpu constant `ContextFlagsCpu::from_flags(ctx.context_flags [as u32])` is compared with,")
    o.append("   the serialised size of the type (a shorter buffer is a ReadFailure); `_ => Err(UnknownCpuContext)` *)")
    for a in rd["arms"]:
        o.append("(*   %s => %s as MinidumpRawContext::%s if flags == ContextFlagsCpu::%s (%#x), %d bytes *)"
                 % (" | ".join(a["arch_names"]), a["type"], a["variant"], a["flag_name"], a["flag"], a["size"]))
    o.append("Definition read_arms : list read_arm := %s." % coq_list(
        "(mk_read_arm %s %s %s %s %d %d)" % (coq_list(str(x) for x in a["archs"]), coq_str(a["type"]), coq_str(a["variant"]), coq_str(a["flag_name"]), a["flag"], a["size"])
        for a in rd["arms"]))
    o.append("(* ContextFlagsCpu::from_flags(f) = from_bits_truncate(f & CONTEXT_CPU_MASK): the mask, and the union of the defined constants *)")
    o.append("Definition read_cpu_mask : Z := %d." % rd["mask"])
    o.append("Definition read_cpu_all_bits : Z := %d." % rd["allbits"])
    return "\n".join(o) + "\n"


def emit(tables):
    o = []
    o.append("(* GENERATED by translate/context_tables.py from minidump/src/context.rs and")
    o.append("   minidump-common/src/format.rs — do not edit; regenerated by every check run. *)")
    o.append("From Coq Require Import ZArith List.")
    o.append("From RM Require Import C18.Tables.")
    o.append("Import ListNotations.")
    o.append("Open Scope Z_scope.")
    o.append("(* names are byte lists; each table is preceded by its names in clear *)")
    o.append("")
    for t in tables:
        nm = "ctx_" + t["variant"].lower()
        o.append("(* %s (%s), u%d; REGISTERS = %s;" % (t["name"], t["variant"], t["width"], " ".join(t["registers"])))
        o.append("   get arms: %s;" % " ".join("|".join(ps) + "->" + show_aexp(e).replace("ctx.", "") for ps, e in t["get"]))
        o.append("   memoize arms: %s; sp %s ip %s *)" % (" ".join("|".join(ps) + "->" + m for ps, m in t["memo"]) or "-", t["sp_name"], t["ip_name"]))
        o.append("Definition %s : ctx_table := {|" % nm)
        o.append("  ct_name := %s;" % coq_str(t["name"]))
        o.append("  ct_variant := %s;" % coq_str(t["variant"]))
        o.append("  ct_width := %d;" % t["width"])
        o.append("  ct_registers := %s;" % coq_list(coq_str(r) for r in t["registers"]))
        o.append("  ct_get := %s;" % coq_list("(%s, %s)" % (coq_list(coq_str(p) for p in ps), coq_aexp(e)) for ps, e in t["get"]))
        o.append("  ct_set := %s;" % coq_list("(%s, %s)" % (coq_list(coq_str(p) for p in ps), coq_loc(l)) for ps, l, _ in t["set"]))
        o.append("  ct_set_val := %s;" % coq_list("(%s, %s)" % (coq_list(coq_str(p) for p in ps), coq_aexp(e)) for ps, _, e in t["set"]))
        o.append("  ct_memo := %s;" % coq_list("(%s, %s)" % (coq_list(coq_str(p) for p in ps), coq_str(c)) for ps, c in t["memo"]))
        o.append("  (* memoize_register's default searches %s::REGISTERS *)" % t["memo_tbl_of"])
        o.append("  ct_memo_tbl := %s;" % coq_list(coq_str(r) for r in t["memo_tbl"]))
        o.append("  ct_memo_cmp := %d;" % t["memo_cmp"])
        o.append("  (* register_is_valid arms: %s *)" % ("; ".join("|".join(ps) + " => " + show_aexp(b) for ps, b in t["groups"]) or "-"))
        o.append("  ct_groups := %s;" % coq_list("(%s, %s)" % (coq_list(coq_str(p) for p in ps), coq_bexp(b)) for ps, b in t["groups"]))
        o.append("  (* register_is_valid: under All %s; under Some(which), names without an arm: %s (%s) *)"
                 % (show_aexp(t["valid_all"]), show_aexp(t["valid_default"]), "own body" if t["custom_valid"] else "trait default"))
        o.append("  (* get_register: Some(get_register_always(reg)) when %s *)" % show_aexp(t["get_cond"]))
        o.append("  ct_get_cond := %s;" % coq_bexp(t["get_cond"]))
        o.append("  (* ... and returns Some(%s); MinidumpContext::get_register returns Some(%s) *)" % (show_aexp(t["get_val"]), show_aexp(t["md_get_val"])))
        o.append("  ct_get_val := %s; ct_md_get_val := %s;" % (coq_aexp(t["get_val"]), coq_aexp(t["md_get_val"])))
        o.append("  ct_valid_all := %s;" % coq_bexp(t["valid_all"]))
        o.append("  ct_valid_default := %s;" % coq_bexp(t["valid_default"]))
        o.append("  (* format_register: prefix %r, %s-padded to size_of::<Register>() * %d lower-case hex digits *)"
                 % (t["fmt"][0], "zero" if t["fmt"][1] else "space", t["fmt"][2]))
        o.append("  ct_fmt_prefix := %s; ct_fmt_zero := %s; ct_fmt_mul := %d;" % (coq_str(t["fmt"][0]), "true" if t["fmt"][1] else "false", t["fmt"][2]))
        o.append("  ct_sp_name := %s;" % coq_str(t["sp_name"]))
        o.append("  ct_ip_name := %s;" % coq_str(t["ip_name"]))
        o.append("  (* get_stack_pointer: %s *)" % show_aexp(t["sp_acc"]))
        o.append("  ct_sp_acc := %s;" % coq_aexp(t["sp_acc"]))
        o.append("  (* get_instruction_pointer: %s *)" % show_aexp(t["ip_acc"]))
        o.append("  ct_ip_acc := %s;" % coq_aexp(t["ip_acc"]))
        o.append("  (* MinidumpContext::get_register_always arm: %s; get_register tests %s; valid_registers filters by %s *)"
                 % (show_aexp(t["md_get"]), show_aexp(t["md_valid"]), show_aexp(t["md_filter"])))
        o.append("  ct_md_get := %s;" % coq_aexp(t["md_get"]))
        o.append("  ct_md_valid := %s;" % coq_bexp(t["md_valid"]))
        o.append("  ct_md_filter := %s;" % coq_bexp(t["md_filter"]))
        def coq_src(x):
            return "NSet" if x[0] == "set" else "(NList %s)" % coq_list(coq_str(r) for r in x[1])
        o.append("  (* CpuContext::valid_registers iterates: under All %s; under Some(valid) %s *)"
                 % tuple("the validity set" if x[0] == "set" else x[2] for x in (t["iter_all"], t["iter_some"])))
        o.append("  ct_iter_all := %s;" % coq_src(t["iter_all"]))
        o.append("  ct_iter_some := %s;" % coq_src(t["iter_some"]))
        o.append("  (* CpuContext::registers: %s *)" % ("self.valid_registers(&All)" if t["regs_direct"] is None else "builds the iterator itself over " + t["regs_direct"][2]))
        o.append("  ct_regs_direct := %s;" % ("None" if t["regs_direct"] is None else "(Some %s)" % coq_src(t["regs_direct"])))
        o.append("  (* CpuRegisters::next: Slice arm skips %d, Set arm skips %d, yields (reg, %s) *)" % (t["next_skip"][0], t["next_skip"][1], show_aexp(t["next_val"])))
        o.append("  ct_next_slice := %d; ct_next_set := %d;" % t["next_skip"])
        o.append("  ct_next_val := %s;" % coq_aexp(t["next_val"]))
        o.append("  (* MinidumpContext::registers pairs a name with %s; register_size arm: %s *)" % (show_aexp(t["md_regs_val"]), show_aexp(t["md_size"])))
        o.append("  ct_md_regs_val := %s;" % coq_aexp(t["md_regs_val"]))
        o.append("  ct_md_size := %s;" % coq_aexp(t["md_size"]))
        o.append("  (* MinidumpContext::format_register arm: %s *)" % ("forwards ctx.format_register(reg)" if t["md_fmt"] is None else
                 "own rendering, prefix %r, %s-padded to %d digits" % (t["md_fmt"][0], "zero" if t["md_fmt"][1] else "space", t["md_fmt"][2])))
        o.append("  ct_md_fmt := %s;" % ("None" if t["md_fmt"] is None else "(Some (%s, %s, %d))" % (coq_str(t["md_fmt"][0]), "true" if t["md_fmt"][1] else "false", t["md_fmt"][2])))
        o.append("  ct_fields := %s;" % coq_list("(%s, %d, %s, %d)" % (coq_str(f), w, coq_z(n), off) for f, w, n, off in t["fields"]))
        o.append("  ct_gpr := %s" % coq_list(coq_str(r) for r in t["gpr"]))
        o.append("|}.")
        o.append("")
    o.append("Definition all_contexts : list ctx_table := %s." % coq_list("ctx_" + t["variant"].lower() for t in tables))
    return "\n".join(o) + "\n"


def has_names(e):
    """the literal names a validity condition tests"""
    if e[0] == "bvar":
        return [e[2][5:]] if e[2].startswith("$has:") else []
    out = []
    for x in e[2:]:
        if isinstance(x, tuple):
            out += has_names(x)
    return out


def names_json(tables, rd):
    d = {}
    for t in tables:
        names = []
        for arm in t["get"] + t["set"]:
            for p in arm[0]:
                if p not in names:
                    names.append(p)
        for ps, c in t["memo"]:
            for p in ps + [c]:
                if p not in names:
                    names.append(p)
        for ps, b in t["groups"]:
            for p in ps + has_names(b):
                if p not in names:
                    names.append(p)
        for r in t["registers"]:
            if r not in names:
                names.append(r)
        aliases = {}
        for ps, c in t["memo"]:
            for p in ps:
                aliases[p] = c
        d[t["variant"]] = {"type": t["name"], "width": t["width"], "registers": t["registers"], "names": names,
                           "sp_name": t["sp_name"], "ip_name": t["ip_name"], "aliases": aliases,
                           "flags_width": t["flags_width"], "cpu_flags": t["cpu_flags"]}
    for a in rd["arms"]:
        d[a["variant"]].setdefault("read_archs", []).extend(a["archs"])
        d[a["variant"]]["read_size"] = a["size"]
        d[a["variant"]]["flags_off"] = a["flags_off"]
    d["$read"] = {"archs": rd["archs"], "mask": rd["mask"], "allbits": rd["allbits"]}
    return json.dumps(d, indent=1, sort_keys=True) + "\n"


def write_if_changed(path, content):
    os.makedirs(os.path.dirname(path), exist_ok=True)
    try:
        if open(path).read() == content:
            return
    except OSError:
        pass
    with open(path, "w") as f:
        f.write(content)


def main():
    if len(sys.argv) != 3:
        print(__doc__, file=sys.stderr)
        sys.exit(2)
    repo, outdir = sys.argv[1], sys.argv[2]
    try:
        tr = Tr(repo)
        tables = tr.run()
    except Abort as e:
        print("context_tables.py: ABORT: %s" % e, file=sys.stderr)
        sys.exit(1)
    except Exception as e:       # source the parser does not recognise in a place without its own message: abort all the same
        print("context_tables.py: ABORT: unrecognised source (%s: %s)" % (type(e).__name__, e), file=sys.stderr)
        sys.exit(1)
    write_if_changed(os.path.join(outdir, "ContextTables.v"), emit(tables) + emit_read(tr.read))
    write_if_changed(os.path.join(outdir, "context_names.json"), names_json(tables, tr.read))


if __name__ == "__main__":
    main()
