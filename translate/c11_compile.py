#!/usr/bin/env python3
"""Compiler for C11: bodies of the lookup functions of breakpad-symbols -> coq/Gen/C11Src.v     argv: <repo> <outdir>

Not a template.  The bodies of
  breakpad-symbols/src/sym_file/types.rs   Function::{memory_range, get_inlinee_at_depth, get_outermost_sourceloc, get_innermost_sourceloc},
                                           StackInfoWin::memory_range
  breakpad-symbols/src/sym_file/mod.rs     SymbolFile::{find_nearest_public, fill_symbol}
  breakpad-symbols/src/sym_file/parser.rs  the Line::Function arm of SymbolParser::finish_item (line filter, the closure building each line's
                                           range, into_rangemap_safe, inlinees.retain / sort, memory_range, self.functions.push);
                                           insert_win_stack_info (the overlap repair of STACK WIN records: `last_mut()` borrows, `as u32`, `unwrap`)
  breakpad-symbols/src/lib.rs              Symbolizer::fill_symbol;   minidump-unwind/src/lib.rs   fill_source_line_info
are tokenised, parsed (a small Rust subset: let / if / if let / match / for x in n.. / return / break / assignment /
closures / method chains / tuples / ? / as / & / comparison and + -) and compiled, statement by statement, into Gallina
over the vocabulary of coq/C11/Prims.v:
  * a function is compiled in continuation-passing style into the `outcome` monad of Base/Word.v; `return e` ends the
    function, `e?` ends it with None, a `match` / `if` that is followed by more code binds the rest as a local function
    (`let kj := fun ... => rest in`) that every branch which falls through calls with the current values of the mutable
    variables (`frame`, `let mut` / `Some(mut x)` bindings);
  * `+` / `-` on u64 / u32 are `chk_add` / `chk_sub` (debug trap, release wrap), on usize `usize_sub` (a trap in both
    profiles: the wrapped index is out of bounds for any vector that fits in memory), `v[i]` is `vec_index` (a panic site),
    `Range::new(a, b)` is `range_new` (range-map 0.2.0 panics when a > b);
  * `for x in n.. { body }` becomes a generated Fixpoint over a fuel argument (the Rust loop has no bound; the theorems of
    C11/SrcTie.v give the fuel that suffices) whose arguments are the variables the body uses; `break` returns the mutable
    variables, the end of the body steps the u32 counter with `chk_add p 32`;
  * the callbacks on `frame: &mut dyn FrameSymbolizer` are updates of a `sym_out` value (set_function / set_source_file /
    add_inline_frame = what the harness's recording FrameSymbolizer records);
  * field types come from the struct declarations in types.rs / mod.rs (parsed here), method calls are resolved on the
    receiver's type (RangeMap::get = C08 rm_get, HashMap::get = assoc_last, slice::binary_search_by_key = bsearch_by, ...).
Anything outside the subset is reported with the offending source text and the script exits with status 1 (the runner records a
broken tie); the output file is still written, with the function that could not be compiled replaced by a definition marked FALLBACK
that is the hand-written model, so that the model driver keeps building and the correspondence run goes on.  coq/C11/SrcTie.v proves every compiled function equal
to the hand-written model of C11/Model.v for all arguments."""
import os
import re
import sys

repo, outdir = sys.argv[1], sys.argv[2]


class Abort(Exception):
    pass


def die(msg):
    raise Abort(msg)


def strip_comments(s):
    out, i, n = [], 0, len(s)
    while i < n:
        if s.startswith("//", i):
            j = s.find("\n", i)
            i = n if j < 0 else j
        elif s.startswith("/*", i):
            j = s.find("*/", i + 2)
            i = n if j < 0 else j + 2
        elif s[i] == '"':
            j = i + 1
            while j < n and s[j] != '"':
                j += 2 if s[j] == "\\" else 1
            out.append(s[i:j + 1])
            i = j + 1
        else:
            out.append(s[i])
            i += 1
    return "".join(out)


def read(rel):
    try:
        return strip_comments(open(os.path.join(repo, rel)).read())
    except OSError as e:
        die("cannot read %s: %s" % (rel, e))


def fn_source(src, head_re, what):
    """(signature text, body text) of the unique function whose head matches"""
    ms = list(re.finditer(head_re, src))
    if len(ms) != 1:
        die("%s: expected exactly one definition, found %d" % (what, len(ms)))
    i = src.index("{", ms[0].end() - 1)
    d, j = 0, i
    while j < len(src):
        if src[j] == "{":
            d += 1
        elif src[j] == "}":
            d -= 1
            if d == 0:
                return src[ms[0].start():i], src[i:j + 1]
        j += 1
    die(what + ": unbalanced braces")


# ============================================================================ tokens
TOK = re.compile(r"\s*(?:(\d+)|([A-Za-z_][A-Za-z0-9_]*)|(::|->|=>|==|!=|<=|>=|&&|\|\||\.\.|[-+*/%<>=!&|.,;:(){}\[\]?]))")


def tokenize(s, what):
    out, i = [], 0
    s = s.rstrip()
    while i < len(s):
        m = TOK.match(s, i)
        if not m:
            die("%s: cannot tokenise: %s" % (what, s[i:i + 60]))
        if m.group(1) is not None:
            out.append(("int", m.group(1)))
        elif m.group(2) is not None:
            out.append(("id", m.group(2)))
        else:
            out.append(("p", m.group(3)))
        i = m.end()
    out.append(("eof", ""))
    return out


# ============================================================================ parser (Rust subset -> tuples)
class P:
    def __init__(self, toks, what):
        self.t, self.i, self.what = toks, 0, what

    def peek(self, k=0):
        return self.t[min(self.i + k, len(self.t) - 1)]

    def at(self, v, k=0):
        return self.peek(k)[1] == v and self.peek(k)[0] in ("p", "id")

    def next(self):
        x = self.t[self.i]
        self.i += 1
        return x

    def eat(self, v):
        if not self.at(v):
            self.fail("expected `%s`" % v)
        return self.next()

    def fail(self, msg):
        ctx = " ".join(x[1] for x in self.t[max(0, self.i - 6):self.i + 10])
        die("%s: %s near: ... %s" % (self.what, msg, ctx))

    # ---- patterns
    def pat(self):
        k, v = self.peek()
        if k == "int":
            self.next()
            return ("plit", int(v))
        if v == "&":
            self.next()
            return self.pat()
        if v == "(":
            self.next()
            ps = []
            while not self.at(")"):
                ps.append(self.pat())
                if self.at(","):
                    self.next()
            self.eat(")")
            return ps[0] if len(ps) == 1 else ("ptup", ps)
        if k == "id":
            self.next()
            if v == "_":
                return ("pwild",)
            if v == "mut":
                return ("pvar", self.next()[1], True)
            if v == "ref":
                self.fail("`ref` patterns are outside the subset")
            if self.at("("):
                self.next()
                ps = []
                while not self.at(")"):
                    ps.append(self.pat())
                    if self.at(","):
                        self.next()
                self.eat(")")
                return ("pctor", v, ps)
            if v in ("None",):
                return ("pctor", v, [])
            return ("pvar", v, False)
        self.fail("pattern outside the subset")

    # ---- blocks / statements
    def block(self):
        self.eat("{")
        stmts = []
        while not self.at("}"):
            if self.at("let"):
                self.next()
                p = self.pat()
                if self.at(":"):
                    self.fail("type ascription in `let` is outside the subset")
                self.eat("=")
                e = self.expr()
                self.eat(";")
                stmts.append(("let", p, e))
            elif self.at("for"):
                self.next()
                p = self.pat()
                self.eat("in")
                lo = self.expr(no_struct=True, no_range=True)
                self.eat("..")
                if not self.at("{"):
                    self.fail("only the unbounded range `n..` is in the subset")
                stmts.append(("for", p, lo, self.block()))
            else:
                e = self.expr(stmt=True)
                if self.at(";"):
                    self.next()
                    stmts.append(("expr", e))
                elif self.at("}"):
                    stmts.append(("tail", e))
                elif e[0] in ("if", "iflet", "match"):
                    stmts.append(("expr", e))
                else:
                    self.fail("expected `;` or `}`")
        self.eat("}")
        return stmts

    # ---- expressions
    def expr(self, stmt=False, no_struct=False, no_range=False):
        if self.at("return"):
            self.next()
            if self.at(";") or self.at("}") or self.at(","):
                return ("return", None)
            return ("return", self.expr())
        if self.at("break"):
            self.next()
            return ("break",)
        l = self.binary(0)
        if self.at("="):
            self.next()
            return ("assign", l, self.expr())
        return l

    LEVELS = [["||"], ["&&"], ["==", "!=", "<", "<=", ">", ">="], ["+", "-"]]

    def binary(self, lvl):
        if lvl == len(self.LEVELS):
            return self.cast()
        l = self.binary(lvl + 1)
        while self.peek()[0] == "p" and self.peek()[1] in self.LEVELS[lvl]:
            op = self.next()[1]
            r = self.binary(lvl + 1)
            l = ("bin", op, l, r)
            if lvl == 2:
                break
        return l

    def cast(self):
        e = self.unary()
        while self.at("as"):
            self.next()
            e = ("cast", e, self.next()[1])
        return e

    def unary(self):
        if self.at("&"):
            self.next()
            if self.at("mut"):
                self.next()
            return self.unary()
        if self.at("*"):
            self.next()
            return self.unary()
        if self.at("!") or self.at("-"):
            self.fail("unary `%s` is outside the subset" % self.peek()[1])
        return self.postfix(self.primary())

    def args(self):
        self.eat("(")
        a = []
        while not self.at(")"):
            a.append(self.expr())
            if self.at(","):
                self.next()
        self.eat(")")
        return a

    def postfix(self, e):
        while True:
            if self.at("."):
                self.next()
                k, v = self.next()
                if k == "int":
                    e = ("tfield", e, int(v))
                elif k == "id" and self.at("("):
                    e = ("mcall", e, v, self.args())
                elif k == "id":
                    e = ("field", e, v)
                else:
                    self.fail("field access outside the subset")
            elif self.at("["):
                self.next()
                i = self.expr()
                self.eat("]")
                e = ("index", e, i)
            elif self.at("?"):
                self.next()
                e = ("try", e)
            elif self.at("(") and e[0] == "path":
                e = ("call", e[1], self.args())
            else:
                return e

    def primary(self):
        k, v = self.peek()
        if k == "int":
            self.next()
            return ("int", int(v))
        if v == "(":
            self.next()
            es = []
            trailing = False
            while not self.at(")"):
                es.append(self.expr())
                trailing = False
                if self.at(","):
                    self.next()
                    trailing = True
            self.eat(")")
            if len(es) == 1 and not trailing:
                return es[0]
            return ("tuple", es)
        if v == "{" and k == "p":
            return ("blockexpr", self.block())
        if v == "|" and k == "p":
            self.next()
            ps = []
            while not self.at("|"):
                ps.append(self.pat())
                if self.at(","):
                    self.next()
            self.eat("|")
            return ("closure", ps, self.expr())
        if v == "if":
            self.next()
            if self.at("let"):
                self.next()
                p = self.pat()
                self.eat("=")
                e = self.expr()
                th = self.block()
                el = self.else_()
                return ("iflet", p, e, th, el)
            c = self.expr()
            th = self.block()
            return ("if", c, th, self.else_())
        if v == "match":
            self.next()
            e = self.expr()
            self.eat("{")
            arms = []
            while not self.at("}"):
                p = self.pat()
                self.eat("=>")
                if self.at("{"):
                    b = self.block()
                else:
                    b = [("tail", self.expr())]
                if self.at(","):
                    self.next()
                arms.append((p, b))
            self.eat("}")
            return ("match", e, arms)
        if k == "id":
            self.next()
            path = [v]
            while self.at("::"):
                self.next()
                path.append(self.next()[1])
            if len(path) == 1 and v[0].isupper() and self.at("{") and self.at("}", 1):
                self.next()
                self.next()
                return ("unitstruct", v)
            if len(path) == 1 and not self.at("("):
                return ("var", v)
            return ("path", path)
        self.fail("expression outside the subset")

    def else_(self):
        if not self.at("else"):
            return None
        self.next()
        if self.at("if"):
            return [("tail", self.primary())]
        return self.block()


def parse_fn(src, head_re, what):
    sig, body = fn_source(src, head_re, what)
    p = P(tokenize(body, what), what)
    b = p.block()
    if p.peek()[0] != "eof":
        p.fail("trailing source")
    return sig, b


# ============================================================================ struct declarations -> field types
def parse_type(t):
    t = t.strip()
    if t in ("u64", "u32", "usize", "bool"):
        return t
    if t == "String":
        return "name"
    m = re.fullmatch(r"Vec<(.*)>", t)
    if m:
        return ("vec", parse_type(m.group(1)))
    m = re.fullmatch(r"RangeMap<u64,\s*(.*)>", t)
    if m:
        return ("rm", parse_type(m.group(1)))
    if re.fullmatch(r"HashMap<u32,\s*String>", t):
        return ("hm",)
    if re.fullmatch(r"[A-Z][A-Za-z0-9]*", t):
        return ("S", t)
    return None


def struct_decl(src, name):
    m = re.search(r"pub struct %s \{(.*?)\n\}" % name, src, re.S)
    if not m:
        die("struct %s not found" % name)
    out = {}
    for f, t in re.findall(r"pub(?:\(crate\))? ([a-z_0-9]+)\s*:\s*([^\n]+?),\s*(?:\n|$)", m.group(1)):
        out[f] = parse_type(t)
    return out


try:
    ty_src = read("breakpad-symbols/src/sym_file/types.rs")
    mod_src = read("breakpad-symbols/src/sym_file/mod.rs")
    STRUCTS = {n: struct_decl(ty_src, n) for n in ("Function", "Inlinee", "PublicSymbol", "SourceLine", "StackInfoWin", "SymbolFile")}
except Abort as e:
    sys.stderr.write("c11_compile.py: %s\n" % e)
    sys.exit(1)
# the Gallina records of C11/Model.v: projection and Coq type per Rust struct
PROJ = {
    "Function": {"address": "fn_addr", "size": "fn_size", "parameter_size": "fn_psize", "name": "fn_name", "lines": "fn_lines",
                 "inlinees": "fn_inls"},
    "Inlinee": {"depth": "i_depth", "address": "i_addr", "size": "i_size", "call_file": "i_cfile", "call_line": "i_cline",
                "origin_id": "i_origin"},
    "PublicSymbol": {"address": "p_addr", "name": "p_name", "parameter_size": "p_psize"},
    "SourceLine": {"address": "l_addr", "size": "l_size", "file": "l_file", "line": "l_line"},
    "StackInfoWin": {"address": "w_addr", "size": "w_size", "parameter_size": "w_psize"},
    "SymbolFile": {"files": "st_files", "inline_origins": "st_origins", "publics": "st_publics", "functions": "st_funcs",
                   "win_stack_framedata_info": "st_win_fd", "win_stack_fpo_info": "st_win_fpo"},
}
COQREC = {"Function": "func", "Inlinee": "inl_rec", "PublicSymbol": "pub_rec", "SourceLine": "line_rec", "StackInfoWin": "win_rec",
          "SymbolFile": "symtab"}
# the model's records carry exactly these fields with these types; a changed declaration aborts
EXPECT = {
    "Function": {"address": "u64", "size": "u32", "parameter_size": "u32", "name": "name", "lines": ("rm", ("S", "SourceLine")),
                 "inlinees": ("vec", ("S", "Inlinee"))},
    "Inlinee": {"depth": "u32", "address": "u64", "size": "u32", "call_file": "u32", "call_line": "u32", "origin_id": "u32"},
    "PublicSymbol": {"address": "u64", "name": "name", "parameter_size": "u32"},
    "SourceLine": {"address": "u64", "size": "u32", "file": "u32", "line": "u32"},
    "StackInfoWin": {"address": "u64", "size": "u32", "parameter_size": "u32"},
    "SymbolFile": {"files": ("hm",), "inline_origins": ("hm",), "publics": ("vec", ("S", "PublicSymbol")),
                   "functions": ("rm", ("S", "Function")), "win_stack_framedata_info": ("rm", ("S", "StackInfoWin")),
                   "win_stack_fpo_info": ("rm", ("S", "StackInfoWin"))},
}
PROBLEMS = []          # what could not be compiled; reported at the end (exit status 1)
for sn, fs in EXPECT.items():
    for f, t in fs.items():
        if STRUCTS[sn].get(f) != t:
            PROBLEMS.append("struct %s: field `%s` is declared %r, the model's record assumes %r" % (sn, f, STRUCTS[sn].get(f), t))
            STRUCTS[sn][f] = t


SETTER = {("Function", "lines"): "func_set_lines", ("Function", "inlinees"): "func_set_inlinees", ("StackInfoWin", "size"): "win_set_size"}
EQB = {"SourceLine": "line_eqb"}                          # `==` of the value type (into_rangemap_safe compares values)
DERIVED_LT = {"Inlinee": "inl_lt", "PublicSymbol": "pub_lt"}  # derive(Ord): lexicographic in declaration order (pinned by c11_symbolize.py)


def coq_type(t):
    if t in ("u64", "u32", "name"):
        return "Z"
    if t == "usize":
        return "nat"
    if t == "bool":
        return "bool"
    if t == "frame":
        return "sym_out"
    if t == "sframe":
        return "sframe"
    if t == "mmod":
        return "Z * module"
    if t == "modlist":
        return "modlist"
    if t == "unit":
        return "unit"
    if t == "range":
        return "range"
    if t == "bres":
        return "bres"
    if isinstance(t, tuple):
        if t[0] == "S":
            return COQREC[t[1]]
        if t[0] in ("vec", "rm", "opt", "res") and coq_type(t[1]) is None:
            return None
        if t[0] == "tup" and any(coq_type(x) is None for x in t[1]):
            return None
        if t[0] == "vec":
            return "list " + par(coq_type(t[1]))
        if t[0] == "rm":
            return "list (range * %s)" % coq_type(t[1])
        if t[0] == "hm":
            return "list (Z * Z)"
        if t[0] in ("opt", "res"):
            return "option " + par(coq_type(t[1]))
        if t[0] == "tup":
            return " * ".join(par(coq_type(x)) for x in t[1])
    return None


def par(s):
    return s if re.fullmatch(r"[A-Za-z0-9_']+", s) else "(" + s + ")"


# ============================================================================ code generation
class K:
    """continuation: fn(value text, value type) -> Gallina text; tail = ends the function / the loop body (duplicable)"""

    def __init__(self, fn, tail):
        self.fn, self.tail = fn, tail


def lit(text, t, target):
    """an integer literal in the position of a value of type target"""
    if t == "intlit" and target == "usize":
        return text + "%nat"
    return text


class Gen:
    def __init__(self, name, what, ret, sigs):
        self.name, self.what, self.ret, self.sigs = name, what, ret, sigs
        self.n = 0
        self.aux = []          # generated Fixpoints (loops)
        self.muts = []         # mutable variables in scope, in declaration order: (rust name, gallina name, type)
        self.loop = None       # inside a loop body: text returned by `break`
        self.uses_fuel = False
        self.gnames = set()
        self.out = "v_frame"   # what a function returning () returns: its mutable outputs
        self.in_closure = False
        self.writeback = []    # inside `if let Some(..) = v.last_mut() { .. }`: the lets that store the borrowed element back

    def fresh(self, stem):
        self.n += 1
        return "%s%d" % (stem, self.n)

    def fail(self, msg):
        die("%s: %s" % (self.what, msg))

    def bind(self, env, rust, t, mut=False):
        """a new Gallina name for a Rust binding (Rust shadowing becomes a fresh name: no capture in let-bound continuations)"""
        g = "v_" + rust.strip("\0")
        k = 1
        while g in self.gnames:
            k += 1
            g = "v_%s_%d" % (rust, k)
        self.gnames.add(g)
        env[rust] = (g, t)
        if mut:
            self.muts.append((rust, g, t))
        return g

    def mut_tuple(self):
        return ", ".join(g for _, g, _ in self.muts)

    def mut_type(self):
        return " * ".join(par(coq_type(t)) for _, _, t in self.muts)

    # ---- function ends
    def ret_value(self, text):
        if self.ret == "res":
            # the value is `Ok(())` (checked where it is built): the function's result is (ok?, its mutable outputs)
            return "".join(reversed(self.writeback)) + "Ret (%s, %s)" % (text, self.out)
        return "Ret %s" % par(text)

    def ret_none(self):
        if self.ret == "unit":
            self.fail("`?` in a function that returns ()")
        if self.ret == "res":
            return "".join(reversed(self.writeback)) + "Ret (false, %s)" % self.out     # Err(..): the error carries nothing the model needs
        return "Ret None"

    def end_unit(self):
        return "".join(reversed(self.writeback)) + "Ret %s" % par(self.out)

    # ---- blocks
    def block(self, stmts, env, k):
        """k receives the block's value ('tt','unit' when it has none)"""
        if not stmts:
            return k.fn("tt", "unit")
        s, rest = stmts[0], stmts[1:]

        def cont_rest(env2):
            return self.block(rest, env2, k)

        if s[0] == "let":
            def bound(text, t):
                env2 = dict(env)
                pre = self.bind_pat(s[1], text, t, env2)
                return pre + cont_rest(env2)
            return self.expr(s[2], env, K(bound, False))
        if s[0] == "tail":
            if rest:
                self.fail("internal: tail expression before the end of a block")
            return self.expr(s[1], env, k)
        if s[0] == "expr":
            return self.expr(s[1], env, K(lambda text, t: cont_rest(env), (not rest) and k.tail))
        if s[0] == "for":
            return self.for_loop(s, env, cont_rest)
        self.fail("statement outside the subset: %r" % (s[0],))

    def bind_pat(self, pat, text, t, env):
        """Gallina prefix binding the variables of an irrefutable pattern; updates env"""
        if pat[0] == "pvar":
            g = self.bind(env, pat[1], t, pat[2])
            ct = coq_type(t)
            return "let %s%s := %s in\n" % (g, (" : " + ct) if ct else "", text)
        if pat[0] == "pwild":
            return ""
        if pat[0] == "ptup":
            return "let '%s := %s in\n" % (self.pat_text(pat, t, env), text)
        self.fail("refutable pattern in `let`")

    def pat_text(self, pat, t, env):
        """Coq pattern for a Rust pattern matched against type t; binds into env"""
        if pat[0] == "pwild":
            return "_"
        if pat[0] == "pvar":
            if pat[1].startswith("_"):
                return "_"
            return self.bind(env, pat[1], t, pat[2])
        if pat[0] == "plit":
            if t == "usize" and pat[1] == 0:
                return "O"
            self.fail("integer literal pattern %d on %r" % (pat[1], t))
        if pat[0] == "ptup":
            if not (isinstance(t, tuple) and t[0] == "tup" and len(t[1]) == len(pat[1])):
                self.fail("tuple pattern of %d fields against %r" % (len(pat[1]), t))
            return "(" + ", ".join(self.pat_text(q, tt, env) for q, tt in zip(pat[1], t[1])) + ")"
        if pat[0] == "pctor":
            c, ps = pat[1], pat[2]
            if isinstance(t, tuple) and t[0] == "opt":
                if c == "Some" and len(ps) == 1:
                    return "Some " + self.pat_text(ps[0], t[1], env)
                if c == "None" and not ps:
                    return "None"
            if t == "bres" and len(ps) == 1 and c in ("Ok", "Err"):
                return "%s %s" % ({"Ok": "BOk", "Err": "BErr"}[c], self.pat_text(ps[0], "usize", env))
            self.fail("pattern %s(..) against %r" % (c, t))
        self.fail("pattern outside the subset")

    # ---- joins: the code after a branching construct
    def branching(self, k, build):
        """build(K') generates the branches.  When more code follows (k is not a tail) that code becomes a local function
        `kj` taking the mutable variables (and the construct's value); every branch that falls through calls it."""
        nm = len(self.muts)
        if k.tail:
            body = build(k)
            del self.muts[nm:]
            return body
        name = self.fresh("kj")
        muts = list(self.muts)
        holder = {}

        def call(text, t):
            holder.setdefault("t", t)
            args = [g for _, g, _ in muts]
            if t != "unit":
                args.append(text)
            return "%s %s" % (name, par(", ".join(args)) if args else "tt")
        body = build(K(call, True))
        del self.muts[nm:]
        t = holder.get("t", "unit")
        names = [g for _, g, _ in muts]
        types = [coq_type(tt) for _, _, tt in muts]
        jv = None
        if t != "unit":
            jv = self.fresh("jv")
            names.append(jv)
            types.append(coq_type(t))
        rest = k.fn(jv, t) if jv else k.fn("tt", "unit")
        if not names:
            pre = "let %s := fun _ : unit =>\n(%s) in\n" % (name, rest)
        elif len(names) == 1:
            pre = "let %s := fun %s =>\n(%s) in\n" % (name, "(%s : %s)" % (names[0], types[0]) if types[0] else names[0], rest)
        elif all(types):
            pre = "let %s := fun '((%s) : %s) =>\n(%s) in\n" % (name, ", ".join(names), " * ".join(par(x) for x in types), rest)
        else:
            pre = "let %s := fun '(%s) =>\n(%s) in\n" % (name, ", ".join(names), rest)
        return pre + body

    def scoped(self, fn):
        nm = len(self.muts)
        out = fn()
        del self.muts[nm:]
        return out

    # ---- expressions
    def pure(self, e, env):
        """(text, type) of an expression without effects, or None"""
        box = {}

        def k(text, t):
            box["r"] = (text, t)
            return "\0"
        n0, g0, m0 = self.n, set(self.gnames), len(self.muts)
        out = self.expr(e, env, K(k, True))
        if out != "\0":
            self.n, self.gnames = n0, g0
            del self.muts[m0:]
            return None
        return box["r"]

    def pure_block(self, stmts, env):
        if stmts is not None and len(stmts) == 1 and stmts[0][0] == "tail" and stmts[0][1][0] not in ("return", "break"):
            return self.pure(stmts[0][1], env)
        return None

    def need_pure(self, e, env, why):
        r = self.pure(e, env)
        if r is None:
            self.fail("%s must be free of effects" % why)
        return r

    def exprs(self, es, env, k_all):
        """evaluate left to right, then k_all([(text, type)])"""
        def go(i, acc):
            if i == len(es):
                return k_all(acc)
            return self.expr(es[i], env, K(lambda text, t: go(i + 1, acc + [(text, t)]), False))
        return go(0, [])

    def pure_arms(self, scrut, t, arms, env):
        """all arms are effect-free expressions: the whole construct is a Gallina match expression"""
        texts, rt = [], None
        n0, g0, m0 = self.n, set(self.gnames), len(self.muts)
        for pat, body in arms:
            env2 = dict(env)
            pt = "_" if pat is None else self.pat_text(pat, t, env2)
            r = self.pure_block(body, env2)
            if r is None or len(self.muts) != m0:
                self.n, self.gnames = n0, g0
                del self.muts[m0:]
                return None
            if rt is None or (isinstance(rt, tuple) and rt[0] == "opt" and rt[1] is None):
                rt = merge_type(rt, r[1])
            texts.append("| %s => %s" % (pt, r[0]))
        return "(match %s with %s end)" % (scrut, " ".join(texts)), rt

    def expr(self, e, env, k):
        kind = e[0]
        if kind == "int":
            return k.fn(str(e[1]), "intlit")
        if kind == "var":
            n = e[1]
            if n == "None":
                return k.fn("None", ("opt", None))
            if n not in env:
                self.fail("unknown variable `%s`" % n)
            if env[n][1] in ("module", "frame") or env[n][1] == ("S", "SymbolParser"):
                self.fail("`%s` used other than as the receiver of a known call" % n)
            return k.fn(env[n][0], env[n][1])
        if kind == "path":
            self.fail("path `%s` is outside the subset here" % "::".join(e[1]))
        if kind == "tuple":
            return self.exprs(e[1], env, lambda vs: k.fn("(" + ", ".join(x for x, _ in vs) + ")", ("tup", [t for _, t in vs])))
        if kind == "cast":
            def c(text, t):
                if (t, e[2]) in (("u32", "u64"), ("u64", "u64"), ("u32", "u32")):
                    return k.fn(text, e[2])
                if (t, e[2]) == ("u64", "u32"):
                    return k.fn("(wrap32 %s)" % text, "u32")       # `as u32` truncates
                self.fail("cast from %r to %s is outside the subset" % (t, e[2]))
            return self.expr(e[1], env, K(c, k.tail))
        if kind == "field" and e[2] == "await":
            return self.expr(e[1], env, k)            # the future is driven to completion: sequential reading
        if kind == "unitstruct":
            return k.fn("tt", ("unitstruct", e[1]))
        if kind == "field":
            def f(text, t):
                if t == "sframe" and e[2] == "instruction":
                    return k.fn("(sf_instr %s)" % text, "u64")
                if isinstance(t, tuple) and t[0] == "S" and t[1] in PROJ and e[2] in PROJ[t[1]]:
                    return k.fn("(%s %s)" % (PROJ[t[1]][e[2]], text), STRUCTS[t[1]][e[2]])
                if t == "range" and e[2] in ("start", "end"):
                    return k.fn("(%s %s)" % ({"start": "fst", "end": "snd"}[e[2]], text), "u64")
                self.fail("field `.%s` of %r is not part of the model" % (e[2], t))
            return self.expr(e[1], env, K(f, k.tail))
        if kind == "tfield":
            def f(text, t):
                if isinstance(t, tuple) and t[0] == "tup" and len(t[1]) == 2 and e[2] in (0, 1):
                    return k.fn("(%s %s)" % (("fst", "snd")[e[2]], text), t[1][e[2]])
                self.fail("tuple field .%d of %r" % (e[2], t))
            return self.expr(e[1], env, K(f, k.tail))
        if kind == "bin":
            op = e[1]
            if op in ("&&", "||"):
                self.fail("`%s` is outside the subset" % op)

            def b(vs):
                (l, lt), (r, rt) = vs
                t = lt if lt != "intlit" else rt
                if rt != "intlit" and lt != "intlit" and lt != rt:
                    self.fail("operands of `%s` have types %r and %r" % (op, lt, rt))
                l, r = lit(l, lt, t), lit(r, rt, t)
                if op in ("==", "!=") and t == "range":
                    c = "(range_eqb %s %s)" % (l, r)
                    return k.fn(c if op == "==" else "(negb %s)" % c, "bool")
                if op in ("==", "!=", "<", "<=", ">", ">="):
                    if t in ("u64", "u32"):
                        f = {"==": "Z.eqb", "<": "Z.ltb", "<=": "Z.leb", ">": "Z.gtb", ">=": "Z.geb"}
                    elif t == "usize":
                        f = {"==": "Nat.eqb", "<": "Nat.ltb", "<=": "Nat.leb"}
                    else:
                        self.fail("comparison `%s` on %r" % (op, t))
                    if op == "!=":
                        return k.fn("(negb (%s %s %s))" % (f["=="], l, r), "bool")
                    if op not in f:
                        self.fail("comparison `%s` on %r" % (op, t))
                    return k.fn("(%s %s %s)" % (f[op], l, r), "bool")
                x = self.fresh("x")
                if t in ("u64", "u32"):
                    call = "%s p %s %s %s %s" % ({"+": "chk_add", "-": "chk_sub"}[op], t[1:], "PANIC_ADD" if op == "+" else "PANIC_SUB", l, r)
                elif t == "usize" and op == "-":
                    call = "usize_sub %s %s" % (l, r)
                else:
                    self.fail("arithmetic `%s` on %r" % (op, t))
                return "do %s <- %s;\n%s" % (x, call, k.fn(x, t))
            return self.exprs([e[2], e[3]], env, b)
        if kind == "index":
            def ix(vs):
                (l, lt), (i, it) = vs
                if not (isinstance(lt, tuple) and lt[0] == "vec" and it == "usize"):
                    self.fail("indexing %r by %r" % (lt, it))
                x = self.fresh("x")
                return "do %s <- vec_index %s %s;\n%s" % (x, l, i, k.fn(x, lt[1]))
            return self.exprs([e[1], e[2]], env, ix)
        if kind in ("try", "return", "break") and self.in_closure:
            self.fail("`%s` inside a closure body is outside the subset" % {"try": "?"}.get(kind, kind))
        if kind == "blockexpr":
            return self.scoped(lambda: self.block(e[1], dict(env), k))
        if kind == "try":
            def tr(text, t):
                if isinstance(t, tuple) and t[0] == "res" and self.ret != "res":
                    self.fail("`?` on a Result in a function that does not return one")
                if not (isinstance(t, tuple) and t[0] in ("opt", "res")):
                    self.fail("`?` on %r" % (t,))
                x = self.fresh("x")
                return "match %s with\n| Some %s => %s\n| None => %s\nend" % (text, x, k.fn(x, t[1]), self.ret_none())
            return self.expr(e[1], env, K(tr, False))
        if kind == "return":
            if self.loop is not None:
                self.fail("`return` inside a loop body is outside the subset")
            if e[1] is None:
                if self.ret != "unit":
                    self.fail("`return;` in a function that returns a value")
                return self.end_unit()
            if self.ret == "unit":
                self.fail("`return <value>` in a function that returns ()")
            return self.expr(e[1], env, K(lambda text, t: self.ret_value(text), True))
        if kind == "break":
            if self.loop is None:
                self.fail("`break` outside a loop")
            return self.loop
        if kind == "assign" and e[1][0] == "field" and e[1][1][0] == "var":
            n, fld = e[1][1][1], e[1][2]
            if n not in env or env[n][0] not in [g for _, g, _ in self.muts]:
                self.fail("assignment to a field of something that is not a `mut` variable")
            g, t = env[n]
            if t == "sframe" and fld == "module":
                def fm(text, vt):
                    if not same_type(vt, ("opt", "mmod")):
                        self.fail("frame.module assigned a value of type %r" % (vt,))
                    return "let %s := sf_set_module %s %s in\n%s" % (g, g, par(text), k.fn("tt", "unit"))
                return self.expr(e[2], env, K(fm, k.tail))
            if not (isinstance(t, tuple) and t[0] == "S" and (t[1], fld) in SETTER):
                self.fail("assignment to field `.%s` of %r is not part of the model" % (fld, t))

            def fa(text, vt):
                if not same_type(vt, STRUCTS[t[1]][fld]):
                    self.fail("field `.%s` of %r assigned a value of type %r" % (fld, t, vt))
                return "let %s := %s %s %s in\n%s" % (g, SETTER[(t[1], fld)], g, par(text), k.fn("tt", "unit"))
            return self.expr(e[2], env, K(fa, k.tail))
        if kind == "assign":
            if e[1][0] != "var" or e[1][1] not in [n for n, _, _ in self.muts] or env.get(e[1][1], ("",))[0] not in [g for _, g, _ in self.muts]:
                self.fail("assignment to something that is not a `mut` variable")
            g = env[e[1][1]][0]
            return self.expr(e[2], env, K(lambda text, t: "let %s := %s in\n%s" % (g, text, k.fn("tt", "unit")), k.tail))
        if kind == "call":
            path, args = e[1], e[2]
            if path == ["Ok"] and args == [("tuple", [])] and self.ret == "res":
                return k.fn("true", ("res", "unit"))
            if path == ["Some"] and len(args) == 1:
                return self.expr(args[0], env, K(lambda text, t: k.fn("(Some %s)" % par(text), ("opt", t)), k.tail))
            if path == ["Range", "new"] and len(args) == 2:
                def rn(vs):
                    (a, at), (b, bt) = vs
                    if at != "u64" or bt != "u64":
                        self.fail("Range::new of %r and %r" % (at, bt))
                    x = self.fresh("x")
                    return "do %s <- range_new %s %s;\n%s" % (x, a, b, k.fn(x, "range"))
                return self.exprs(args, env, rn)
            self.fail("call of `%s` is outside the subset" % "::".join(path))
        if kind == "closure":
            self.fail("closure outside an argument position")
        if kind == "if":
            c, ct = self.need_pure(e[1], env, "the condition of `if`")
            if ct != "bool":
                self.fail("`if` on %r" % (ct,))
            el = e[3] if e[3] is not None else []
            a, b = self.pure_block(e[2], dict(env)), self.pure_block(el, dict(env))
            if a is not None and b is not None:
                return k.fn("(if %s then %s else %s)" % (c, a[0], b[0]), merge_type(a[1], b[1]))
            return self.branching(k, lambda kk: "if %s\nthen %s\nelse %s" % (
                c, self.scoped(lambda: self.block(e[2], dict(env), kk)), self.scoped(lambda: self.block(el, dict(env), kk))))
        if kind == "iflet" and e[2][0] == "mcall" and e[2][2] == "last_mut" and not e[2][3] and e[2][1][0] == "var":
            return self.last_mut(e, env, k)
        if kind == "iflet":
            def il(text, t):
                el = e[4] if e[4] is not None else []
                pa = self.pure_arms(text, t, [(e[1], e[3]), (None, el)], env)
                if pa is not None:
                    return k.fn(pa[0], pa[1])

                def build(kk):
                    def then():
                        env2 = dict(env)
                        pt = self.pat_text(e[1], t, env2)
                        return pt, self.block(e[3], env2, kk)
                    pt, th = self.scoped(then)
                    return "match %s with\n| %s => %s\n| _ => %s\nend" % (text, pt, th, self.scoped(lambda: self.block(el, dict(env), kk)))
                return self.branching(k, build)
            return self.expr(e[2], env, K(il, False))
        if kind == "match":
            def ma(text, t):
                pa = self.pure_arms(text, t, e[2], env)
                if pa is not None:
                    return k.fn(pa[0], pa[1])

                def build(kk):
                    arms = []
                    for pat, body in e[2]:
                        def arm():
                            env2 = dict(env)
                            pt = self.pat_text(pat, t, env2)
                            return "| %s => %s" % (pt, self.block(body, env2, kk))
                        arms.append(self.scoped(arm))
                    return "match %s with\n%s\nend" % (text, "\n".join(arms))
                return self.branching(k, build)
            return self.expr(e[1], env, K(ma, False))
        if kind == "mcall":
            return self.mcall(e, env, k)
        self.fail("expression outside the subset: %r" % (kind,))

    def last_mut(self, e, env, k):
        """if let Some((a, b)) = v.last_mut() { body } [else ..]: the last element is taken out of the `mut` vector into `mut` variables
        a, b; wherever the body is left (falling through or by `return`) the element is stored back (v := init ++ [(a, b)])."""
        _, pat, scrut, th, el = e
        vn = scrut[1][1]
        if vn not in env or env[vn][0] not in [g for _, g, _ in self.muts]:
            self.fail("last_mut() on something that is not a `mut` vector")
        vg, vt = env[vn]
        if not (isinstance(vt, tuple) and vt[0] == "vec" and isinstance(vt[1], tuple) and vt[1][0] == "tup" and len(vt[1][1]) == 2):
            self.fail("last_mut() on %r" % (vt,))
        if not (pat[0] == "pctor" and pat[1] == "Some" and len(pat[2]) == 1 and pat[2][0][0] == "ptup" and len(pat[2][0][1]) == 2
                and all(q[0] == "pvar" for q in pat[2][0][1])):
            self.fail("last_mut() pattern outside the subset")
        el = el if el is not None else []

        def build(kk):
            def then():
                env2 = dict(env)
                init = self.fresh("init")
                ga = self.bind(env2, pat[2][0][1][0][1], vt[1][1][0], True)
                gb = self.bind(env2, pat[2][0][1][1][1], vt[1][1][1], True)
                wb = "let %s := %s ++ [(%s, %s)] in\n" % (vg, init, ga, gb)
                self.writeback.append(wb)
                body = self.block(th, env2, K(lambda text, t: wb + kk.fn("tt", "unit"), True))
                self.writeback.pop()
                return "| Some (%s, (%s, %s)) => %s" % (init, ga, gb, body)
            a = self.scoped(then)
            b = self.scoped(lambda: self.block(el, dict(env), kk))
            return "match vec_last_split %s with\n%s\n| None => %s\nend" % (vg, a, b)
        return self.branching(k, build)

    def closure(self, c, argt, env):
        """(Coq fun text, result type) of a closure applied to a value of type argt; the body must be pure"""
        if c[0] != "closure" or len(c[1]) != 1:
            self.fail("expected a one-argument closure")
        env2 = dict(env)
        nm = len(self.muts)
        pt = self.pat_text(c[1][0], argt, env2)
        body, bt = self.need_pure(c[2], env2, "a closure body")
        del self.muts[nm:]
        ct = coq_type(argt)
        if c[1][0][0] == "ptup":
            return "(fun '(%s : %s) => %s)" % (pt, ct, body), bt
        return "(fun %s : %s => %s)" % (pt, ct, body), bt

    def closure_any(self, c, argt, env):
        """(pure?, Coq fun text, result type): a pure closure is a function to the value, an effectful one a function into `outcome`"""
        if c[0] != "closure" or len(c[1]) != 1:
            self.fail("expected a one-argument closure")
        n0, g0, m0 = self.n, set(self.gnames), len(self.muts)
        env2 = dict(env)
        pt = self.pat_text(c[1][0], argt, env2)
        ct = coq_type(argt)
        binder = "'(%s : %s)" % (pt, ct) if c[1][0][0] == "ptup" else "%s : %s" % (pt, ct)
        r = self.pure(c[2], env2)
        if r is not None:
            del self.muts[m0:]
            return True, "(fun %s => %s)" % (binder, r[0]), r[1]
        holder = {}

        def fin(text, t):
            holder["t"] = t
            return "Ret %s" % par(text)
        old_c, old_l = self.in_closure, self.loop
        self.in_closure, self.loop = True, None
        body = self.expr(c[2], env2, K(fin, True))
        self.in_closure, self.loop = old_c, old_l
        del self.muts[m0:]
        if "t" not in holder:
            self.fail("a closure body that never returns a value")
        return False, "(fun %s =>\n%s)" % (binder, body), holder["t"]

    def mcall(self, e, env, k):
        recv, m, args = e[1], e[2], e[3]
        # ---- the two trait objects
        if recv == ("var", "module") and env.get("module", ("", ""))[1] == "module":
            if m == "base_address" and not args:
                return k.fn("mbase", "u64")
            self.fail("module.%s is not part of the model" % m)
        if recv == ("var", "frame") and env.get("frame", ("", ""))[1] == "frame":
            if m == "get_instruction" and not args:
                return k.fn("instr", "u64")
            want = {"set_function": ["name", "u64", "u32"], "set_source_file": ["name", "u32", "u64"],
                    "add_inline_frame": ["name", ("opt", "name"), ("opt", "u32")]}
            if m in want:
                def cb(vs):
                    ts = [t for _, t in vs]
                    if len(ts) != len(want[m]) or any(not same_type(a, b) for a, b in zip(ts, want[m])):
                        self.fail("frame.%s called with %r" % (m, ts))
                    return "let v_frame := fr_%s v_frame %s in\n%s" % (m, " ".join(par(x) for x, _ in vs), k.fn("tt", "unit"))
                return self.exprs(args, env, cb)
            self.fail("frame.%s is not a callback the model records" % m)

        if recv[0] == "field" and recv[2] == "inlines" and recv[1][0] == "var" and env.get(recv[1][1], ("", ""))[1] == "sframe" \
                and m == "reverse" and not args:
            g = env[recv[1][1]][0]
            if g not in [x for _, x, _ in self.muts]:
                self.fail("frame.inlines.reverse() on a frame that is not `&mut`")
            return "let %s := sf_reverse_inlines %s in\n%s" % (g, g, k.fn("tt", "unit"))
        if recv[0] == "var" and env.get(recv[1], ("", ""))[1] == "provider" and m == "fill_symbol" and len(args) == 2:
            # P: SymbolProvider is instantiated at the Symbolizer (what walk_stack is given in the harness)
            def pf(vs):
                (mo, mt), (fr, ft) = vs
                if mt != "mmod" or ft != "sframe" or fr not in [x for _, x, _ in self.muts]:
                    self.fail("symbol_provider.fill_symbol called with %r, %r" % (mt, ft))
                x = self.fresh("x")
                self.uses_fuel = True
                return "do %s <- src_symbolizer_fill_symbol p fuel %s %s;\nlet %s := snd %s in\n%s" % (x, mo, fr, fr, x, k.fn("(fst %s)" % x, ("res", "unit")))
            return self.exprs(args, env, pf)
        if recv == ("var", "self") and env.get("self", ("", ""))[1] == "symbolizer" and m == "get_symbols" and len(args) == 1:
            a, at = self.need_pure(args[0], env, "the argument of get_symbols")
            if at != "mmod":
                self.fail("get_symbols of %r" % (at,))
            return k.fn("(get_symbols %s)" % a, ("res", ("S", "SymbolFile")))
        if recv == ("field", ("var", "self"), "functions") and m == "push" and len(args) == 1 and "\0functions" in env:
            g, ft = env["\0functions"]
            return self.expr(args[0], env, K(lambda a, at: (
                "let %s := %s ++ [%s] in\n%s" % (g, g, a, k.fn("tt", "unit")) if same_type(at, ft[1])
                else self.fail("self.functions.push of %r" % (at,))), k.tail))

        def r(text, t):
            tk = t[0] if isinstance(t, tuple) else t
            # ---- other compiled functions
            if tk == "S" and (t[1], m) in self.sigs:
                cname, rt, pts = self.sigs[(t[1], m)]

                def call(vs):
                    if len(vs) != len(pts) or not all(same_type(a, b) for a, b in zip([x for _, x in vs], pts)):
                        self.fail("%s called with %r" % (m, [x for _, x in vs]))
                    x = self.fresh("x")
                    return "do %s <- %s %s %s;\n%s" % (x, cname, text, " ".join(par(a) for a, _ in vs), k.fn(x, rt))
                return self.exprs(args, env, call)
            if tk == "rm" and m == "get" and len(args) == 1:
                a, at = self.need_pure(args[0], env, "the key of RangeMap::get")
                if at != "u64":
                    self.fail("RangeMap::get with a key of type %r" % (at,))
                return k.fn("(rm_get %s %s)" % (text, a), ("opt", t[1]))
            if tk == "rm" and m == "ranges_values" and not args:
                return k.fn(text, ("vec", ("tup", ["range", t[1]])))
            if tk == "hm" and m == "get" and len(args) == 1:
                a, at = self.need_pure(args[0], env, "the key of HashMap::get")
                if at != "u32":
                    self.fail("HashMap::get with a key of type %r" % (at,))
                return k.fn("(assoc_last %s %s)" % (a, text), ("opt", "name"))
            if t == "modlist" and m == "module_at_address" and len(args) == 1:
                a, at = self.need_pure(args[0], env, "the argument of module_at_address")
                if at != "u64":
                    self.fail("module_at_address of %r" % (at,))
                x = self.fresh("x")
                return "do %s <- module_at %s %s;\n%s" % (x, text, a, k.fn(x, ("opt", "mmod")))
            if t == "mmod" and m == "clone" and not args:
                return k.fn(text, t)
            if tk == "res" and m == "as_ref" and not args:
                return k.fn(text, t)
            if tk == "res" and m == "map_err" and len(args) == 1 and args[0][0] == "closure":
                return k.fn(text, t)        # only the error payload changes, which the model does not carry
            if tk == "S" and t[1] == "SymbolFile" and m == "fill_symbol" and len(args) == 2:
                def sf(vs):
                    (mo, mt), (fr, ft) = vs
                    if mt != "mmod" or ft != "sframe" or fr not in [x for _, x, _ in self.muts]:
                        self.fail("SymbolFile::fill_symbol called with %r, %r" % (mt, ft))
                    x = self.fresh("x")
                    self.uses_fuel = True
                    return "do %s <- src_fill_symbol p fuel %s (mod_base %s) (sf_instr %s);\nlet %s := sf_apply %s %s in\n%s" % (
                        x, text, mo, fr, fr, fr, x, k.fn("tt", "unit"))
                return self.exprs(args, env, sf)
            if t == "range" and m == "intersects" and len(args) == 1:
                a, at = self.need_pure(args[0], env, "the argument of intersects")
                if at != "range":
                    self.fail("intersects with %r" % (at,))
                return k.fn("(intersects %s %s)" % (text, a), "bool")
            if tk == "opt" and m == "unwrap" and not args:
                x = self.fresh("x")
                return "do %s <- opt_unwrap %s;\n%s" % (x, text, k.fn(x, t[1]))
            if tk == "vec" and m == "push" and len(args) == 1 and recv[0] == "var" and env[recv[1]][0] in [g for _, g, _ in self.muts]:
                g = env[recv[1]][0]
                return self.expr(args[0], env, K(lambda a, at: (
                    "let %s := %s ++ [%s] in\n%s" % (g, g, a, k.fn("tt", "unit")) if same_type(at, t[1])
                    else self.fail("push of %r onto %r" % (at, t))), k.tail))
            # ---- parser side (finish_item)
            if tk == "vec" and m == "into_iter" and not args:
                return k.fn(text, t)
            if tk == "vec" and m == "filter" and len(args) == 1:
                f, ft = self.closure(args[0], t[1], env)
                if ft != "bool":
                    self.fail("filter with a predicate of type %r" % (ft,))
                return k.fn("(filter %s %s)" % (f, text), t)
            if tk == "vec" and m == "map" and len(args) == 1:
                pure, f, ft = self.closure_any(args[0], t[1], env)
                if pure:
                    return k.fn("(map %s %s)" % (f, text), ("vec", ft))
                x = self.fresh("x")
                return "do %s <- vec_mapM %s %s;\n%s" % (x, f, text, k.fn(x, ("vec", ft)))
            if tk == "vec" and m == "into_rangemap_safe" and not args:
                et = t[1]
                if not (isinstance(et, tuple) and et[0] == "tup" and len(et[1]) == 2 and same_type(et[1][0], ("opt", "range"))
                        and isinstance(et[1][1], tuple) and et[1][1][0] == "S" and et[1][1][1] in EQB):
                    self.fail("into_rangemap_safe on %r" % (t,))
                x = self.fresh("x")
                return "do %s <- build %s %s;\n%s" % (x, EQB[et[1][1][1]], text, k.fn(x, ("rm", et[1][1])))
            if tk == "vec" and m in ("retain", "sort") and recv[0] == "var" and env[recv[1]][0] in [g for _, g, _ in self.muts]:
                g = env[recv[1]][0]
                if m == "retain" and len(args) == 1:
                    f, ft = self.closure(args[0], t[1], env)
                    if ft != "bool":
                        self.fail("retain with a predicate of type %r" % (ft,))
                    return "let %s := filter %s %s in\n%s" % (g, f, g, k.fn("tt", "unit"))
                if m == "sort" and not args:
                    if not (isinstance(t[1], tuple) and t[1][0] == "S" and t[1][1] in DERIVED_LT):
                        self.fail("sort() of a vector of %r" % (t[1],))
                    return "let %s := sort_by %s %s in\n%s" % (g, DERIVED_LT[t[1][1]], g, k.fn("tt", "unit"))
            if tk == "opt" and m == "map" and len(args) == 1 and args[0][0] == "closure":
                pure, f, ft = self.closure_any(args[0], t[1], env)
                if pure:
                    return k.fn("(option_map %s %s)" % (f, text), ("opt", ft))
                x = self.fresh("x")
                return "do %s <- opt_mapM %s %s;\n%s" % (x, f, text, k.fn(x, ("opt", ft)))
            if tk == "vec" and m in ("as_slice", "iter") and not args:
                return k.fn(text, t)
            if tk == "vec" and m == "rev" and not args:
                return k.fn("(rev %s)" % text, t)
            if tk == "vec" and m == "find" and len(args) == 1:
                f, ft = self.closure(args[0], t[1], env)
                if ft != "bool":
                    self.fail("find with a predicate of type %r" % (ft,))
                return k.fn("(find %s %s)" % (f, text), ("opt", t[1]))
            if tk == "vec" and m == "get" and len(args) == 1:
                a, at = self.need_pure(args[0], env, "the index of slice::get")
                if at != "usize":
                    self.fail("slice::get with an index of type %r" % (at,))
                return k.fn("(nth_error %s %s)" % (text, a), ("opt", t[1]))
            if tk == "vec" and m == "binary_search_by_key" and len(args) == 2:
                key, kt = self.need_pure(args[0], env, "the key of binary_search_by_key")
                f, ft = self.closure(args[1], t[1], env)
                if not same_type(kt, ft):
                    self.fail("binary_search_by_key: key %r, key function %r" % (kt, ft))
                if kt == "u64" or kt == "u32":
                    cmpf = "(fun e => cmp_z (%s e) %s)" % (f, key)
                elif isinstance(kt, tuple) and kt[0] == "tup" and len(kt[1]) == 2 and all(x in ("u64", "u32") for x in kt[1]):
                    cmpf = "(fun e => cmp_pair (fst (%s e)) (snd (%s e)) (fst %s) (snd %s))" % (f, f, key, key)
                else:
                    self.fail("binary_search_by_key on keys of type %r" % (kt,))
                return k.fn("(bsearch_by %s %s)" % (cmpf, text), "bres")
            if tk == "bres" and m == "err" and not args:
                return k.fn("(bres_err %s)" % text, ("opt", "usize"))
            if tk == "opt" and m == "and_then" and len(args) == 1:
                f, ft = self.closure(args[0], t[1], env)
                if not (isinstance(ft, tuple) and ft[0] == "opt"):
                    self.fail("and_then with a closure returning %r" % (ft,))
                return k.fn("(opt_and_then %s %s)" % (f, text), ft)
            if tk == "opt" and m == "map" and args == [("path", ["Deref", "deref"])] and t[1] == "name":
                return k.fn(text, t)            # &String -> &str
            if t == "usize" and m == "checked_sub" and len(args) == 1:
                a, at = self.need_pure(args[0], env, "the argument of checked_sub")
                if not same_type(at, "usize"):
                    self.fail("usize::checked_sub of %r" % (at,))
                return k.fn("(usize_checked_sub %s %s)" % (text, lit(a, at, "usize")), ("opt", "usize"))
            if t in ("u64", "u32") and m == "checked_add" and len(args) == 1:
                def ca(a, at):
                    if at != t:
                        self.fail("checked_add of %r and %r" % (t, at))
                    return k.fn("(checked_add %s %s %s)" % (t[1:], text, a), ("opt", t))
                return self.expr(args[0], env, K(ca, False))
            self.fail("method `.%s(%d args)` on %r is outside the subset" % (m, len(args), t))
        return self.expr(recv, env, K(r, False))

    # ---- for x in n.. { body }
    def for_loop(self, s, env, cont_rest):
        _, pat, lo, body = s
        if self.loop is not None:
            self.fail("nested loops are outside the subset")
        if pat[0] != "pvar" or pat[2]:
            self.fail("loop pattern outside the subset")
        lo_t, lo_ty = self.need_pure(lo, env, "the start of the range")
        if lo_ty != "intlit":
            self.fail("the range must start at a literal")
        # the counter is a u32 here (RangeFrom<u32>: it is passed as `depth: u32`, which the call site checks)
        env2 = dict(env)
        cv = self.bind(env2, pat[1], "u32")
        lname = "src_%s_loop" % self.name
        muts = list(self.muts)
        self.loop = "Ret (%s)" % self.mut_tuple()
        nxt = self.fresh("x")
        self.uses_fuel = True
        marker = "\1LOOPCALL\1"
        end = K(lambda text, t: "do %s <- chk_add p 32 PANIC_DEPTH %s 1;\n%s %s %s" % (nxt, cv, marker, nxt, " ".join(g for _, g, _ in muts)), True)
        btxt = self.scoped(lambda: self.block(body, env2, end))
        self.loop = None
        mg = [g for _, g, _ in muts]
        params = []
        for n, (g, t) in env.items():
            if g in mg or t in ("module", "frame"):
                continue
            if re.search(r"\b%s\b" % re.escape(g), btxt):
                params.append((g, coq_type(t)))
        for g in ("mbase", "instr"):
            if re.search(r"\b%s\b" % g, btxt):
                params.append((g, "Z"))
        pdecl = " ".join("(%s : %s)" % x for x in params)
        pargs = " ".join(x for x, _ in params)
        self.aux.append(
            "Fixpoint %s (p : profile) (fuel : nat) %s (%s : Z) %s {struct fuel}\n  : outcome (%s) :=\n"
            "match fuel with\n| O => OutOfFuel\n| S fuel' =>\n%s\nend.\n" % (
                lname, pdecl, cv, " ".join("(%s : %s)" % (g, coq_type(t)) for _, g, t in muts), self.mut_type(),
                btxt.replace(marker, "%s p fuel' %s" % (lname, pargs))))
        r = self.fresh("x")
        unpack = "let '(%s) := %s in\n" % (self.mut_tuple(), r) if len(muts) > 1 else "let %s := %s in\n" % (self.mut_tuple(), r)
        return "do %s <- %s p fuel %s %s %s;\n%s%s" % (r, lname, pargs, lo_t, " ".join(mg), unpack, cont_rest(env))


def merge_type(a, b):
    if a is None:
        return b
    if b is None:
        return a
    if isinstance(a, tuple) and isinstance(b, tuple) and a[0] == b[0]:
        if a[0] == "opt":
            return ("opt", merge_type(a[1], b[1]))
        if a[0] == "tup" and len(a[1]) == len(b[1]):
            return ("tup", [merge_type(x, y) for x, y in zip(a[1], b[1])])
    if a == "intlit":
        return b
    return a


def same_type(a, b):
    if a == b or a is None or b is None:
        return True
    if a == "intlit":
        return b in ("u64", "u32", "usize")
    if b == "intlit":
        return a in ("u64", "u32", "usize")
    if isinstance(a, tuple) and isinstance(b, tuple) and a[0] == b[0]:
        if a[0] == "tup":
            return len(a[1]) == len(b[1]) and all(same_type(x, y) for x, y in zip(a[1], b[1]))
        if a[0] in ("opt", "vec", "rm"):
            return same_type(a[1], b[1])
        return a == b
    return False


def indent(s):
    out, d = [], 1
    for line in s.split("\n"):
        t = line.strip()
        if not t:
            continue
        if t.startswith("end") or t.startswith("|"):
            dd = d - 1 if t.startswith("end") else d - 1
        else:
            dd = d
        if t.startswith("end"):
            d -= 1
            dd = d
        out.append("  " * max(dd, 0) + t)
        if t.startswith("match "):
            d += 1
    return "\n".join(out)


def compile_fn(name, what, src, head_re, selfty, params, ret, rett, sigs, want_sig, body=None, mut_params=(), outputs=None):
    if body is None:
        sig, body = parse_fn(src, head_re, what)
        if re.sub(r"\s+", " ", sig).strip() != want_sig:
            die("%s: signature changed:\n  expected: %s\n  source has: %s" % (what, want_sig, re.sub(r"\s+", " ", sig).strip()))
    g = Gen(name, what, ret, sigs)
    env = {}
    if selfty in COQREC:
        g.bind(env, "self", ("S", selfty))
    elif selfty is not None:
        env["self"] = ("v_self", ("S", selfty))
    for n, t in params:
        g.bind(env, n, t, mut=(t == "frame" or n in mut_params))
    if selfty == "Symbolizer":
        env["self"] = ("v_self", "symbolizer")
    if outputs:
        g.out = outputs
    if ret == "unit":
        k = K(lambda text, t: g.end_unit(), True)
    else:
        k = K(lambda text, t: g.ret_value(text), True)
    txt = g.block(body, env, k)
    plist = ([("v_self", COQREC[selfty])] if selfty in COQREC else []) + \
        [(env[n][0] if n in env else "v_" + n.strip("\0"), coq_type(t)) for n, t in params if t not in ("module", "frame", "provider")]
    extra = ""
    cb_frame = env.get("frame", ("", ""))[1] == "frame"
    if cb_frame:
        extra = " (mbase instr : Z)"
    head = "Definition src_%s (p : profile)%s %s%s\n  : outcome %s :=\n" % (
        name, " (fuel : nat)" if g.uses_fuel else "", " ".join("(%s : %s)" % x for x in plist), extra,
        rett[4:] if isinstance(rett, str) and rett.startswith("coq:") else (par(coq_type(rett)) if rett != "frame" else "sym_out"))
    if cb_frame:
        txt = "let v_frame := empty_out in\n" + txt
    return "".join(a.replace("\n", "\n") for a in [indent_aux(x) for x in g.aux]) + head + indent(txt) + ".\n"


def indent_aux(a):
    lines = a.split("\n")
    # header (2 lines) + "match fuel with" ... keep the header, indent the rest
    return "\n".join(lines[:2]) + "\n" + indent("\n".join(lines[2:])) + "\n"


T_INL4 = ("tup", ["u32", "u32", "u64", "u32"])
SIGS = {
    ("StackInfoWin", "memory_range"): ("src_win_memory_range p", ("opt", "range"), []),
    ("Function", "get_inlinee_at_depth"): ("src_get_inlinee_at_depth p", ("opt", T_INL4), ["u32", "u64"]),
    ("Function", "get_outermost_sourceloc"): ("src_get_outermost_sourceloc p", ("opt", ("tup", ["u32", "u32", "u64", ("opt", "u32")])), ["u64"]),
    ("Function", "get_innermost_sourceloc"): ("src_get_innermost_sourceloc p", ("opt", ("tup", ["u32", "u32", "u64"])), ["u64"]),
    ("SymbolFile", "find_nearest_public"): ("src_find_nearest_public p", ("opt", ("S", "PublicSymbol")), ["u64"]),
}

# A function that cannot be compiled (source outside the subset, changed signature) is REPORTED (exit status 1: the runner
# records a broken tie) and replaced in the output by a definition that is the hand-written model, marked FALLBACK, so that the
# model driver (C11/Driver.v uses src_fill_symbol and src_finish_function) still builds and the correspondence run with the
# hand-written model goes on; C11/SrcTie.v is then meaningless for that function (and usually no longer compiles).
FALLBACK = {
    "func_memory_range": "Definition src_func_memory_range (p : profile) (v_self : func) : outcome (option range) :=\n"
                         "  Ret (mk_range (fn_addr v_self) (fn_size v_self)).\n",
    "win_memory_range": "Definition src_win_memory_range (p : profile) (v_self : win_rec) : outcome (option range) :=\n"
                        "  Ret (win_range v_self).\n",
    "get_inlinee_at_depth": "Definition src_get_inlinee_at_depth (p : profile) (v_self : func) (v_depth v_addr : Z) : outcome (option (Z * Z * Z * Z)) :=\n"
                            "  do r <- get_inlinee_at_depth (fn_inls v_self) v_depth v_addr;\n"
                            "  Ret (option_map (fun e => (i_cfile e, i_cline e, i_addr e, i_origin e)) r).\n",
    "get_outermost_sourceloc": "Definition src_get_outermost_sourceloc (p : profile) (v_self : func) (v_addr : Z) : outcome (option (Z * Z * Z * option Z)) :=\n"
                               "  do r <- get_outermost_sourceloc v_self v_addr;\n"
                               "  Ret (option_map (fun x : Z * Z * Z * option inl_rec => let '(fid, line, a, org) := x in (fid, line, a, option_map i_origin org)) r).\n",
    "get_innermost_sourceloc": "Definition src_get_innermost_sourceloc (p : profile) (v_self : func) (v_addr : Z) : outcome (option (Z * Z * Z)) :=\n"
                               "  Ret (option_map (fun l => (l_file l, l_line l, l_addr l)) (rm_get (fn_lines v_self) v_addr)).\n",
    "find_nearest_public": "Definition src_find_nearest_public (p : profile) (v_self : symtab) (v_addr : Z) : outcome (option pub_rec) :=\n"
                           "  Ret (find_nearest_public (st_publics v_self) v_addr).\n",
    "fill_symbol": "Definition src_fill_symbol (p : profile) (fuel : nat) (v_self : symtab) (mbase instr : Z) : outcome sym_out :=\n"
                   "  fill_symbol p v_self mbase instr.\n",
    "insert_win_stack_info": "Definition src_insert_win_stack_info (p : profile) (v_stack_win : list (range * win_rec)) (v_info : win_rec)\n"
                             "    : outcome (list (range * win_rec)) :=\n"
                             "  do acc <- win_insert (rev v_stack_win) v_info; Ret (rev acc).\n",
    "symbolizer_fill_symbol": "Definition src_symbolizer_fill_symbol (p : profile) (fuel : nat) (v_module : Z * module) (v_frame : sframe) : outcome (bool * sframe) :=\n"
                              "  match get_symbols v_module with\n"
                              "  | Some st => do o <- src_fill_symbol p fuel st (mod_base v_module) (sf_instr v_frame); Ret (true, sf_apply v_frame o)\n"
                              "  | None => Ret (false, v_frame)\n  end.\n",
    "fill_source_line_info": "Definition src_fill_source_line_info (p : profile) (fuel : nat) (v_frame : sframe) (v_modules : modlist) : outcome sframe :=\n"
                             "  do x <- module_at v_modules (sf_instr v_frame);\n"
                             "  match x with\n"
                             "  | Some m => do r <- src_symbolizer_fill_symbol p fuel m (sf_set_module v_frame (Some m)); Ret (sf_reverse_inlines (snd r))\n"
                             "  | None => Ret v_frame\n  end.\n",
    "finish_function": "Definition src_finish_function (p : profile) (v_functions : list (range * func)) (v_cur : func) (v_lines : list line_rec)\n"
                       "    (v_inlinees : list inl_rec) : outcome (list (range * func)) :=\n"
                       "  do r <- finish_func (mk_fraw (fn_addr v_cur) (fn_size v_cur) (fn_psize v_cur) (fn_name v_cur) v_lines v_inlinees);\n"
                       "  Ret (v_functions ++ match r with Some e => [e] | None => [] end).\n",
}
parts = []


def attempt(name, thunk):
    try:
        parts.append(thunk())
    except Abort as e:
        PROBLEMS.append(str(e))
        parts.append("(* FALLBACK: not compiled from the source (%s) - the hand-written model *)\n%s"
                     % (str(e).replace("*)", "* )").replace("(*", "( *")[:300], FALLBACK[name]))


attempt("func_memory_range", lambda: compile_fn(
    "func_memory_range", "Function::memory_range (types.rs)", ty_src,
    r"impl Function \{\s*pub fn memory_range\(", "Function", [], "opt", ("opt", "range"), SIGS,
    "impl Function { pub fn memory_range(&self) -> Option<Range<u64>>"))
attempt("win_memory_range", lambda: compile_fn(
    "win_memory_range", "StackInfoWin::memory_range (types.rs)", ty_src,
    r"impl StackInfoWin \{\s*pub fn memory_range\(", "StackInfoWin", [], "opt", ("opt", "range"), SIGS,
    "impl StackInfoWin { pub fn memory_range(&self) -> Option<Range<u64>>"))
attempt("get_inlinee_at_depth", lambda: compile_fn(
    "get_inlinee_at_depth", "Function::get_inlinee_at_depth (types.rs)", ty_src,
    r"pub fn get_inlinee_at_depth\(", "Function", [("depth", "u32"), ("addr", "u64")], "opt", SIGS[("Function", "get_inlinee_at_depth")][1], SIGS,
    "pub fn get_inlinee_at_depth(&self, depth: u32, addr: u64) -> Option<(u32, u32, u64, u32)>"))
attempt("get_outermost_sourceloc", lambda: compile_fn(
    "get_outermost_sourceloc", "Function::get_outermost_sourceloc (types.rs)", ty_src,
    r"pub fn get_outermost_sourceloc\(", "Function", [("addr", "u64")], "opt", SIGS[("Function", "get_outermost_sourceloc")][1], SIGS,
    "pub fn get_outermost_sourceloc(&self, addr: u64) -> Option<(u32, u32, u64, Option<u32>)>"))
attempt("get_innermost_sourceloc", lambda: compile_fn(
    "get_innermost_sourceloc", "Function::get_innermost_sourceloc (types.rs)", ty_src,
    r"pub fn get_innermost_sourceloc\(", "Function", [("addr", "u64")], "opt", SIGS[("Function", "get_innermost_sourceloc")][1], SIGS,
    "pub fn get_innermost_sourceloc(&self, addr: u64) -> Option<(u32, u32, u64)>"))
attempt("find_nearest_public", lambda: compile_fn(
    "find_nearest_public", "SymbolFile::find_nearest_public (mod.rs)", mod_src,
    r"pub fn find_nearest_public\(", "SymbolFile", [("addr", "u64")], "opt", SIGS[("SymbolFile", "find_nearest_public")][1], SIGS,
    "pub fn find_nearest_public(&self, addr: u64) -> Option<&PublicSymbol>"))
attempt("fill_symbol", lambda: compile_fn(
    "fill_symbol", "SymbolFile::fill_symbol (mod.rs)", mod_src,
    r"pub fn fill_symbol\(&self, module", "SymbolFile", [("module", "module"), ("frame", "frame")], "unit", "frame", SIGS,
    "pub fn fill_symbol(&self, module: &dyn Module, frame: &mut dyn FrameSymbolizer)"))

# ---- parser.rs: the Line::Function arm of finish_item (the rest of finish_item is pinned by c11_symbolize.py)
FI = "SymbolParser::finish_item, Line::Function arm (parser.rs)"
ARM = "Line::Function(mut cur, lines, mut inlinees) =>"
T_FUNCS = ("vec", ("tup", ["range", ("S", "Function")]))
SIGS[("Function", "memory_range")] = ("src_func_memory_range p", ("opt", "range"), [])


def finish_arm():
    pa_src = read("breakpad-symbols/src/sym_file/parser.rs")
    _, fi_body = fn_source(pa_src, r"fn finish_item\(&mut self, item: Line\) \{", FI)
    fi_norm = re.sub(r"\s+", " ", fi_body)
    if not fi_norm.startswith("{ match item { " + ARM + " {"):
        die("%s: finish_item no longer starts with `match item { %s {`: %s" % (FI, ARM, fi_norm[:120]))
    i0 = fi_body.index("{", fi_body.index("=>"))
    d, j0 = 0, i0
    while True:
        if fi_body[j0] == "{":
            d += 1
        elif fi_body[j0] == "}":
            d -= 1
            if d == 0:
                break
        j0 += 1
    pp = P(tokenize(fi_body[i0:j0 + 1], FI), FI)
    arm_block = pp.block()
    if pp.peek()[0] != "eof":
        pp.fail("trailing source")
    if not re.search(r"functions: Vec<\(Range<u64>, Function\)>,", pa_src):
        die("SymbolParser.functions is no longer Vec<(Range<u64>, Function)>")
    return compile_fn(
        "finish_function", FI, None, None, "SymbolParser",
        [("\0functions", T_FUNCS), ("cur", ("S", "Function")), ("lines", ("vec", ("S", "SourceLine"))), ("inlinees", ("vec", ("S", "Inlinee")))],
        "unit", T_FUNCS, SIGS, None, body=arm_block, mut_params=("\0functions", "cur", "inlinees"), outputs="v_functions")


attempt("finish_function", finish_arm)

# ---- parser.rs: insert_win_stack_info (a fn item nested in parse_more); the warn!(..) statements are logging only
WI = "insert_win_stack_info (parser.rs)"
T_WINS = ("vec", ("tup", ["range", ("S", "StackInfoWin")]))


def win_insert():
    pa_src = read("breakpad-symbols/src/sym_file/parser.rs")
    sig, body = fn_source(pa_src, r"fn insert_win_stack_info\(", WI)
    want = "fn insert_win_stack_info( stack_win: &mut Vec<(Range<u64>, StackInfoWin)>, info: StackInfoWin, )"
    if re.sub(r"\s+", " ", sig).strip() != want:
        die("%s: signature changed:\n  expected: %s\n  source has: %s" % (WI, want, re.sub(r"\s+", " ", sig).strip()))
    body = re.sub(r"warn!\s*\((?:[^()\"]|\"(?:[^\"\\]|\\.)*\"|\((?:[^()])*\))*\)\s*;", "", body)
    pp = P(tokenize(body, WI), WI)
    blk = pp.block()
    if pp.peek()[0] != "eof":
        pp.fail("trailing source")
    return compile_fn("insert_win_stack_info", WI, None, None, "SymbolParser",
                      [("stack_win", T_WINS), ("info", ("S", "StackInfoWin"))], "unit", T_WINS, SIGS, None,
                      body=blk, mut_params=("stack_win",), outputs="v_stack_win")


attempt("insert_win_stack_info", win_insert)

# ---- the Symbolizer level: Symbolizer::fill_symbol (breakpad-symbols/src/lib.rs) and fill_source_line_info (minidump-unwind)
# `frame` is a StackFrame (Prims.sframe: instruction, module, what the FrameSymbolizer callbacks stored), `module` a module of
# the list with its position (Z * Model.module), `self.get_symbols(module).await` what the cache holds for it (Prims.get_symbols:
# the module's symbol table or an error; C12 models how it gets there, c11_symbolizer_cached_frame composes the two),
# `.await` is read sequentially, the generic SymbolProvider is the Symbolizer.
attempt("symbolizer_fill_symbol", lambda: compile_fn(
    "symbolizer_fill_symbol", "Symbolizer::fill_symbol (breakpad-symbols/src/lib.rs)", read("breakpad-symbols/src/lib.rs"),
    r"pub async fn fill_symbol\(", "Symbolizer", [("module", "mmod"), ("frame", "sframe")], "res", "coq:(bool * sframe)", SIGS,
    "pub async fn fill_symbol( &self, module: &(dyn Module + Sync), frame: &mut (dyn FrameSymbolizer + Send), ) -> Result<(), FillSymbolError>",
    mut_params=("frame",), outputs="v_frame"))
attempt("fill_source_line_info", lambda: compile_fn(
    "fill_source_line_info", "fill_source_line_info (minidump-unwind/src/lib.rs)", read("minidump-unwind/src/lib.rs"),
    r"async fn fill_source_line_info<P>\(", None, [("frame", "sframe"), ("modules", "modlist"), ("symbol_provider", "provider")], "unit", "sframe", SIGS,
    "async fn fill_source_line_info<P>( frame: &mut StackFrame, modules: &MinidumpModuleList, symbol_provider: &P, ) where P: SymbolProvider + Sync,",
    mut_params=("frame",), outputs="v_frame"))

out = """(* GENERATED by translate/c11_compile.py from breakpad-symbols/src/sym_file/{types,mod}.rs - do not edit.
   The bodies of Function::{memory_range, get_inlinee_at_depth, get_outermost_sourceloc, get_innermost_sourceloc},
   StackInfoWin::memory_range, SymbolFile::{find_nearest_public, fill_symbol}, the Line::Function arm of
   SymbolParser::finish_item and insert_win_stack_info (parser.rs), Symbolizer::fill_symbol (breakpad-symbols/src/lib.rs) and
   fill_source_line_info (minidump-unwind/src/lib.rs), compiled statement by statement into Gallina over the
   vocabulary of C11/Prims.v.  C11/SrcTie.v proves them equal to the hand-written model C11/Model.v. *)
From RM Require Import Base.Word C08.Model C11.Model C11.Prims.
Open Scope Z_scope.

""" + "\n".join(parts)
os.makedirs(outdir, exist_ok=True)
path = os.path.join(outdir, "C11Src.v")
try:
    same = open(path).read() == out
except OSError:
    same = False
if not same:
    open(path, "w").write(out)
if PROBLEMS:
    sys.stderr.write("".join("c11_compile.py: %s\n" % x for x in PROBLEMS))
    sys.exit(1)
