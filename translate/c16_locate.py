#!/usr/bin/env python3
"""Translator (C16): the structure of HttpSymbolSupplier::locate_symbols.

Reads breakpad-symbols/src/http.rs and regenerates coq/Gen/C16Locate.v:
  * `cascades` — which outcomes of the local lookup (symbol paths + cache) let the lookup go on to the network: TRANSLATED from
    the pattern of `if !matches!(local_result, <pattern>) { return local_result.map(..) }` (`Err(SymbolError::NotFound)` -> only
    NotFound; `Err(_)` -> every error; ...).  C16/Model.v's `locate` is proved equal to the function assembled from it
    (C16/Properties.v c16_locate_is_source), so "only NotFound cascades" is a statement about the source's guard.
  * `server_loop` — what the `for url in &self.urls` loop does with the result of one fetch_symbol_file: TRANSLATED from the
    arms of `match sym { Ok(symbols) => { .. return Ok(..) } Err(e) => { .. } }`: SReturnFirstOk (return at the first Ok, go on
    after any Err); anything else (no return in the Ok arm, a return / break in the Err arm) is emitted as such and the
    equality proof fails, or aborts when the shape is unknown.
  * `after_loop` — the value after the loop (`Err(SymbolError::NotFound)`).
Every statement of the function must be one the translator knows (logging macros skipped); anything else aborts (exit 1).
argv: <repo> <outdir>."""
import os
import re
import sys

repo, outdir = sys.argv[1], sys.argv[2]


def die(msg):
    sys.stderr.write("c16_locate.py: " + msg + "\n")
    sys.exit(1)


def norm(s):
    s = re.sub(r"//[^\n]*", "", s)
    return re.sub(r"\s+", "", s)


def balanced(src, start, open_c, close_c):
    depth = 0
    for i in range(start, len(src)):
        if src[i] == open_c:
            depth += 1
        elif src[i] == close_c:
            depth -= 1
            if depth == 0:
                return i + 1
    die("unbalanced %r" % open_c)


src = open(os.path.join(repo, "breakpad-symbols/src/http.rs")).read()
main = src.split("#[cfg(test)]")[0]
i = main.find("impl SymbolSupplier for HttpSymbolSupplier")
if i < 0:
    die("impl SymbolSupplier for HttpSymbolSupplier not found")
ms = list(re.finditer(r"\basync\s+fn\s+locate_symbols\s*\(", main[i:]))
if len(ms) != 1:
    die("expected exactly one `async fn locate_symbols(` in the impl, found %d" % len(ms))
m = ms[0]
par_end = balanced(main, i + m.end() - 1, "(", ")")
b0 = main.index("{", par_end)
b1 = balanced(main, b0, "{", "}")
sig = norm(main[i + m.start():b0])
if sig != norm("async fn locate_symbols(&self, module: &(dyn Module + Sync),) -> Result<LocateSymbolsResult, SymbolError>"):
    die("locate_symbols: signature changed: " + sig)
body = norm(main[b0 + 1:b1 - 1])

LOG = re.compile(r'(?:trace|debug|warn)!\((?:"(?:[^"\\]|\\.)*"|[^;"])*\);')
out = {}
steps = []


def guard(m):
    pat = m.group(1)
    table = {
        "Err(SymbolError::NotFound)": ["LNotFound"],
        "Err(_)": ["LNotFound", "LParseError", "LLoadError", "LMissing"],
        "Err(SymbolError::NotFound)|Err(SymbolError::ParseError(..))": ["LNotFound", "LParseError"],
        "Err(SymbolError::NotFound|SymbolError::ParseError(..))": ["LNotFound", "LParseError"],
        "Err(SymbolError::NotFound)|Err(SymbolError::LoadError(_))": ["LNotFound", "LLoadError"],
    }
    if pat not in table:
        die("locate_symbols: cascade pattern not recognised: " + pat)
    out["cascades"] = table[pat]
    return "LReturnLocalUnlessCascade"


def loop(m):
    ok_arm, err_arm = m.group(1), m.group(2)
    ok_arm = LOG.sub("", ok_arm)
    err_arm = LOG.sub("", err_arm)
    ret = "returnOk(LocateSymbolsResult{symbols,extra_debug_info,});"
    if ok_arm == ret and err_arm == "":
        out["loop"] = "SReturnFirstOk"
    elif ok_arm == ret and err_arm in ("returnErr(e);", "break;"):
        out["loop"] = "SStopAtFirstAnswer"
    elif "return" not in ok_arm and "break" not in ok_arm and err_arm == "":
        die("locate_symbols: the Ok arm of the server loop does not return: " + ok_arm[:120])
    else:
        die("locate_symbols: arms of the server loop not recognised: Ok => {%s} Err(e) => {%s}" % (ok_arm[:120], err_arm[:120]))
    return "LServers"


def tail(m):
    out["after"] = "ANotFound"
    return "LAfterLoop"


TABLE = [
    (norm("""let mut debug_file = module.debug_file().map(|name| name.into_owned());
        let mut debug_id = module.debug_identifier();
        let missing_debug_info = debug_file.is_none() || debug_id.is_none();
        let extra_debug_info;
        if missing_debug_info {
            extra_debug_info = lookup_debug_info_by_code_info(&self.urls, module).await;
            if let Some(debug_info_result) = &extra_debug_info {
                debug_file = Some(debug_info_result.debug_file.clone());
                debug_id = Some(debug_info_result.debug_identifier);
            }
        } else {
            extra_debug_info = None;
        }"""), "LDebugInfo"),
    (norm("""let lookup_module = SimpleModule::from_basic_info(debug_file, debug_id, Some(module.code_file().into_owned()), module.code_identifier(),);"""), "LModule"),
    (norm("let local_result = self.local.locate_symbols(&lookup_module).await;"), "LLocal"),
    (re.compile(r"if!matches!\(local_result,(.*?)\)\{returnlocal_result\.map\(\|r\|LocateSymbolsResult\{symbols:r\.symbols,extra_debug_info:r\.extra_debug_info\.or\(extra_debug_info\),\}\);\}"), guard),
    (re.compile(r"forurlin&self\.urls\{letsym=fetch_symbol_file\(&self\.client,url,&lookup_module,&self\.cache,&self\.tmp\)\.await;matchsym\{Ok\(symbols\)=>\{(.*?)\}Err\(e\)=>\{(.*?)\}\}\}"), loop),
    (re.compile(r"Err\(SymbolError::NotFound\)$"), tail),
]

# strip logging macros inside the debug-info block before matching (it contains a debug!)
pos = 0
work = body
# remove logging macros that stand as statements at the top level or inside the pinned blocks
work = LOG.sub("", work)
while pos < len(work):
    for pat, tok in TABLE:
        if isinstance(pat, re.Pattern):
            mm = pat.match(work, pos)
            if mm:
                steps.append(tok(mm))
                pos = mm.end()
                break
        elif work.startswith(pat, pos):
            steps.append(tok)
            pos += len(pat)
            break
    else:
        die("locate_symbols: statement not recognised (the model was not written for it): " + work[pos:pos + 160])

if set(out) != {"cascades", "loop", "after"}:
    die("locate_symbols: guard / server loop / final value not all found: %s" % sorted(out))

ALL = ["LOk", "LNotFound", "LParseError", "LLoadError", "LMissing"]
text = """(* GENERATED by translate/c16_locate.py from breakpad-symbols/src/http.rs (HttpSymbolSupplier::locate_symbols) — do not edit *)
From Coq Require Import List.
Import ListNotations.

(* outcome of the local lookup `self.local.locate_symbols(..)` (symbol paths, then the cache) *)
Inductive local_res := LOk | LNotFound | LParseError | LLoadError | LMissing.
(* `if !matches!(local_result, <pattern>) { return local_result.map(..) }`: the outcomes matched by <pattern> go on to the network *)
Definition cascades (r : local_res) : bool :=
  match r with
%s
  end.
(* what the `for url in &self.urls` loop does with one fetch_symbol_file result *)
Inductive server_loop_kind := SReturnFirstOk | SStopAtFirstAnswer.
Definition server_loop : server_loop_kind := %s.
(* the value after the loop *)
Inductive after_kind := ANotFound.
Definition after_loop : after_kind := %s.
Inductive lstep := LDebugInfo | LModule | LLocal | LReturnLocalUnlessCascade | LServers | LAfterLoop.
Definition locate_steps : list lstep := [%s].
""" % ("\n".join("  | %s => %s" % (r, "true" if r in out["cascades"] else "false") for r in ALL), out["loop"], out["after"], "; ".join(steps))

os.makedirs(outdir, exist_ok=True)
path = os.path.join(outdir, "C16Locate.v")
old = open(path).read() if os.path.exists(path) else None
if old != text:
    open(path, "w").write(text)
