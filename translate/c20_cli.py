#!/usr/bin/env python3
"""c20_cli.py <repo> <outdir>  ->  <outdir>/C20Cli.v

Regenerates the command-line grammar of minidump-stackwalk from the clap derive declaration `struct Cli` of
minidump-stackwalk/src/main.rs: one entry per field (field name, --long name, kind = flag / single value / repeatable
value / positional / repeatable positional, value parser = any string / non-empty path / u64 / an enumerated list of
possible values together with its ignore_case setting), the members of the ArgGroup "output-format", the default
values, and the facts about main_result the model of the parser is written against (Cli::parse() is the first statement,
i.e. clap's usage errors, --help and --version end the process before the log file is created; the `--features` match
with its unimplemented!() default arm comes from translate/c20_wiring.py).  C20/Clap.v interprets the table with a
model of clap's parser; C20/Properties.v proves, over the REGENERATED table, that every value the parser lets through
has a match arm (c20_features_value_never_unimplemented) and a log level (c20_verbose_value_never_unwraps).
Anything the translator does not recognise (a new attribute key, a short option, an alias, a new field type, a value
parser of another shape) aborts with status 2: a broken obligation; the search for a failing input goes on."""
import os
import re
import sys


def die(msg):
    sys.stderr.write("c20_cli.py: %s\n" % msg)
    sys.exit(2)


def split_top(s, sep=","):
    """split at top-level separators (outside (), [], "", ||)"""
    out, depth, cur, i, instr = [], 0, "", 0, False
    while i < len(s):
        ch = s[i]
        if instr:
            cur += ch
            if ch == "\\":
                cur += s[i + 1]
                i += 1
            elif ch == '"':
                instr = False
        elif ch == '"':
            instr = True
            cur += ch
        elif ch in "([{":
            depth += 1
            cur += ch
        elif ch in ")]}":
            depth -= 1
            cur += ch
        elif ch == sep and depth == 0:
            out.append(cur.strip())
            cur = ""
        else:
            cur += ch
        i += 1
    if cur.strip():
        out.append(cur.strip())
    return out


def strlist(s):
    """["a", "b"] -> ['a', 'b']"""
    m = re.fullmatch(r"\[\s*((?:\"[^\"\\]*\"\s*,?\s*)*)\]", s.strip())
    if not m:
        die("not a list of string literals: %s" % s)
    return re.findall(r"\"([^\"\\]*)\"", m.group(1))


KNOWN_KEYS = {"long", "default_value", "default_value_t", "value_parser", "verbatim_doc_comment", "hide", "ignore_case"}
TYPES = {
    "bool": ("KFlag", "VString"),
    "Option<PathBuf>": ("KOpt", "VPath"),
    "Vec<PathBuf>": ("KMulti", "VPath"),
    "Vec<String>": ("KMulti", "VString"),
    "u64": ("KOpt", "VU64"),
    "PathBuf": ("KOpt", "VPath"),
    "String": ("KOpt", "VString"),
    "LevelFilter": ("KOpt", None),
}


def main():
    repo, outdir = sys.argv[1], sys.argv[2]
    full = open(os.path.join(repo, "minidump-stackwalk", "src", "main.rs")).read()
    m = re.search(r"^#\[derive\(Parser\)\]\n((?:#\[[^\n]*\n|(?:#\[clap\(group\(.*?\)\)\)\]\n))*?)struct Cli \{\n(.*?)\n\}\n", full, re.M | re.S)
    if not m:
        die("#[derive(Parser)] struct Cli not found")
    if len(re.findall(r"derive\(Parser\)", full)) != 1 or re.search(r"\bSubcommand\b|#\[(command|clap)\(subcommand|\[arg\(.*\bsubcommand", full):
        die("more than one clap parser / a subcommand: the model knows one flat command")
    head, body = m.group(1), m.group(2)
    nh = re.sub(r"\s+", "", head)
    # ---- struct-level attributes
    attrs = re.findall(r"#\[clap\((.*?)\)\](?=#\[|$)", nh)
    seen = set()
    group = None
    for a in attrs:
        if a == "version,about,long_about=None":
            seen.add("version")            # --version / -V exist; --help / -h always do
        elif a == "propagate_version=true" or a == "verbatim_doc_comment" or a.startswith("override_usage("):
            pass
        elif a.startswith("group("):
            g = re.fullmatch(r'group\(ArgGroup::new\("([\w-]+)"\)\.args\(&\[((?:"\w+",?)*)\]\)\)', a)
            if not g or group is not None:
                die("unrecognised ArgGroup declaration (a .multiple / .required / second group changes the grammar): %s" % a)
            group = (g.group(1), re.findall(r'"(\w+)"', g.group(2)))
        else:
            die("unrecognised struct-level clap attribute: %s" % a)
    if "".join("#[clap(%s)]" % a for a in attrs) != nh:
        die("unrecognised attribute in front of struct Cli: %s" % head)
    if "version" not in seen:
        die("#[clap(version, ..)] not found: the model has --version / -V")
    if group is None:
        die("the ArgGroup of the output formats was not found")
    for w in ("infer_long_args", "infer_subcommands", "args_override_self", "allow_hyphen_values", "trailing_var_arg",
              "allow_negative_numbers", "disable_help_flag", "disable_version_flag", "arg_required_else_help",
              "ignore_errors", "dont_delimit_trailing_values", "allow_missing_positional", "multicall", "no_binary_name"):
        if w in full:
            die("%s changes clap's parser; the model does not know it" % w)

    # ---- fields
    fields = []
    cur_attrs = []
    for raw in body.split("\n"):
        line = raw.strip()
        if not line or line.startswith("///"):
            continue
        a = re.fullmatch(r"#\[arg\((.*)\)\]", line)
        if a:
            cur_attrs.extend(split_top(a.group(1)))
            continue
        f = re.fullmatch(r"(\w+): ([\w<>]+),", line)
        if not f:
            die("unrecognised line in struct Cli: %s" % line)
        fields.append((f.group(1), f.group(2), cur_attrs))
        cur_attrs = []
    if cur_attrs:
        die("attributes without a field at the end of struct Cli")

    entries, defaults = [], []
    for name, ty, at in fields:
        keys = {}
        for item in at:
            k, _, v = item.partition("=")
            k, v = k.strip(), v.strip()
            if k not in KNOWN_KEYS:
                die("field %s: unrecognised #[arg(..)] key `%s` (short options, aliases, env, num_args, action, requires, "
                    "conflicts_with .. are outside the model)" % (name, k))
            if k in keys:
                die("field %s: #[arg(%s)] given twice" % (name, k))
            keys[k] = v
        if ty not in TYPES:
            die("field %s: unrecognised type %s" % (name, ty))
        kind, vp = TYPES[ty]
        if "long" in keys and keys["long"] != "":
            die("field %s: a renamed long option (%s)" % (name, keys["long"]))
        ic = "false"
        if "ignore_case" in keys:
            if keys["ignore_case"] not in ("true", "false"):
                die("field %s: ignore_case = %s" % (name, keys["ignore_case"]))
            ic = keys["ignore_case"]
        if "value_parser" in keys:
            v = keys["value_parser"]
            lv = re.fullmatch(r"PossibleValuesParser::new\((\[.*\])\)\.map\(\|v\| LevelFilter::from_str\(&v\)\.unwrap\(\)\)", v)
            if ty == "String" and v.startswith("["):
                vp = "(VPossible %s %s)" % (coq_list(strlist(v)), ic)
            elif ty == "LevelFilter" and lv:
                vp = "(VPossible %s %s)" % (coq_list(strlist(lv.group(1))), ic)
            else:
                die("field %s: unrecognised value_parser %s" % (name, v))
        elif ic == "true":
            die("field %s: ignore_case without an enumerated value parser" % name)
        if vp is None:
            die("field %s: a %s without the PossibleValuesParser .. LevelFilter::from_str value parser" % (name, ty))
        if "long" in keys:
            long_name = name.replace("_", "-")
            if ty == "PathBuf" or ty == "String" and "default_value" not in keys:
                die("field %s: a required option; the model has none" % name)
        else:
            long_name = ""
            if ty == "PathBuf":
                kind = "KPos"
            elif ty == "Vec<PathBuf>":
                kind = "KPosMulti"
            else:
                die("field %s: a positional argument of type %s" % (name, ty))
            if set(keys) - {"verbatim_doc_comment"}:
                die("field %s: attributes on a positional argument: %r" % (name, sorted(keys)))
        if "default_value" in keys:
            d = re.fullmatch(r"\"([^\"\\]*)\"", keys["default_value"])
            if not d:
                die("field %s: default_value %s" % (name, keys["default_value"]))
            defaults.append((name, d.group(1)))
        if "default_value_t" in keys:
            if not re.fullmatch(r"\d+", keys["default_value_t"]):
                die("field %s: default_value_t %s" % (name, keys["default_value_t"]))
            defaults.append((name, keys["default_value_t"]))
        if kind == "KFlag" and (set(keys) - {"long", "hide", "verbatim_doc_comment"}):
            die("field %s: a flag with %r" % (name, sorted(keys)))
        entries.append((name, long_name, kind, vp))
    pos = [e for e in entries if e[2] in ("KPos", "KPosMulti")]
    if [e[2] for e in pos] != ["KPos", "KPosMulti"]:
        die("expected one required positional followed by one repeatable positional, found %r" % [(e[0], e[2]) for e in pos])
    for g in group[1]:
        if g not in [e[0] for e in entries]:
            die("ArgGroup member %s is not a field" % g)
    for e in entries:
        for x in e[:2]:
            if '"' in x or "\\" in x:
                die("unexpected character in %r" % x)

    # ---- main_result: clap runs first
    mr = re.search(r"^async fn main_result\(\) -> std::io::Result<\(\)> \{\n\s*let cli = Cli::parse\(\);\n", full, re.M)
    if not mr:
        die("main_result does not start with `let cli = Cli::parse();` (usage errors, --help and --version must end the process "
            "before any sink is opened)")
    if len(re.findall(r"\bCli::(parse|try_parse|parse_from|try_parse_from)\b", full)) != 1:
        die("the command line is parsed more than once / in another way")

    # ---- the consumer of the --features value (the same shape translate/c20_wiring.py pins)
    nb = re.sub(r"\s+", "", re.sub(r"//[^\n]*", "", full[mr.start():]))
    mo = re.search(r"letmutoptions=match&\*cli\.features\{(.*?)_=>unimplemented!\(\"unknown--featuresvalue\"\),\};", nb)
    if not mo:
        die("the --features match has an unrecognised shape")
    arms = re.findall(r"\"([\w-]+)\"=>ProcessorOptions::(\w+)\(\),", mo.group(1))
    if "".join('"%s"=>ProcessorOptions::%s(),' % a for a in arms) != mo.group(1):
        die("unrecognised arm in the --features match (a guard, a binding, a non-literal pattern): %s" % mo.group(1))
    if len(re.findall(r"cli\.features\b", nb)) != 1:
        die("cli.features is used in more than one place")
    if len(re.findall(r"cli\.verbose\b", nb)) != 2:
        die("cli.verbose is used in an unrecognised way")

    out = "(* generated by translate/c20_cli.py from `struct Cli` of minidump-stackwalk/src/main.rs — do not edit *)\n" \
          "From Coq Require Import List.\nImport ListNotations.\nFrom RM Require Import C20.ClapSpec.\nLocal Open Scope str_scope.\n" \
          "Definition CLI_ARGS : list arg_spec := [\n%s\n].\n" \
          "Definition CLI_GROUP : list str := %s.   (* ArgGroup \"%s\": at most one member *)\n" \
          "Definition CLI_DEFAULTS : list (str * str) := [%s].\n" \
          "Definition CLI_FEATURE_ARMS : list (str * str) := [%s].   (* match &*cli.features { .. , _ => unimplemented!() } *)\n" \
          "Definition CLI_PARSE_FIRST : bool := true.   (* `let cli = Cli::parse();` is the first statement of main_result *)\n" % (
              ";\n".join('  {| a_field := "%s"; a_long := "%s"; a_kind := %s; a_vp := %s |}' % e for e in entries),
              coq_list(group[1]), group[0], "; ".join('("%s", "%s")' % d for d in defaults), "; ".join('("%s", "%s")' % a for a in arms))
    path = os.path.join(outdir, "C20Cli.v")
    os.makedirs(outdir, exist_ok=True)
    try:
        if open(path).read() == out:
            return
    except OSError:
        pass
    with open(path, "w") as f:
        f.write(out)


def coq_list(xs):
    for x in xs:
        if '"' in x or "\\" in x:
            die("unexpected character in %r" % x)
    return "[" + "; ".join('"%s"' % x for x in xs) + "]"


main()
