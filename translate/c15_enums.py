#!/usr/bin/env python3
"""Translator: enumeration-valued strings of the JSON report -> coq/Gen/C15Enums.v
  code side: FrameTrust::as_str, Os::long_name, Display for Cpu, Display for MemoryAccessType (print_json lower-cases
             it), CrashInconsistency variants under serde(rename_all = "snake_case")
  doc side:  the value sets json-schema.md lists for trust, os, cpu_arch, access_type, crash_inconsistencies
argv: <repo> <outdir>.  Aborts loudly on anything it does not recognise."""
import os, re, sys

repo, outdir = sys.argv[1], sys.argv[2]


def die(msg):
    sys.stderr.write("c15_enums.py: " + msg + "\n")
    sys.exit(1)


def rd(p):
    return open(os.path.join(repo, p)).read()


def enum_variants(src, name):
    m = re.search(r"pub enum %s\s*\{(.*?)\n\}" % name, src, re.S)
    if not m:
        die("enum %s not found" % name)
    body = re.sub(r"//[^\n]*", "", m.group(1))
    vs = [re.sub(r"\(.*\)", "", v).strip() for v in body.split(",") if v.strip()]
    for v in vs:
        if not re.match(r"^[A-Za-z0-9_]+$", v):
            die("enum %s: unrecognised variant %r" % (name, v))
    return vs


def arms(body, pat):
    return dict(re.findall(pat, body))


unw = rd("minidump-unwind/src/lib.rs")
si = rd("minidump/src/system_info.rs")
op = rd("minidump-processor/src/op_analysis.rs")
ps = rd("minidump-processor/src/process_state.rs")
doc = rd("minidump-processor/json-schema.md")

# FrameTrust::as_str
m = re.search(r"pub fn as_str\(&self\) -> &'static str \{\s*match \*self \{(.*?)\}\s*\}", unw, re.S)
if not m:
    die("FrameTrust::as_str not found")
tmap = arms(m.group(1), r"FrameTrust::(\w+)\s*=>\s*\"([^\"]*)\"")
tvars = enum_variants(unw, "FrameTrust")
if set(tmap) != set(tvars):
    die("FrameTrust::as_str arms %s do not cover variants %s" % (sorted(tmap), tvars))
trust = [tmap[v] for v in tvars]

# Os::long_name (the Unknown arm is formatted, handled by the model)
m = re.search(r"pub fn long_name\(&self\) -> Cow<'_, str> \{\s*match \*self \{(.*?)\n        \}", si, re.S)
if not m:
    die("Os::long_name not found")
omap = arms(m.group(1), r"Os::(\w+)\s*=>\s*Cow::Borrowed\(\"([^\"]*)\"\)")
ovars = [v for v in enum_variants(si, "Os") if v != "Unknown"]
if set(omap) != set(ovars):
    die("Os::long_name arms %s do not cover %s" % (sorted(omap), ovars))
if not re.search(r"Os::Unknown\(val\)\s*=>\s*Cow::Owned\(format!\(\"0x\{val:#08x\}\"\)\)", m.group(1)):
    die("Os::long_name: the Unknown arm is not the recognised format!(\"0x{val:#08x}\")")
osn = [omap[v] for v in ovars]

# Display for Cpu
m = re.search(r"impl fmt::Display for Cpu \{.*?match \*self \{(.*?)\n            \}", si, re.S)
if not m:
    die("Display for Cpu not found")
cmap = arms(m.group(1), r"Cpu::(\w+)(?:\(_\))?\s*=>\s*\"([^\"]*)\"")
cvars = enum_variants(si, "Cpu")
if set(cmap) != set(cvars):
    die("Display for Cpu arms %s do not cover %s" % (sorted(cmap), cvars))
cpu = [cmap[v] for v in cvars]

# Display for MemoryAccessType, lower-cased by print_json
m = re.search(r"impl std::fmt::Display for MemoryAccessType \{.*?match self \{(.*?)\n        \}", op, re.S)
if not m:
    die("Display for MemoryAccessType not found")
amap = arms(m.group(1), r"Self::(\w+)\s*=>\s*f\.write_str\(\"([^\"]*)\"\)")
avars = enum_variants(op, "MemoryAccessType")
if avars != ["Read", "Write", "ReadWrite", "Underivable"] or set(amap) != set(avars):
    die("MemoryAccessType: unexpected variants / arms %s %s" % (avars, sorted(amap)))
if 'map["access_type"] = access.access_type.to_string().to_lowercase().into();' not in ps:
    die("print_json no longer derives access_type from to_string().to_lowercase()")
if not re.search(r"pub fn is_read_or_write\(&self\) -> bool \{\s*!matches!\(self, Self::Underivable\)\s*\}", op):
    die("MemoryAccessType::is_read_or_write is not `!matches!(self, Self::Underivable)`")
acc = [amap[v].lower() for v in avars]
for a in acc:
    if not a.isascii():
        die("non-ASCII access type name (to_lowercase not modelled)")

# CrashInconsistency, serde snake_case
m = re.search(r"#\[serde\(rename_all = \"snake_case\"\)\]\s*pub enum CrashInconsistency", ps)
if not m:
    die("CrashInconsistency is not serde(rename_all = \"snake_case\")")
ivars = enum_variants(ps, "CrashInconsistency")
inc = [re.sub(r"(?<!^)([A-Z])", r"_\1", v).lower() for v in ivars]


# ---- documentation side
def doc_set(start, end, what):
    i = doc.find(start)
    if i < 0:
        die("json-schema.md: %s not found" % what)
    j = doc.find(end, i)
    if j < 0:
        die("json-schema.md: end of %s not found" % what)
    seg = doc[i + len(start):j]
    seg = re.sub(r"//[^\n]*", "", seg)
    vals = re.findall(r"\"([^\"]*)\"", seg)
    if not vals:
        die("json-schema.md: no values for %s" % what)
    return vals


d_trust = doc_set('"trust": ', "// The values the general purpose", "trust")
d_os = doc_set('"os": ', "<hexstring>", "os")
d_cpu = doc_set('"cpu_arch": ', "// A string describing the cpu", "cpu_arch")
d_acc = doc_set('"access_type": ', "\n", "access_type")
d_inc = doc_set('"crash_inconsistencies": [', "],", "crash_inconsistencies")


def coqstr(s):
    return "[" + "; ".join(str(ord(c)) for c in s) + "]"


def coqlist(name, vals, comment):
    return "(* %s *)\nDefinition %s : list (list Z) :=\n  [%s].\n" % (
        comment, name, ";\n   ".join("%s (* %s *)" % (coqstr(v), v.replace("*)", "* )")) for v in vals))


out = "(* GENERATED by translate/c15_enums.py from minidump-unwind/src/lib.rs, minidump/src/system_info.rs,\n" \
      "   minidump-processor/src/{op_analysis,process_state}.rs and minidump-processor/json-schema.md — do not edit *)\n" \
      "From Coq Require Import ZArith List.\nImport ListNotations.\nOpen Scope Z_scope.\n\n"
out += coqlist("TRUST_NAMES", trust, "FrameTrust::as_str in variant order " + " ".join(tvars))
out += coqlist("OS_NAMES", osn, "Os::long_name in variant order " + " ".join(ovars))
out += coqlist("CPU_NAMES", cpu, "Display for Cpu in variant order " + " ".join(cvars))
out += coqlist("ACCESS_NAMES", acc, "Display for MemoryAccessType, lower-cased, in variant order " + " ".join(avars))
out += coqlist("INCONSISTENCY_NAMES", inc, "CrashInconsistency (serde snake_case) in variant order")
out += coqlist("DOC_TRUST", d_trust, "json-schema.md: trust")
out += coqlist("DOC_OS", d_os, "json-schema.md: system_info.os (or a <hexstring>)")
out += coqlist("DOC_CPU_ARCH", d_cpu, "json-schema.md: system_info.cpu_arch")
out += coqlist("DOC_ACCESS_TYPE", d_acc, "json-schema.md: memory_accesses[].access_type")
out += coqlist("DOC_INCONSISTENCIES", d_inc, "json-schema.md: crash_inconsistencies")
path = os.path.join(outdir, "C15Enums.v")
os.makedirs(outdir, exist_ok=True)
try:
    if open(path).read() == out:
        sys.exit(0)
except OSError:
    pass
open(path, "w").write(out)
