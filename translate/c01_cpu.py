#!/usr/bin/env python3
"""Translator (C01): which stack-word width MinidumpThread::print uses for which processor_architecture.
   minidump-common/src/format.rs     enum ProcessorArchitecture            -> arch_values
   minidump/src/system_info.rs       Cpu::from_processor_architecture      -> cpu_of_arch_arms (+ the default arm)
                                     Cpu::pointer_width                    -> pointer_width_arms
                                     PointerWidth::size_in_bytes           -> size_in_bytes_arms
   minidump/src/minidump.rs          MinidumpThread::print                 -> print_chunk_default (the `unwrap_or(N)`),
                                                                              print_array_arms (pointer width -> length of the
                                                                              array `chunk.try_into().unwrap()` must fill),
                                                                              print_chunk_source (the expression chunks are cut by)
-> coq/Gen/C01Cpu.v.  argv: <repo> <outdir>.  Aborts loudly on anything it does not recognise."""
import os, re, sys

repo, outdir = sys.argv[1], sys.argv[2]


def die(msg):
    sys.stderr.write("c01_cpu.py: " + msg + "\n")
    sys.exit(1)


def strip_comments(s):
    return re.sub(r"//[^\n]*", "", s)


def body_of(src, header_re, what):
    """text between the braces that follow the first match of header_re"""
    m = re.search(header_re, src)
    if not m:
        die(what + " not found")
    i = src.index("{", m.end() - 1)
    depth, j = 0, i
    while j < len(src):
        if src[j] == "{":
            depth += 1
        elif src[j] == "}":
            depth -= 1
            if depth == 0:
                return src[i + 1:j]
        j += 1
    die(what + ": unbalanced braces")


fmt = strip_comments(open(os.path.join(repo, "minidump-common/src/format.rs")).read())
si = strip_comments(open(os.path.join(repo, "minidump/src/system_info.rs")).read())
md = strip_comments(open(os.path.join(repo, "minidump/src/minidump.rs")).read())

# ---- enum ProcessorArchitecture
eb = body_of(fmt, r"pub enum ProcessorArchitecture\s*\{", "enum ProcessorArchitecture")
arch = {}
for line in eb.split(","):
    line = re.sub(r"#\[[^\]]*\]", "", line).strip()
    if not line:
        continue
    m = re.fullmatch(r"(PROCESSOR_ARCHITECTURE_[A-Z0-9_]+)\s*=\s*(0x[0-9a-fA-F_]+|[0-9_]+)", line)
    if not m:
        die("unrecognised ProcessorArchitecture variant: %r" % line)
    arch[m.group(1)] = int(m.group(2).replace("_", ""), 0)
if len(arch) < 10:
    die("too few ProcessorArchitecture variants")
for v in arch.values():
    if not 0 <= v < 65536:
        die("ProcessorArchitecture value outside u16")

# ---- Cpu::from_processor_architecture
fb = body_of(si, r"pub fn from_processor_architecture\(arch: u16\) -> Cpu\s*\{", "Cpu::from_processor_architecture")
m = re.fullmatch(r"\s*match md::ProcessorArchitecture::from_u16\(arch\)\s*\{(.*)\}\s*", fb, re.S)
if not m:
    die("from_processor_architecture is not a single `match md::ProcessorArchitecture::from_u16(arch)`")
arms = m.group(1)
arms = re.sub(r"=>\s*\{\s*(Cpu::\w+(?:\(arch\))?)\s*\}", r"=> \1,", arms)
cpu_arms, default_seen = [], False
for a in [x.strip() for x in arms.split(",") if x.strip()]:
    m = re.fullmatch(r"(.+?)=>\s*Cpu::(\w+)(\(arch\))?", a, re.S)
    if not m:
        die("unrecognised arm in from_processor_architecture: %r" % a)
    pat, cpu, witharg = m.group(1).strip(), m.group(2), m.group(3)
    if pat == "_":
        if cpu != "Unknown" or not witharg:
            die("the default arm of from_processor_architecture is not Cpu::Unknown(arch)")
        default_seen = True
        continue
    if default_seen:
        die("arm after the default arm")
    if witharg:
        die("only the default arm may carry (arch)")
    for alt in [x.strip() for x in pat.split("|")]:
        mm = re.fullmatch(r"Some\((PROCESSOR_ARCHITECTURE_[A-Z0-9_]+)\)", alt)
        if not mm or mm.group(1) not in arch:
            die("unrecognised pattern in from_processor_architecture: %r" % alt)
        cpu_arms.append((arch[mm.group(1)], cpu))
if not default_seen:
    die("from_processor_architecture has no default arm")
if len(set(v for v, _ in cpu_arms)) != len(cpu_arms):
    die("duplicate architecture in from_processor_architecture")

# ---- Cpu::pointer_width
pb = body_of(si, r"pub fn pointer_width\(&self\) -> PointerWidth\s*\{", "Cpu::pointer_width")
m = re.fullmatch(r"\s*match self\s*\{(.*)\}\s*", pb, re.S)
if not m:
    die("pointer_width is not a single `match self`")
pw_arms = []
for a in [x.strip() for x in m.group(1).split(",") if x.strip()]:
    mm = re.fullmatch(r"(.+?)=>\s*PointerWidth::(Bits32|Bits64|Unknown)", a, re.S)
    if not mm:
        die("unrecognised arm in pointer_width: %r" % a)
    for alt in [x.strip() for x in mm.group(1).split("|")]:
        m2 = re.fullmatch(r"Cpu::(\w+)(\(_\))?", alt)
        if not m2:
            die("unrecognised pattern in pointer_width: %r" % alt)
        pw_arms.append((m2.group(1), mm.group(2)))
cpus = sorted(set(c for _, c in cpu_arms) | {"Unknown"})
if sorted(c for c, _ in pw_arms) != cpus:
    die("pointer_width does not list exactly the Cpu variants from_processor_architecture produces: %r vs %r" % (sorted(c for c, _ in pw_arms), cpus))

# ---- PointerWidth::size_in_bytes
sb = body_of(si, r"pub fn size_in_bytes\(self\) -> Option<u8>\s*\{", "PointerWidth::size_in_bytes")
m = re.fullmatch(r"\s*match self\s*\{(.*)\}\s*", sb, re.S)
if not m:
    die("size_in_bytes is not a single `match self`")
sz_arms = []
for a in [x.strip() for x in m.group(1).split(",") if x.strip()]:
    mm = re.fullmatch(r"Self::(Bits32|Bits64|Unknown)\s*=>\s*(None|Some\((\d+)\))", a)
    if not mm:
        die("unrecognised arm in size_in_bytes: %r" % a)
    sz_arms.append((mm.group(1), None if mm.group(2) == "None" else int(mm.group(3))))
if sorted(w for w, _ in sz_arms) != ["Bits32", "Bits64", "Unknown"]:
    die("size_in_bytes does not list the three pointer widths exactly once")

# ---- MinidumpThread::print: the stack-word loop
tb = body_of(md, r"impl(?:<[^>]*>)?\s+MinidumpThread<[^>]*>\s*\{", "impl MinidumpThread")
pbody = body_of(tb, r"pub fn print<T: Write>\(", "MinidumpThread::print")
m = re.search(r"let pointer_width = system\.map_or\(PointerWidth::(\w+), \|info\| info\.cpu\.pointer_width\(\)\);", pbody)
if not m:
    die("MinidumpThread::print: `let pointer_width = system.map_or(PointerWidth::.., |info| info.cpu.pointer_width())` not found")
no_system = m.group(1)
m = re.search(r"let chunk_size: usize = (\w+)\.size_in_bytes\(\)\.unwrap_or\((\d+)\)\.into\(\);", pbody)
if not m:
    die("MinidumpThread::print: `let chunk_size: usize = <w>.size_in_bytes().unwrap_or(N).into()` not found")
chunk_source, chunk_default = m.group(1), int(m.group(2))
if not re.search(r"for chunk in stack\.bytes\(\)\.chunks_exact\(chunk_size\)", pbody):
    die("MinidumpThread::print: `for chunk in stack.bytes().chunks_exact(chunk_size)` not found")
lb = body_of(pbody, r"for chunk in stack\.bytes\(\)\.chunks_exact\(chunk_size\)\s*\{", "the stack-word loop")
mb = body_of(lb, r"match pointer_width\s*\{", "match pointer_width in the stack-word loop")
arr_arms = []
pos = 0
for mm in re.finditer(r"((?:PointerWidth::\w+\s*\|?\s*)+)=>\s*\{", mb):
    widths = re.findall(r"PointerWidth::(\w+)", mm.group(1))
    arm = body_of(mb[mm.start():], r"=>\s*\{", "an arm of match pointer_width")
    conv = set(re.findall(r"\b(u\d+)::from_(?:le|be)_bytes\(chunk\.try_into\(\)\.unwrap\(\)\)", arm))
    if len(conv) != 1:
        die("an arm of match pointer_width does not convert the chunk with exactly one uN::from_{le,be}_bytes(chunk.try_into().unwrap()): %r" % sorted(conv))
    bits = int(conv.pop()[1:])
    if bits % 8:
        die("odd integer type in the stack-word loop")
    for w in widths:
        arr_arms.append((w, bits // 8))
if sorted(w for w, _ in arr_arms) != ["Bits32", "Bits64", "Unknown"]:
    die("match pointer_width in the stack-word loop does not list the three pointer widths exactly once: %r" % arr_arms)
if not re.search(r"offset \+= chunk_size;", lb):
    die("`offset += chunk_size;` not found in the stack-word loop")

W = {"Bits32": "GBits32", "Bits64": "GBits64", "Unknown": "GUnknown"}
out = []
out.append("(* GENERATED by translate/c01_cpu.py from minidump-common/src/format.rs, minidump/src/system_info.rs and minidump/src/minidump.rs - do not edit *)")
out.append("From Coq Require Import ZArith List String.")
out.append("Import ListNotations.")
out.append("Open Scope Z_scope.")
out.append("Open Scope string_scope.")
out.append("Inductive gwidth := GBits32 | GBits64 | GUnknown.")
out.append("(* enum ProcessorArchitecture *)")
out.append("Definition arch_values : list (string * Z) := [%s]." % "; ".join('("%s", %d)' % (k, v) for k, v in arch.items()))
out.append("(* Cpu::from_processor_architecture: architecture value -> Cpu variant; every other u16 is Cpu::Unknown(arch) *)")
out.append("Definition cpu_of_arch_arms : list (Z * string) := [%s]." % "; ".join('(%d, "%s")' % (v, c) for v, c in cpu_arms))
out.append('Definition cpu_default : string := "Unknown".')
out.append("(* Cpu::pointer_width *)")
out.append("Definition pointer_width_arms : list (string * gwidth) := [%s]." % "; ".join('("%s", %s)' % (c, W[w]) for c, w in pw_arms))
out.append("(* PointerWidth::size_in_bytes *)")
out.append("Definition size_in_bytes_arms : list (gwidth * option Z) := [%s]." % "; ".join("(%s, %s)" % (W[w], "None" if s is None else "Some %d" % s) for w, s in sz_arms))
out.append("(* MinidumpThread::print: pointer width without a system info; the expression whose size_in_bytes() cuts the chunks; unwrap_or(N); length of the array each arm fills from a chunk *)")
out.append("Definition print_no_system_width : gwidth := %s." % W[no_system])
out.append('Definition print_chunk_source : string := "%s".' % chunk_source)
out.append("Definition print_chunk_default : Z := %d." % chunk_default)
out.append("Definition print_array_arms : list (gwidth * Z) := [%s]." % "; ".join("(%s, %d)" % (W[w], n) for w, n in arr_arms))
text = "\n".join(out) + "\n"
path = os.path.join(outdir, "C01Cpu.v")
if not os.path.exists(path) or open(path).read() != text:
    with open(path, "w") as f:
        f.write(text)
