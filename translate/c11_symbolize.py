#!/usr/bin/env python3
"""Translator for C11: the lookup side of symbolication -> coq/Gen/C11Sym.v
argv: <repo> <outdir>.

Reads (comments stripped, whitespace normalised)
  breakpad-symbols/src/sym_file/mod.rs     SymbolFile::fill_symbol, find_nearest_public
  breakpad-symbols/src/sym_file/types.rs   Function::{memory_range, get_outermost_sourceloc, get_innermost_sourceloc,
                                           get_inlinee_at_depth}; field order of PublicSymbol / Inlinee (derived Ord)
  breakpad-symbols/src/sym_file/parser.rs  finish_item (Line::Function arm), finish (publics.sort, FUNC table builder),
                                           insert_win_stack_info, the parser-local into_rangemap_safe (merge step);
                                           round 5: the record-collecting arms of parse_more (FILE / INLINE_ORIGIN / PUBLIC /
                                           FUNC block and its sub-lines) and parse_func_subline, as literal pins
  breakpad-symbols/src/lib.rs              Symbolizer::fill_symbol, get_symbol_at_address
  minidump-unwind/src/lib.rs               fill_source_line_info
Every function body must match a template.  The template's literal text pins the statement structure; its holes
(written <name:kind>) are the parts simple enough to translate: comparison operators, operands, integer constants,
+/-, which STACK WIN table is asked first, the key every lookup is made with, the start and the stopping arm of the
inline-depth loop, the presence of .rev() / .reverse().  The holes are translated to Gallina and spliced into
generated copies (g_*) of the model's functions; coq/C11/Tie.v proves g_* = the hand-written model (C11/Model.v), so
an edit inside a hole breaks a proof obligation and an edit of the literal text makes this script abort (reported by
the runner as a broken tie).  Nothing is guessed: an operand or operator outside the small tables below aborts."""
import os
import re
import sys

repo, outdir = sys.argv[1], sys.argv[2]


def die(msg):
    sys.stderr.write("c11_symbolize.py: " + msg + "\n")
    sys.exit(1)


def strip_comments(s):
    out, i, n = [], 0, len(s)
    while i < n:
        if s.startswith("//", i):
            j = s.find("\n", i)
            i = n if j < 0 else j
        elif s.startswith("/*", i):
            j = s.find("*/", i + 2)
            i = n if j < 0 else j + 2
        elif s[i] == '"':
            j = i + 1
            while j < n and s[j] != '"':
                j += 2 if s[j] == "\\" else 1
            out.append(s[i:j + 1])
            i = j + 1
        else:
            out.append(s[i])
            i += 1
    return "".join(out)


def read(rel):
    try:
        return strip_comments(open(os.path.join(repo, rel)).read())
    except OSError as e:
        die("cannot read %s: %s" % (rel, e))


def block_after(src, head_re, what):
    """normalised text between the braces that follow the (unique) match of head_re"""
    ms = list(re.finditer(head_re, src))
    if len(ms) != 1:
        die("%s: expected exactly one match of the signature, found %d" % (what, len(ms)))
    i = src.index("{", ms[0].end() - 1)
    d, j = 0, i
    while j < len(src):
        if src[j] == "{":
            d += 1
        elif src[j] == "}":
            d -= 1
            if d == 0:
                return re.sub(r"\s+", " ", src[i + 1:j]).strip()
        j += 1
    die(what + ": unbalanced braces")


KIND = {
    "cmp": r"<=|>=|==|!=|<|>",
    "opd": r"[A-Za-z_][A-Za-z0-9_]*(?:\.[A-Za-z0-9_]+|\(\))*|\d+",
    "int": r"\d+",
    "arith": r"\+|-",
    "tbl": r"[a-z_]+",
    "brk": r"break|continue",
    "rev": r"(?:\.rev\(\))?",
    "reverse": r"(?:frame\.inlines\.reverse\(\); )?",
    "edge": r"start|end",
}


def match(template, text, what):
    """template: literal text with <name:kind> holes -> dict of hole texts; abort when the source differs"""
    parts = re.split(r"(<[a-z0-9_]+:[a-z]+>)", template)
    rx = ""
    for p in parts:
        m = re.fullmatch(r"<([a-z0-9_]+):([a-z]+)>", p)
        if m:
            rx += "(?P<%s>%s)" % (m.group(1), KIND[m.group(2)])
        else:
            rx += re.escape(p)
    m = re.fullmatch(rx, text)
    if not m:
        # find the first literal part that diverges, for a readable message
        pos, pre = 0, ""
        for p in parts:
            mm = re.fullmatch(r"<([a-z0-9_]+):([a-z]+)>", p)
            pre2 = pre + ("(?:%s)" % KIND[mm.group(2)] if mm else re.escape(p))
            if not re.match(pre2, text):
                got = re.match(pre, text)
                at = got.end() if got else 0
                die("%s no longer has the shape the model C11/Model.v was written for.\n  expected next: %s\n  source has   : %s"
                    % (what, p[:120], text[at:at + 120]))
            pre = pre2
        die("%s: trailing source not recognised: %s" % (what, text[-200:]))
    return m.groupdict()


CMP = {"<": "Z.ltb", "<=": "Z.leb", ">": "Z.gtb", ">=": "Z.geb", "==": "Z.eqb", "!=": "(fun a b => negb (Z.eqb a b))"}


def opd(env, s, what):
    if re.fullmatch(r"\d+", s):
        return s
    if s not in env:
        die("%s: operand `%s` is not one the translator knows at this site (known: %s)" % (what, s, ", ".join(sorted(env))))
    return env[s]


def cmp_(h, op, l, r, env, what):
    return "(%s %s %s)" % (CMP[h[op]], opd(env, h[l], what), opd(env, h[r], what))


def arith(h, op, l, r, env, what, tag):
    f = {"+": "chk_add", "-": "chk_sub"}[h[op]]
    return "(%s p 64 %s %s %s)" % (f, tag, opd(env, h[l], what), opd(env, h[r], what))


# ============================================================================ mod.rs
mod = read("breakpad-symbols/src/sym_file/mod.rs")
FS = "SymbolFile::fill_symbol (breakpad-symbols/src/sym_file/mod.rs)"
fs = match(
    "if <g_l:opd> <g_op:cmp> <g_r:opd> { return; } "
    "let addr = <a_l:opd> <a_op:arith> <a_r:opd>; "
    "if let Some(func) = self.functions.get(<f_k:opd>) { "
    "let parameter_size = if let Some(info) = self.<t1:tbl>.get(<t1_k:opd>) { info.parameter_size } "
    "else if let Some(info) = self.<t2:tbl>.get(<t2_k:opd>) { info.parameter_size } else { <ps_f:opd> }; "
    "frame.set_function( &<fn_n:opd>, <fb_l:opd> <fb_op:arith> <fb_r:opd>, <fn_ps:opd>, ); "
    "if let Some((file_id, line, address, next_inline_origin)) = func.get_outermost_sourceloc(<o_k:opd>) { "
    "if let Some(file) = self.files.get(&<sf_k:opd>) { frame.set_source_file(file, <sl:opd>, <sb_l:opd> <sb_op:arith> <sb_r:opd>); } "
    "if let Some(mut inline_origin) = next_inline_origin { "
    "for depth in <d0:int>.. { match func.get_inlinee_at_depth(<l_d:opd>, <l_a:opd>) { "
    "Some((call_file_id, call_line, _address, next_inline_origin)) => { "
    "let call_file = self.files.get(&call_file_id).map(Deref::deref); "
    "if let Some(name) = self.inline_origins.get(&inline_origin) { frame.add_inline_frame(name, call_file, Some(call_line)); } "
    "inline_origin = next_inline_origin; } None => <stop:brk>, } } "
    "let (file, line) = match func.get_innermost_sourceloc(<i_k:opd>) { "
    "Some((file_id, line, _)) => ( self.files.get(&file_id).map(Deref::deref), "
    "if line <z_op:cmp> <z_c:int> { Some(line) } else { None }, ), None => (None, None), }; "
    "if let Some(name) = self.inline_origins.get(&inline_origin) { frame.add_inline_frame(name, file, line); } } } } "
    "else if let Some(public) = self.find_nearest_public(<p_k:opd>) { "
    "let funcs_slice = self.functions.ranges_values().as_slice(); "
    "let prev_func = funcs_slice .binary_search_by_key(&<b_k:opd>, |(range, _)| range.<b_e:edge>) .err() "
    ".and_then(|idx| idx.checked_sub(<b_s:int>)) .and_then(|idx| funcs_slice.get(idx)); "
    "if let Some(prev_func) = prev_func { if <c_l:opd> <c_op:cmp> <c_r:opd> { return; } } "
    "frame.set_function( &<pn:opd>, <pb_l:opd> <pb_op:arith> <pb_r:opd>, <pps:opd>, ); }",
    block_after(mod, r"pub fn fill_symbol\(&self, module: &dyn Module, frame: &mut dyn FrameSymbolizer\) \{", FS), FS)

E_TOP = {"frame.get_instruction()": "instr", "module.base_address()": "mbase"}
E_ADDR = dict(E_TOP, addr="addr")
E_FUNC = dict(E_ADDR, **{"func.address": "(fn_addr f)", "func.parameter_size": "(fn_psize f)", "func.name": "(fn_name f)",
                         "func.size": "(fn_size f)", "parameter_size": "(g_param_size st f addr)"})
E_SRC = dict(E_FUNC, file_id="fid", line="line", address="a")
E_LOOP = dict(E_ADDR, depth="depth")
E_PUB = dict(E_ADDR, **{"public.address": "(p_addr pb)", "public.name": "(p_name pb)", "public.parameter_size": "(p_psize pb)"})
E_CUT = dict(E_PUB, **{"prev_func.1.address": "(fn_addr (snd pf))", "prev_func.0.start": "(fst (fst pf))",
                       "prev_func.0.end": "(snd (fst pf))"})
TBL = {"win_stack_framedata_info": "st_win_fd", "win_stack_fpo_info": "st_win_fpo"}
for t in ("t1", "t2"):
    if fs[t] not in TBL:
        die(FS + ": parameter size is looked up in `%s`, not a STACK WIN table" % fs[t])
if fs["stop"] == "break":
    stop = "Ret []"
else:
    stop = "do depth' <- chk_add p 32 PANIC_DEPTH depth 1; g_inline_loop p fuel' inls addr depth'"

fnp = match("self.publics.iter()<rev:rev>.find(|&p| <l:opd> <op:cmp> <r:opd>)",
            block_after(mod, r"pub fn find_nearest_public\(&self, addr: u64\) -> Option<&PublicSymbol> \{", "find_nearest_public"),
            "SymbolFile::find_nearest_public (mod.rs)")
E_FNP = {"p.address": "(p_addr q)", "p.parameter_size": "(p_psize q)", "addr": "addr"}

# ============================================================================ types.rs
ty = read("breakpad-symbols/src/sym_file/types.rs")
MR = "Function::memory_range (types.rs)"
mr = match("if self.size <z_op:cmp> <z_c:int> { return None; } "
           "Some(Range::new( <s:opd>, <e_l:opd>.checked_add(<e_r:opd> as u64)? - <one:int>, ))",
           block_after(ty, r"impl Function \{\s*pub fn memory_range\(&self\) -> Option<Range<u64>> \{", MR), MR)
E_MR = {"self.address": "base", "self.size": "size"}

OS = "Function::get_outermost_sourceloc (types.rs)"
os_ = match("if let Some((call_file, call_line, address, origin)) = self.get_inlinee_at_depth(<d:int>, <k:opd>) { "
            "return Some((<r1:opd>, <r2:opd>, <r3:opd>, Some(origin))); } "
            "let line = self.lines.get(<lk:opd>)?; Some((<l1:opd>, <l2:opd>, <l3:opd>, None))",
            block_after(ty, r"pub fn get_outermost_sourceloc\(&self, addr: u64\) -> Option<\(u32, u32, u64, Option<u32>\)> \{", OS), OS)
E_INL_T = {"call_file": "call_file", "call_line": "call_line", "address": "address", "origin": "origin", "addr": "addr"}
E_LINE = {"line.file": "(l_file l)", "line.line": "(l_line l)", "line.address": "(l_addr l)", "line.size": "(l_size l)", "addr": "addr"}

IS = "Function::get_innermost_sourceloc (types.rs)"
is_ = match("let line = self.lines.get(<lk:opd>)?; Some((<l1:opd>, <l2:opd>, <l3:opd>))",
            block_after(ty, r"pub fn get_innermost_sourceloc\(&self, addr: u64\) -> Option<\(u32, u32, u64\)> \{", IS), IS)

GI = "Function::get_inlinee_at_depth (types.rs)"
gi = match("let inlinee = match self .inlinees .binary_search_by_key(&(<k1:opd>, <k2:opd>), |inlinee| (<f1:opd>, <f2:opd>)) { "
           "Ok(index) => &self.inlinees[index], Err(<e0:int>) => return None, Err(index) => &self.inlinees[index - <e1:int>], }; "
           "if <d_l:opd> <d_op:cmp> <d_r:opd> { return None; } "
           "let end_address = <ea_l:opd>.checked_add(<ea_r:opd> as u64)?; "
           "if <in_l:opd> <in_op:cmp> <in_r:opd> { Some(( <r1:opd>, <r2:opd>, <r3:opd>, <r4:opd>, )) } else { None }",
           block_after(ty, r"pub fn get_inlinee_at_depth\(&self, depth: u32, addr: u64\) -> Option<\(u32, u32, u64, u32\)> \{", GI), GI)
E_GI = {"inlinee.depth": "(i_depth e)", "inlinee.address": "(i_addr e)", "inlinee.size": "(i_size e)",
        "inlinee.call_file": "(i_cfile e)", "inlinee.call_line": "(i_cline e)", "inlinee.origin_id": "(i_origin e)",
        "depth": "depth", "addr": "addr", "end_address": "end_address"}


def struct_fields(name, derive_need, fieldmap):
    m = re.search(r"#\[derive\(([^)]*)\)\]\s*pub struct %s \{(.*?)\n\}" % name, ty, re.S)
    if not m:
        die("struct %s not found in types.rs" % name)
    der = [d.strip() for d in m.group(1).split(",")]
    for d in derive_need:
        if d not in der:
            die("struct %s no longer derives %s (the model sorts by the derived lexicographic order)" % (name, d))
    fields = re.findall(r"pub ([a-z_]+)\s*:\s*([A-Za-z0-9]+)\s*,", m.group(2))
    out = []
    for f, t in fields:
        if f not in fieldmap:
            die("struct %s: unknown field %s" % (name, f))
        if fieldmap[f][1] != t:
            die("struct %s: field %s has type %s, model assumes %s" % (name, f, t, fieldmap[f][1]))
        out.append(fieldmap[f][0])
    if len(out) != len(fieldmap):
        die("struct %s: fields changed (%s)" % (name, ", ".join(f for f, _ in fields)))
    return out


inl_fields = struct_fields("Inlinee", ["Ord", "PartialOrd", "Eq", "PartialEq"],
                           {"depth": ("i_depth e", "u32"), "address": ("i_addr e", "u64"), "size": ("i_size e", "u32"),
                            "call_file": ("i_cfile e", "u32"), "call_line": ("i_cline e", "u32"), "origin_id": ("i_origin e", "u32")})
pub_fields = struct_fields("PublicSymbol", ["Ord", "PartialOrd", "Eq", "PartialEq"],
                           {"address": ("p_addr q", "u64"), "name": ("p_name q", "String"), "parameter_size": ("p_psize q", "u32")})

# ============================================================================ parser.rs
pa = read("breakpad-symbols/src/sym_file/parser.rs")
FI = "SymbolParser::finish_item (parser.rs)"
fi = match("match item { Line::Function(mut cur, lines, mut inlinees) => { "
           "cur.lines = lines .into_iter() .filter(|l| <lf_l:opd> <lf_op:cmp> <lf_r:opd>) "
           ".map(|l| { let end_address = <le_l:opd>.checked_add(<le_r:opd> as u64 - <le_one:int>); "
           "let range = end_address.map(|end| Range::new(<lr_s:opd>, end)); (range, l) }) .into_rangemap_safe(); "
           "inlinees.retain(|i| <ir_l:opd> <ir_op:cmp> <ir_r:opd>); inlinees.sort(); cur.inlinees = inlinees; "
           "if let Some(range) = cur.memory_range() { self.functions.push((range, cur)); } } "
           "Line::StackCfi(mut cur) => { cur.add_rules.sort(); "
           "if let Some(range) = cur.memory_range() { self.cfi_stack_info.push((range, cur)); } } _ => { unreachable!() } }",
           block_after(pa, r"fn finish_item\(&mut self, item: Line\) \{", FI), FI)
E_FIL = {"l.address": "(l_addr l)", "l.size": "(l_size l)", "l.line": "(l_line l)", "l.file": "(l_file l)"}
E_FII = {"i.address": "(i_addr e)", "i.size": "(i_size e)", "i.depth": "(i_depth e)"}
fin = block_after(pa, r"pub fn finish\(mut self\) -> SymbolFile \{", "SymbolParser::finish")
for need in ("if let Some(item) = self.cur_item.take() { self.finish_item(item); }", "self.publics.sort();",
             "publics: self.publics,", "functions: into_rangemap_safe(self.functions),", "files: self.files,",
             "inline_origins: self.inline_origins,"):
    if need not in fin:
        die("SymbolParser::finish (parser.rs): `%s` not found" % need)

# round 5: how parse_more collects the records (the model's raw_file = every record of a kind, in file order).
# Literal pins, no holes: a record kind that is filtered, reordered or filed elsewhere at collection time aborts here.
PM = "SymbolParser::parse_more (parser.rs)"
pm = block_after(pa, r"pub fn parse_more\(&mut self, mut input: &\[u8\]\) -> Result<usize, SymbolError> \{", PM)
for need, why in (
        ("Line::File(id, filename) => { self.files.insert(id, filename.to_string()); }", "every FILE record goes into the file map"),
        ("Line::InlineOrigin(id, function) => { self.inline_origins.insert(id, function.to_string()); }",
         "every top-level INLINE_ORIGIN record goes into the origin map"),
        ("Line::Public(p) => { self.publics.push(p); }", "every PUBLIC record is kept, in file order"),
        ("item @ Line::Function(_, _, _) => { self.cur_item = Some(item); }", "a FUNC line opens a block"),
        ("Some(Line::Function(cur, mut lines, mut inlinees)) => { match self.parse_func_subline(input, &mut lines, &mut inlinees) { "
         "Ok((new_input, ())) => { input = new_input; self.cur_item = Some(Line::Function(cur, lines, inlinees)); self.lines += 1; continue; } "
         "Err(_) => { self.finish_item(Line::Function(cur, lines, inlinees)); continue; } } }",
         "sub-lines are added to the open FUNC block until one does not parse; then finish_item and the top-level parser")):
    if need not in pm:
        die("%s no longer has the shape the model C11/Model.v was written for (%s).\n  expected: %s" % (PM, why, need))
PS = "SymbolParser::parse_func_subline (parser.rs)"
match("if input.starts_with(b\"INLINE_ORIGIN \") { let (input, (id, function)) = inline_origin_line(input)?; "
      "self.inline_origins.insert(id, function); return Ok((input, ())); } "
      "if input.starts_with(b\"INLINE \") { let (input, new_inlinees) = inline_line(input)?; inlinees.extend(new_inlinees); "
      "return Ok((input, ())); } let (input, line) = func_line_data(input)?; lines.push(line); Ok((input, ()))",
      block_after(pa, r"fn parse_func_subline<'a>\(\s*&mut self,\s*input: &'a \[u8\],\s*lines: &mut Vec<SourceLine>,\s*inlinees: &mut Vec<Inlinee>,?\s*\) -> IResult<&'a \[u8\], \(\)> \{", PS), PS)

WI = "insert_win_stack_info (parser.rs)"
wi = match("if let Some(memory_range) = info.memory_range() { if let Some((last_range, last_info)) = stack_win.last_mut() { "
           "if last_range.intersects(&memory_range) { if <c_l:opd> <c_op:cmp> <c_r:opd> { "
           "last_info.size = (<s_l:opd> - <s_r:opd>) as u32; *last_range = last_info.memory_range().unwrap(); } "
           "else if *last_range != memory_range { warn!( \"STACK WIN entry had bad intersections, dropping it {:?}\", info ); return; } } } "
           "stack_win.push((memory_range, info)); } else { warn!(\"STACK WIN entry had invalid range, dropping it {:?}\", info); }",
           block_after(pa, r"fn insert_win_stack_info\(", WI), WI)
E_WI = {"info.address": "(w_addr w)", "last_info.address": "(w_addr lw)", "info.size": "(w_size w)", "last_info.size": "(w_size lw)"}
if not re.search(r"match frame_type \{\s*WinFrameType::FrameData\(s\) => \{\s*insert_win_stack_info\(&mut self\.win_stack_framedata_info, s\);\s*\}"
                 r"\s*WinFrameType::Fpo\(s\) => \{\s*insert_win_stack_info\(&mut self\.win_stack_fpo_info, s\);\s*\}\s*_ => \{\}", pa):
    die("parser.rs: STACK WIN records are no longer filed FrameData -> win_stack_framedata_info, Fpo -> win_stack_fpo_info, others ignored")
WM = "StackInfoWin::memory_range (types.rs)"
wm = match("if self.size <z_op:cmp> <z_c:int> { return None; } "
           "Some(Range::new( <s:opd>, <e_l:opd>.checked_add(<e_r:opd> as u64)? - <one:int>, ))",
           block_after(ty, r"impl StackInfoWin \{\s*pub fn memory_range\(&self\) -> Option<Range<u64>> \{", WM), WM)
RS = "parser-local into_rangemap_safe (parser.rs)"
rs = match("input.sort_by_key(|x| x.0); let mut vec: Vec<(Range<u64>, V)> = Vec::with_capacity(input.len()); "
           "for (range, val) in input { if let Some((last_range, last_val)) = vec.last_mut() { "
           "if <a_l:opd> <a_op:cmp> <a_r:opd> && val != *last_val { continue; } "
           "if <b_l:opd> <b_op:cmp> <b_r:opd>.saturating_add(<b_one:int>) && &val == last_val { "
           "last_range.end = std::cmp::max(<m_l:opd>, <m_r:opd>); continue; } } vec.push((range, val)); } "
           "RangeMap::try_from_iter(vec).unwrap()",
           block_after(pa, r"fn into_rangemap_safe<V: Clone \+ Eq \+ Debug>\(mut input: Vec<\(Range<u64>, V\)>\) -> RangeMap<u64, V> \{", RS), RS)
E_RS = {"range.start": "(fst r)", "range.end": "(snd r)", "last_range.start": "(fst lr)", "last_range.end": "(snd lr)"}

# ============================================================================ lib.rs (Symbolizer), minidump-unwind
lib = read("breakpad-symbols/src/lib.rs")
SF = "Symbolizer::fill_symbol (breakpad-symbols/src/lib.rs)"
match("let cached_sym = self.get_symbols(module).await; let sym = cached_sym .as_ref() .as_ref() "
      ".map_err(|_| FillSymbolError {})?; sym.fill_symbol(module, frame); Ok(())",
      block_after(lib, r"pub async fn fill_symbol\(\s*&self,\s*module: &\(dyn Module \+ Sync\),\s*frame: &mut \(dyn FrameSymbolizer \+ Send\),\s*\) -> Result<\(\), FillSymbolError> \{", SF), SF)
GS = "Symbolizer::get_symbol_at_address (breakpad-symbols/src/lib.rs)"
gs = match("let k = (debug_file, debug_id); let mut frame = SimpleFrame::with_instruction(<a:opd>); "
           "self.fill_symbol(&k, &mut frame).await.ok()?; frame.function",
           block_after(lib, r"pub async fn get_symbol_at_address\(\s*&self,\s*debug_file: &str,\s*debug_id: DebugId,\s*address: u64,\s*\) -> Option<String> \{", GS), GS)
tr = read("minidump-common/src/traits.rs")
m = re.search(r"impl Module for \(&str, DebugId\) \{\s*fn base_address\(&self\) -> u64 \{\s*(\d+)\s*\}", tr)
if not m:
    die("impl Module for (&str, DebugId): base_address() is not a literal")
gs_base = m.group(1)
un = read("minidump-unwind/src/lib.rs")
FL = "fill_source_line_info (minidump-unwind/src/lib.rs)"
fl = match("if let Some(module) = modules.module_at_address(<k:opd>) { frame.module = Some(module.clone()); "
           "let _ = symbol_provider.fill_symbol(module, frame).await; <rev:reverse>}",
           block_after(un, r"async fn fill_source_line_info<P>\(\s*frame: &mut StackFrame,\s*modules: &MinidumpModuleList,\s*symbol_provider: &P,\s*\) where\s*P: SymbolProvider \+ Sync,\s*\{", FL), FL)

# ============================================================================ output
W = "translation"
out = """(* GENERATED by translate/c11_symbolize.py from breakpad-symbols/src/sym_file/{mod,types,parser}.rs,
   breakpad-symbols/src/lib.rs and minidump-unwind/src/lib.rs — do not edit.
   g_* are copies of the functions of C11/Model.v whose comparison operators, operands, constants, table
   order and loop bounds were read from the source; C11/Tie.v proves them equal to the model. *)
From RM Require Import Base.Word C08.Model C11.Model.
Open Scope Z_scope.

(* ---- types.rs *)
Definition g_inl_key (e : inl_rec) : list Z := [%(inl_key)s].
Definition g_pub_key (q : pub_rec) : list Z := [%(pub_key)s].

Definition g_func_range (base size : Z) : option range :=
  if %(mr_zero)s then None
  else match checked_add 64 %(mr_el)s %(mr_er)s with
       | Some e => Some (%(mr_s)s, e - %(mr_one)s)
       | None => None
       end.

Definition g_giad_candidate (inls : list inl_rec) (depth addr : Z) : outcome (option inl_rec) :=
  match bsearch_by (fun e => cmp_pair %(gi_f1)s %(gi_f2)s %(gi_k1)s %(gi_k2)s) inls with
  | BOk i => match nth_error inls i with Some e => Ret (Some e) | None => Panic PANIC_INDEX end
  | BErr i => if Nat.eqb i %(gi_e0)s%%nat then Ret None
              else match nth_error inls (i - %(gi_e1)s)%%nat with Some e => Ret (Some e) | None => Panic PANIC_INDEX end
  end.
Definition g_giad_check (depth addr : Z) (c : option inl_rec) : option inl_rec :=
  match c with
  | None => None
  | Some e =>
      if %(gi_depth)s then None
      else match checked_add 64 %(gi_ea_l)s %(gi_ea_r)s with
           | None => None
           | Some end_address => if %(gi_in)s then Some e else None
           end
  end.
Definition g_giad_tuple (e : inl_rec) : Z * Z * Z * Z := (%(gi_r1)s, %(gi_r2)s, %(gi_r3)s, %(gi_r4)s).
Definition g_get_inlinee_at_depth (inls : list inl_rec) (depth addr : Z) : outcome (option inl_rec) :=
  do c <- g_giad_candidate inls depth addr; Ret (g_giad_check depth addr c).

Definition g_outer_inl_tuple (e : inl_rec) : Z * Z * Z :=
  let '(call_file, call_line, address, origin) := g_giad_tuple e in (%(os_r1)s, %(os_r2)s, %(os_r3)s).
Definition g_outer_line_tuple (l : line_rec) : Z * Z * Z := (%(os_l1)s, %(os_l2)s, %(os_l3)s).
Definition g_get_outermost_sourceloc (f : func) (addr : Z) : outcome (option (Z * Z * Z * option inl_rec)) :=
  do r <- g_get_inlinee_at_depth (fn_inls f) %(os_d)s %(os_k)s;
  match r with
  | Some e => Ret (Some (g_outer_inl_tuple e, Some e))
  | None => match rm_get (fn_lines f) %(os_lk)s with
            | Some l => Ret (Some (g_outer_line_tuple l, None))
            | None => Ret None
            end
  end.
Definition g_inner_line_tuple (l : line_rec) : Z * Z * Z := (%(is_l1)s, %(is_l2)s, %(is_l3)s).
Definition g_get_innermost_line (f : func) (addr : Z) : option line_rec := rm_get (fn_lines f) %(is_lk)s.

(* ---- mod.rs *)
Definition g_depth_start : Z := %(d0)s.
Fixpoint g_inline_loop (p : profile) (fuel : nat) (inls : list inl_rec) (addr depth : Z) : outcome (list inl_rec) :=
  match fuel with
  | O => OutOfFuel
  | S fuel' =>
      do r <- g_get_inlinee_at_depth inls %(l_d)s %(l_a)s;
      match r with
      | None => %(stop)s
      | Some e =>
          do depth' <- chk_add p 32 PANIC_DEPTH depth 1;
          do rest <- g_inline_loop p fuel' inls addr depth';
          Ret (e :: rest)
      end
  end.

Definition g_inner_line (line : Z) : option Z := if %(z_cmp)s then Some line else None.
Fixpoint g_emit_frames (st : symtab) (org : Z) (chain : list inl_rec) (inner : option line_rec) : list iframe :=
  match chain with
  | e :: t =>
      let '(call_file_id, call_line, _, next_inline_origin) := g_giad_tuple e in
      (match assoc_last org (st_origins st) with
       | Some nm => [(nm, assoc_last call_file_id (st_files st), Some call_line)]
       | None => []
       end) ++ g_emit_frames st next_inline_origin t inner
  | [] =>
      match assoc_last org (st_origins st) with
      | Some nm =>
          match inner with
          | Some l => let '(file_id, line, _) := g_inner_line_tuple l in
                      [(nm, assoc_last file_id (st_files st), g_inner_line line)]
          | None => [(nm, None, None)]
          end
      | None => []
      end
  end.

Definition g_find_nearest_public (pubs : list pub_rec) (addr : Z) : option pub_rec :=
  find (fun q => %(fnp_cmp)s) (%(fnp_rev)s pubs).

Definition g_prev_func (funcs : list (range * func)) (addr : Z) : option (range * func) :=
  match bsearch_by (fun e : range * func => cmp_z (%(b_edge)s (fst e)) %(b_k)s) funcs with
  | BOk _ => None
  | BErr i => if Nat.ltb i %(b_s)s%%nat then None else nth_error funcs (i - %(b_s)s)%%nat
  end.

Definition g_param_size (st : symtab) (f : func) (addr : Z) : Z :=
  match rm_get (%(t1)s st) %(t1_k)s with
  | Some w => w_psize w
  | None => match rm_get (%(t2)s st) %(t2_k)s with
            | Some w => w_psize w
            | None => %(ps_f)s
            end
  end.

Definition g_fill_symbol (p : profile) (st : symtab) (mbase instr : Z) : outcome sym_out :=
  if %(guard)s then Ret empty_out
  else
    let addr := %(addr)s in
    match rm_get (st_funcs st) %(f_k)s with
    | Some f =>
        do fbase <- %(fbase)s;
        let fo := Some (%(fn_n)s, fbase, %(fn_ps)s) in
        do outer <- g_get_outermost_sourceloc f %(o_k)s;
        match outer with
        | None => Ret (mk_out fo None [])
        | Some (fid, line, a, org) =>
            do src <- match assoc_last %(sf_k)s (st_files st) with
                      | Some fname => do b <- %(sbase)s; Ret (Some (fname, %(sl)s, b))
                      | None => Ret None
                      end;
            match org with
            | None => Ret (mk_out fo src [])
            | Some e0 =>
                do chain <- g_inline_loop p (length (fn_inls f)) (fn_inls f) addr g_depth_start;
                Ret (mk_out fo src (g_emit_frames st (snd (g_giad_tuple e0)) chain (g_get_innermost_line f %(i_k)s)))
            end
        end
    | None =>
        match g_find_nearest_public (st_publics st) %(p_k)s with
        | None => Ret empty_out
        | Some pb =>
            let cut := match g_prev_func (st_funcs st) addr with
                       | Some pf => %(cut)s
                       | None => false
                       end in
            if cut then Ret empty_out
            else do b <- %(pbase)s;
                 Ret (mk_out (Some (%(pn)s, b, %(pps)s)) None [])
        end
    end.

(* ---- parser.rs finish_item *)
Definition g_line_keep (l : line_rec) : bool := %(lf)s.
Definition g_line_range (l : line_rec) : option range :=
  match checked_add 64 %(le_l)s (%(le_r)s - %(le_one)s) with
  | Some e => Some (%(lr_s)s, e)
  | None => None
  end.
Definition g_line_entries (ls : list line_rec) : list (option range * line_rec) :=
  map (fun l => (g_line_range l, l)) (filter g_line_keep ls).
Definition g_inl_keep (e : inl_rec) : bool := %(ir)s.

(* ---- parser.rs: the STACK WIN repair and the FUNC / STACK WIN table builder *)
Definition g_win_range (w : win_rec) : option range :=
  let base := w_addr w in let size := w_size w in
  if %(wm_zero)s then None
  else match checked_add 64 %(wm_el)s %(wm_er)s with
       | Some e => Some (%(wm_s)s, e - %(wm_one)s)
       | None => None
       end.
Definition g_win_insert (acc : list (range * win_rec)) (w : win_rec) : outcome (list (range * win_rec)) :=
  match g_win_range w with
  | None => Ret acc
  | Some mr =>
      match acc with
      | [] => Ret [(mr, w)]
      | (lr, lw) :: acc' =>
          if intersects lr mr then
            if %(wi_cmp)s then
              let lw' := mk_win (w_addr lw) (wrap32 (%(wi_sl)s - %(wi_sr)s)) (w_psize lw) (w_tag lw) in
              match g_win_range lw' with
              | Some lr' => Ret ((mr, w) :: (lr', lw') :: acc')
              | None => Panic PANIC_WIN_UNWRAP
              end
            else if negb (range_eqb lr mr) then Ret acc
            else Ret ((mr, w) :: acc)
          else Ret ((mr, w) :: acc)
      end
  end.
Definition g_merge_step {V : Type} (eqb : V -> V -> bool) (acc : list (range * V)) (rv : range * V) : list (range * V) :=
  match acc with
  | [] => [rv]
  | (lr, lv) :: acc' =>
      let '(r, v) := rv in
      if %(rs_a)s && negb (eqb v lv) then acc
      else if (%(rs_bop)s %(rs_bl)s (sat_add 64 %(rs_br)s %(rs_bone)s)) && eqb v lv
           then ((fst lr, Z.max %(rs_ml)s %(rs_mr)s), lv) :: acc'
           else rv :: acc
  end.

(* ---- lib.rs / minidump-unwind *)
Definition g_gsaa_instr (address : Z) : Z := %(gs_a)s.
Definition g_gsaa_base : Z := %(gs_base)s.
Definition g_module_key (instr : Z) : Z := %(fl_k)s.
Definition g_frame_inlines (l : list iframe) : list iframe := %(fl_rev)s l.
""" % dict(
    inl_key="; ".join(inl_fields), pub_key="; ".join(pub_fields),
    mr_zero=cmp_({"o": mr["z_op"], "l": "self.size", "r": mr["z_c"]}, "o", "l", "r", E_MR, MR),
    mr_el=opd(E_MR, mr["e_l"], MR), mr_er=opd(E_MR, mr["e_r"], MR), mr_s=opd(E_MR, mr["s"], MR), mr_one=mr["one"],
    gi_f1=opd(E_GI, gi["f1"], GI), gi_f2=opd(E_GI, gi["f2"], GI), gi_k1=opd(E_GI, gi["k1"], GI), gi_k2=opd(E_GI, gi["k2"], GI),
    gi_e0=gi["e0"], gi_e1=gi["e1"], gi_depth=cmp_(gi, "d_op", "d_l", "d_r", E_GI, GI),
    gi_ea_l=opd(E_GI, gi["ea_l"], GI), gi_ea_r=opd(E_GI, gi["ea_r"], GI), gi_in=cmp_(gi, "in_op", "in_l", "in_r", E_GI, GI),
    gi_r1=opd(E_GI, gi["r1"], GI), gi_r2=opd(E_GI, gi["r2"], GI), gi_r3=opd(E_GI, gi["r3"], GI), gi_r4=opd(E_GI, gi["r4"], GI),
    os_r1=opd(E_INL_T, os_["r1"], OS), os_r2=opd(E_INL_T, os_["r2"], OS), os_r3=opd(E_INL_T, os_["r3"], OS),
    os_l1=opd(E_LINE, os_["l1"], OS), os_l2=opd(E_LINE, os_["l2"], OS), os_l3=opd(E_LINE, os_["l3"], OS),
    os_d=os_["d"], os_k=opd(E_LINE, os_["k"], OS), os_lk=opd(E_LINE, os_["lk"], OS),
    is_l1=opd(E_LINE, is_["l1"], IS), is_l2=opd(E_LINE, is_["l2"], IS), is_l3=opd(E_LINE, is_["l3"], IS), is_lk=opd(E_LINE, is_["lk"], IS),
    d0=fs["d0"], l_d=opd(E_LOOP, fs["l_d"], FS), l_a=opd(E_LOOP, fs["l_a"], FS), stop=stop,
    z_cmp=cmp_({"o": fs["z_op"], "l": "line", "r": fs["z_c"]}, "o", "l", "r", {"line": "line"}, FS),
    fnp_cmp=cmp_(fnp, "op", "l", "r", E_FNP, "find_nearest_public"), fnp_rev="rev" if fnp["rev"] else "",
    b_edge={"start": "fst", "end": "snd"}[fs["b_e"]], b_k=opd(E_ADDR, fs["b_k"], FS), b_s=fs["b_s"],
    t1=TBL[fs["t1"]], t2=TBL[fs["t2"]], t1_k=opd(E_FUNC, fs["t1_k"], FS), t2_k=opd(E_FUNC, fs["t2_k"], FS), ps_f=opd(E_FUNC, fs["ps_f"], FS),
    guard=cmp_(fs, "g_op", "g_l", "g_r", E_TOP, FS),
    addr="(%s %s %s)" % (opd(E_TOP, fs["a_l"], FS), fs["a_op"], opd(E_TOP, fs["a_r"], FS)),
    f_k=opd(E_ADDR, fs["f_k"], FS), fbase=arith(fs, "fb_op", "fb_l", "fb_r", E_FUNC, FS, "PANIC_ADD"),
    fn_n=opd(E_FUNC, fs["fn_n"], FS), fn_ps=opd(E_FUNC, fs["fn_ps"], FS), o_k=opd(E_FUNC, fs["o_k"], FS),
    sf_k=opd(E_SRC, fs["sf_k"], FS), sbase=arith(fs, "sb_op", "sb_l", "sb_r", E_SRC, FS, "PANIC_ADD"), sl=opd(E_SRC, fs["sl"], FS),
    i_k=opd(E_FUNC, fs["i_k"], FS), p_k=opd(E_ADDR, fs["p_k"], FS),
    cut=cmp_(fs, "c_op", "c_l", "c_r", E_CUT, FS), pbase=arith(fs, "pb_op", "pb_l", "pb_r", E_PUB, FS, "PANIC_ADD"),
    pn=opd(E_PUB, fs["pn"], FS), pps=opd(E_PUB, fs["pps"], FS),
    lf=cmp_(fi, "lf_op", "lf_l", "lf_r", E_FIL, FI), le_l=opd(E_FIL, fi["le_l"], FI), le_r=opd(E_FIL, fi["le_r"], FI),
    le_one=fi["le_one"], lr_s=opd(E_FIL, fi["lr_s"], FI), ir=cmp_(fi, "ir_op", "ir_l", "ir_r", E_FII, FI),
    wm_zero=cmp_({"o": wm["z_op"], "l": "self.size", "r": wm["z_c"]}, "o", "l", "r", E_MR, WM),
    wm_el=opd(E_MR, wm["e_l"], WM), wm_er=opd(E_MR, wm["e_r"], WM), wm_s=opd(E_MR, wm["s"], WM), wm_one=wm["one"],
    wi_cmp=cmp_(wi, "c_op", "c_l", "c_r", E_WI, WI), wi_sl=opd(E_WI, wi["s_l"], WI), wi_sr=opd(E_WI, wi["s_r"], WI),
    rs_a=cmp_(rs, "a_op", "a_l", "a_r", E_RS, RS), rs_bop=CMP[rs["b_op"]], rs_bl=opd(E_RS, rs["b_l"], RS), rs_br=opd(E_RS, rs["b_r"], RS),
    rs_bone=rs["b_one"], rs_ml=opd(E_RS, rs["m_l"], RS), rs_mr=opd(E_RS, rs["m_r"], RS),
    gs_a=opd({"address": "address"}, gs["a"], GS), gs_base=gs_base,
    fl_k=opd({"frame.instruction": "instr"}, fl["k"], FL), fl_rev="@rev iframe" if fl["rev"] else "(fun x : list iframe => x)",
)
os.makedirs(outdir, exist_ok=True)
path = os.path.join(outdir, "C11Sym.v")
try:
    same = open(path).read() == out
except OSError:
    same = False
if not same:
    open(path, "w").write(out)
