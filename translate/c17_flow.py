#!/usr/bin/env python3
"""Translator for C17: WHAT the consumers join onto their roots -> coq/Gen/C17Flow.v
argv: <repo> <outdir>

For every `<recv>.join(<arg>)` / `join_rel(<base>, <arg>)` call in the non-test code of breakpad-symbols/src/lib.rs and
http.rs that is not inside one of the path builders (those are compiled by c17_lookup.py), this script derives, from the
source, the PROVENANCE of the joined string and of the root:
  arg   V.cache_rel / V.server_rel where V is bound (in the same fn, or — if V is a parameter — at every call site of the
        fn, followed transitively) by  lookup(module, kind) | breakpad_sym_lookup(m) | binary_lookup(m) |
        extra_debuginfo_lookup(m) | moz_lookup(W.clone());  or a string bound by code_info_breakpad_sym_lookup(m);
        anything else (a raw module name, FileLookup.debug_file, a formatted string ...) is recorded as AUnknown "<text>"
  root  `cache` (a &Path parameter fed from self.cache) | `path` of `for path in self.paths.iter()` | the base URL of
        join_rel; anything else RUnknown "<text>"
and writes the list g_consumer_joins.  coq/C17/FlowProofs.v proves that every entry is a KNOWN provenance (by computation:
an unknown one breaks the obligation and Coq prints it) and that, for every module and kind, what a known entry joins is a
safe relative path that stays below its root (by induction over the provenance terms, from the theorems on the generated
builders).  Unlike the textual pin of join_sites.py this follows the data: re-wiring a consumer to another safe lookup keeps
the theorem, joining anything that did not come out of a builder breaks it.
Aborts on text it cannot delimit."""
import os
import re
import sys

FILES = ["breakpad-symbols/src/lib.rs", "breakpad-symbols/src/http.rs"]
BUILDERS = {"lookup": "BLookup", "breakpad_sym_lookup": "BBreakpadSym", "binary_lookup": "BBinary",
            "extra_debuginfo_lookup": "BExtraDebuginfo"}
BUILDER_FNS = {"leafname", "safe_leafname", "replace_or_add_extension", "breakpad_sym_lookup", "code_info_breakpad_sym_lookup",
               "extra_debuginfo_lookup", "binary_lookup", "moz_lookup", "lookup", "join_rel"}


def die(msg):
    sys.stderr.write("c17_flow.py: ABORT: " + msg + "\n")
    sys.exit(1)


def strip_comments(src):
    out, i, n = [], 0, len(src)
    while i < n:
        c = src[i]
        if c == '"':
            j = i + 1
            while j < n and src[j] != '"':
                j += 2 if src[j] == "\\" else 1
            out.append(src[i:j + 1])
            i = j + 1
        elif src.startswith("//", i):
            j = src.find("\n", i)
            i = n if j < 0 else j
        elif src.startswith("/*", i):
            j = src.find("*/", i)
            if j < 0:
                die("unterminated block comment")
            i = j + 2
        elif c == "'" and i + 2 < n and src[i + 2] == "'":
            out.append("'_'" if src[i + 1] in "(){}[]\"" else src[i:i + 3])
            i += 3
        elif c == "'" and src[i + 1:i + 2] == "\\" and i + 3 < n and src[i + 3] == "'":
            out.append(src[i:i + 4])
            i += 4
        else:
            out.append(c)
            i += 1
    return "".join(out)


def match_close(s, i):
    pairs = {"(": ")", "[": "]", "{": "}"}
    depth, j, n = 0, i, len(s)
    while j < n:
        c = s[j]
        if c == '"':
            j += 1
            while j < n and s[j] != '"':
                j += 2 if s[j] == "\\" else 1
        elif c in pairs:
            depth += 1
        elif c in pairs.values():
            depth -= 1
            if depth == 0:
                return j
        j += 1
    die("unbalanced bracket")


def split_top(s):
    out, depth, cur, i = [], 0, [], 0
    while i < len(s):
        c = s[i]
        if c == '"':
            j = i + 1
            while j < len(s) and s[j] != '"':
                j += 2 if s[j] == "\\" else 1
            cur.append(s[i:j + 1])
            i = j + 1
            continue
        if c in "([{<" and not (c == "<" and s[i - 1:i] == "-"):
            depth += 1
        elif c in ")]}>" and not (c == ">" and s[i - 1:i] in ("-", "=")):
            depth -= 1
        if c == "," and depth == 0:
            out.append("".join(cur))
            cur = []
        else:
            cur.append(c)
        i += 1
    if "".join(cur).strip():
        out.append("".join(cur))
    return [x.strip() for x in out]


def norm(t):
    return re.sub(r"\s+", "", t)


class Fn:
    def __init__(self, label, name, params, start, end, src):
        self.label, self.name, self.params, self.start, self.end, self.src = label, name, params, start, end, src

    def body(self):
        return self.src[self.start:self.end + 1]


def functions(label, src):
    fns = []
    for m in re.finditer(r"\bfn\s+(\w+)\s*(<[^>(]*>)?\s*\(", src):
        op = m.end() - 1
        cl = match_close(src, op)
        ob = src.find("{", cl)
        semi = src.find(";", cl)
        if ob < 0 or (0 <= semi < ob):
            continue                                  # a declaration without a body
        ce = match_close(src, ob)
        params = []
        for p in split_top(src[op + 1:cl]):
            p = p.strip()
            if not p or re.match(r"&?\s*(mut\s+)?self$", p):
                continue
            mm = re.match(r"(?:mut\s+)?(\w+)\s*:\s*(.*)$", p, re.S)
            if not mm:
                die("%s fn %s: cannot read the parameter `%s`" % (label, m.group(1), p))
            params.append((mm.group(1), norm(mm.group(2))))
        fns.append(Fn(label, m.group(1), params, ob, ce, src))
    return fns


def receiver_start(s, dot):
    closers = {")": "(", "]": "["}
    j = dot
    while j > 0:
        c = s[j - 1]
        if c.isalnum() or c in "_.?&":
            j -= 1
        elif c in closers:
            depth, k = 0, j - 1
            while k >= 0:
                if s[k] in closers:
                    depth += 1
                elif s[k] in closers.values():
                    depth -= 1
                    if depth == 0:
                        break
                k -= 1
            if k < 0:
                die("unbalanced receiver")
            j = k
        elif c in " \n\t" and s[j:dot].strip() == "":
            j -= 1
        else:
            break
    return j


class Flow:
    def __init__(self, repo):
        self.srcs, self.fns = {}, []
        for f in FILES:
            p = os.path.join(repo, f)
            try:
                src = strip_comments(open(p).read())
            except OSError as e:
                die("cannot read %s: %s" % (f, e))
            cut = len(src)
            for m in re.finditer(r"\n\s*#\[(test|cfg\(test\))\]", src):
                cut = min(cut, m.start())
            label = os.path.basename(f)
            self.srcs[label] = src[:cut]
            self.fns += functions(label, src[:cut])

    def enclosing(self, label, pos):
        best = None
        for f in self.fns:
            if f.label == label and f.start <= pos <= f.end and (best is None or f.start > best.start):
                best = f
        return best

    def callers(self, name):
        """(caller fn, [arg texts]) for every call of `name` in the non-test code"""
        out = []
        for label, src in self.srcs.items():
            for m in re.finditer(r"(?<![\w])%s\s*\(" % re.escape(name), src):
                before = src[max(0, m.start() - 4):m.start()]
                if before.endswith("fn "):
                    continue
                op = m.end() - 1
                cl = match_close(src, op)
                f = self.enclosing(label, m.start())
                if f is None:
                    continue
                out.append((f, split_top(src[op + 1:cl])))
        return out

    @staticmethod
    def strip_ref(t):
        t = norm(t)
        while t.startswith("&"):
            t = t[1:]
        if t.startswith("mut") and not t[3:4].isalnum():
            t = t[3:]
        t = re.sub(r"(\.clone\(\)|\.as_str\(\)|\.as_ref\(\)|\[\.\.\])$", "", t)
        return t

    # ---- provenance of a FileLookup-valued variable ----------------------------------------------------
    def lookup_prov(self, fn, var, depth=0):
        if depth > 6:
            return 'GUnknownLookup "%s (call chain too deep)"' % var
        body = fn.body()
        found = []
        for m in list(re.finditer(r"\blet\s+(?:mut\s+)?%s\s*(?::[^=;]*)?=\s*(\w+)\s*\(" % re.escape(var), body)) + \
                list(re.finditer(r"\bif\s+let\s+Some\s*\(\s*%s\s*\)\s*=\s*(\w+)\s*\(" % re.escape(var), body)):
            cl = match_close(body, m.end() - 1)
            found.append((m.group(1), body[m.end():cl]))
        provs = []
        for callee, args in found:
            if callee in BUILDERS:
                provs.append("GBuilt %s" % BUILDERS[callee])
            elif callee == "moz_lookup":
                inner = self.strip_ref(args)
                if not re.match(r"\w+$", inner):
                    provs.append('GUnknownLookup "moz_lookup(%s)"' % norm(args))
                else:
                    provs.append("GMoz (%s)" % self.lookup_prov(fn, inner, depth + 1))
            else:
                provs.append('GUnknownLookup "%s = %s(%s)"' % (var, callee, norm(args)[:60]))
        if not provs and any(re.search(r"\b%s\b\s*(?::[^=;]*)?=[^=]" % re.escape(var), l) for l in re.findall(r"\blet\s[^;]*;", body)):
            return 'GUnknownLookup "%s is bound by an expression that is not a lookup builder"' % var
        if not provs:
            idx = [i for i, (pn, _) in enumerate(fn.params) if pn == var]
            if not idx:
                return 'GUnknownLookup "%s: no binding found in fn %s"' % (var, fn.name)
            calls = self.callers(fn.name)
            if not calls:
                return 'GUnknownLookup "%s: parameter of fn %s, which has no caller in the crate"' % (var, fn.name)
            for caller, args in calls:
                if len(args) != len(fn.params):
                    return 'GUnknownLookup "%s: call of %s with %d arguments"' % (var, fn.name, len(args))
                a = self.strip_ref(args[idx[0]])
                if not re.match(r"\w+$", a):
                    provs.append('GUnknownLookup "%s(.. %s ..)"' % (fn.name, norm(args[idx[0]])[:60]))
                else:
                    provs.append(self.lookup_prov(caller, a, depth + 1))
        uniq = list(dict.fromkeys(provs))
        if len(uniq) != 1:
            return 'GUnknownLookup "%s has several sources: %s"' % (var, " / ".join(uniq).replace('"', "'")[:200])
        return uniq[0]

    # ---- provenance of a string-valued variable (the code-info path) ------------------------------------
    def string_prov(self, fn, var, depth=0):
        if depth > 6:
            return 'AUnknown "%s (call chain too deep)"' % var
        body = fn.body()
        m = re.findall(r"\blet\s+(?:mut\s+)?%s\s*(?::[^=;]*)?=\s*([^;]*);" % re.escape(var), body)
        if m:
            if len(m) == 1 and re.match(r"code_info_breakpad_sym_lookup\(\w+\)\?$", norm(m[0])):
                return "ACodeInfoPath"
            return 'AUnknown "%s = %s"' % (var, norm(m[0])[:80].replace('"', "'"))
        idx = [i for i, (pn, _) in enumerate(fn.params) if pn == var]
        if not idx:
            return 'AUnknown "%s: no binding found in fn %s"' % (var, fn.name)
        calls = self.callers(fn.name)
        if not calls:
            return 'AUnknown "%s: parameter of fn %s, which has no caller in the crate"' % (var, fn.name)
        provs = []
        for caller, args in calls:
            if len(args) != len(fn.params):
                return 'AUnknown "%s: call of %s with %d arguments"' % (var, fn.name, len(args))
            a = self.strip_ref(args[idx[0]])
            provs.append(self.string_prov(caller, a, depth + 1) if re.match(r"\w+$", a)
                         else 'AUnknown "%s(.. %s ..)"' % (fn.name, norm(args[idx[0]])[:60].replace('"', "'")))
        uniq = list(dict.fromkeys(provs))
        return uniq[0] if len(uniq) == 1 else 'AUnknown "%s has several sources"' % var

    def arg_prov(self, fn, text):
        t = self.strip_ref(text)
        m = re.match(r"(\w+)\.(cache_rel|server_rel)$", t)
        if m:
            p = self.lookup_prov(fn, m.group(1))
            return "%s (%s)" % ("ACacheRel" if m.group(2) == "cache_rel" else "AServerRel", p)
        if re.match(r"\w+$", t):
            return self.string_prov(fn, t)
        return 'AUnknown "%s"' % norm(text)[:100].replace('"', "'")

    # ---- the root ------------------------------------------------------------------------------------------
    def root_prov(self, fn, recv, depth=0):
        r = self.strip_ref(recv)
        if depth > 6 or not re.match(r"[\w.]+$", r):
            return 'RUnknown "%s"' % norm(recv)[:80].replace('"', "'")
        if r == "self.cache":
            return "RCacheDir"
        body = fn.body()
        if re.search(r"\bfor\s+%s\s+in\s+(&\s*)?self\.paths(\.iter\(\))?\s*\{" % re.escape(r), body):
            return "RSymbolDir"
        idx = [i for i, (pn, pt) in enumerate(fn.params) if pn == r]
        if idx and not re.search(r"\blet\s+(mut\s+)?%s\b" % re.escape(r), body):
            calls = self.callers(fn.name)
            provs = []
            for caller, args in calls:
                if len(args) != len(fn.params):
                    return 'RUnknown "%s: call of %s with %d arguments"' % (r, fn.name, len(args))
                provs.append(self.root_prov(caller, args[idx[0]], depth + 1))
            uniq = list(dict.fromkeys(provs))
            if len(uniq) == 1:
                return uniq[0]
            return 'RUnknown "%s: %s"' % (r, "no caller in the crate" if not uniq else "several sources")
        return 'RUnknown "%s"' % r

    def url_root(self, fn, text, depth=0):
        r = self.strip_ref(text)
        if depth > 6 or not re.match(r"\w+$", r):
            return 'RUnknown "%s"' % norm(text)[:80].replace('"', "'")
        body = fn.body()
        if re.search(r"\bfor\s+%s\s+in\s+(&\s*)?(self\.urls|symbol_urls)\s*\{" % re.escape(r), body):
            if "self.urls" in body or any(pt in ("&Vec<Url>", "&[Url]") for _, pt in fn.params):
                return "RServerUrl"
        idx = [i for i, (pn, pt) in enumerate(fn.params) if pn == r and pt == "&Url"]
        if idx:
            calls = self.callers(fn.name)
            provs = []
            for caller, args in calls:
                if len(args) != len(fn.params):
                    return 'RUnknown "%s: call of %s with %d arguments"' % (r, fn.name, len(args))
                provs.append(self.url_root(caller, args[idx[0]], depth + 1))
            uniq = list(dict.fromkeys(provs))
            if len(uniq) == 1:
                return uniq[0]
            return 'RUnknown "%s: %s"' % (r, "no caller in the crate" if not uniq else "several sources")
        return 'RUnknown "%s"' % r


    # ---- provenance of a PATH-valued expression (for the filesystem sinks) ---------------------------------
    PATH_WRAPPERS = r"(\.clone\(\)|\.as_path\(\)|\.to_path_buf\(\)|\.as_ref\(\)|\.to_owned\(\))$"

    def strip_path(self, t):
        t = norm(t)
        while True:
            u = t
            while u.startswith("&"):
                u = u[1:]
            u = re.sub(self.PATH_WRAPPERS, "", u)
            if u == t:
                return t
            t = u

    def impl_of(self, label, pos):
        best = None
        src = self.srcs[label]
        for m in re.finditer(r"\bimpl\b[^{;]*\{", src):
            ce = match_close(src, m.end() - 1)
            if m.start() <= pos <= ce and (best is None or m.start() > best[0]):
                best = (m.start(), ce)
        return best

    def returned_paths(self, caller, name):
        """provenance of every `Ok(<expr>)` the method `name` of the caller's own impl block returns (self.locate_file(..))"""
        ext = self.impl_of(caller.label, caller.start)
        if ext is None:
            return None
        fs = [f for f in self.fns if f.label == caller.label and f.name == name and ext[0] <= f.start <= ext[1]]
        if len(fs) != 1:
            return None
        fn, body, out = fs[0], fs[0].body(), []
        for m in re.finditer(r"\bOk\s*\(", body):
            if re.search(r"\blet\s+$", body[:m.start()]):
                continue                                  # `if let Ok(x) = ...`: a pattern, not a returned value
            cl = match_close(body, m.end() - 1)
            out.append(self.path_prov(fn, body[m.end():cl], 1))
        return out or None

    # a path provenance is a python tuple: ("root", R) | ("join", R, A) | ("parent", p) | ("any", [p..]) | ("unk", why)
    def path_prov(self, fn, text, depth=0):
        t = self.strip_path(text)
        if depth > 6:
            return ("unk", "%s (call chain too deep)" % t[:60])
        if t == "self.cache":
            return ("root", "RCacheDir")
        if t == "self.tmp":
            return ("root", "RTmpDir")
        if not re.match(r"\w+$", t):
            return ("unk", t[:80])
        body = fn.body()
        # a PathBuf that is modified in place after it was built is not what it was bound to
        mm = re.search(r"\b%s\s*\.\s*(push|pop|set_file_name|set_extension|as_mut_os_string|clear)\s*\(" % re.escape(t), body)
        if mm:
            return ("unk", "%s is modified in place (.%s) in fn %s" % (t, mm.group(1), fn.name))
        if re.search(r"\bfor\s+%s\s+in\s+(&\s*)?self\.paths(\.iter\(\))?\s*\{" % re.escape(t), body):
            return ("root", "RSymbolDir")
        binds = re.findall(r"\blet\s+(?:mut\s+)?%s\s*(?::[^=;]*)?=\s*([^;]*);" % re.escape(t), body)
        if len(binds) > 1:
            return ("unk", "%s is bound more than once in fn %s" % (t, fn.name))
        if binds:
            b = binds[0]
            m = re.match(r"\s*([\w.]+)\s*\.join\s*\(", b)
            if m:
                cl = match_close(b, m.end() - 1)
                if norm(b[cl + 1:]) == "":
                    args = split_top(b[m.end():cl])
                    if len(args) == 1:
                        return ("join", self.root_prov(fn, m.group(1)), self.arg_prov(fn, args[0]))
            m = re.match(r"\s*(\w+)\s*\.parent\(\)", b)
            if m:
                return ("parent", self.path_prov(fn, m.group(1), depth + 1))
            m = re.match(r"\s*self\s*\.\s*(\w+)\s*\(", b)
            if m:
                rs = self.returned_paths(fn, m.group(1))
                if rs:
                    return ("any", rs)
            return ("unk", "%s = %s" % (t, norm(b)[:70]))
        idx = [i for i, (pn, pt) in enumerate(fn.params) if pn == t]
        if idx:
            calls = self.callers(fn.name)
            provs = []
            for caller, args in calls:
                if len(args) != len(fn.params):
                    return ("unk", "%s: call of %s with %d arguments" % (t, fn.name, len(args)))
                provs.append(self.path_prov(caller, args[idx[0]], depth + 1))
            if provs:
                return ("any", provs)
            return ("unk", "%s: parameter of fn %s, which has no caller in the crate" % (t, fn.name))
        return ("unk", "%s: no binding found in fn %s" % (t, fn.name))

    @staticmethod
    def flatten(p):
        """-> (number of .parent() applied, [leaf provenances]) ; leaves are root / join / unk"""
        if p[0] == "parent":
            n, leaves = Flow.flatten(p[1])
            return n + 1, leaves
        if p[0] == "any":
            parts = [Flow.flatten(x) for x in p[1]]
            ns = {n for n, _ in parts}
            if len(ns) != 1:
                return 0, [("unk", "alternatives with different numbers of .parent()")]
            leaves = []
            for _, ls in parts:
                for l in ls:
                    if l not in leaves:
                        leaves.append(l)
            return ns.pop(), leaves
        return 0, [p]

    SINKS = [r"\bfs\s*::\s*\w+\s*\(", r"\bFile\s*::\s*(?:create|open|create_new|options)\s*\(", r"\bOpenOptions\b[^;]*?\.open\s*\(",
             r"\bNamedTempFile\s*::\s*\w+\s*\(", r"\btempfile\s*::\s*\w+\s*\(", r"\.persist(?:_noclobber)?\s*\(",
             r"\bSymbolFile\s*::\s*from_file\s*\(", r"\bPathBuf\s*::\s*from\s*\(", r"\bPath\s*::\s*new\s*\("]
    PROBES = r"([\w.]+)\s*\.\s*(exists|is_file|is_dir|read_dir|canonicalize|metadata|symlink_metadata)\s*\(\s*\)"

    def sinks(self):
        """every call that opens / creates / removes / renames / probes a file system path, with the provenance of the path"""
        out = []
        for label, src in self.srcs.items():
            hits = []
            for pat in self.SINKS:
                for m in re.finditer(pat, src):
                    op = m.end() - 1
                    cl = match_close(src, op)
                    hits.append((m.start(), norm(src[m.start():cl + 1]), split_top(src[op + 1:cl])))
            for m in re.finditer(self.PROBES, src):
                if re.search(r"\|\s*%s\s*\|\s*$" % re.escape(m.group(1)), src[:m.start()]):
                    continue                              # `|m| m.is_file()`: a Metadata, not a path
                hits.append((m.start(), norm(m.group(0)), [m.group(1)]))
            for pos, text, args in sorted(hits):
                fn = self.enclosing(label, pos)
                if fn is None:
                    continue                              # a `use` line or an attribute
                if text.startswith(("fs::", "File::", "PathBuf::", "Path::")) and src[max(0, pos - 4):pos].endswith("use "):
                    continue
                if not args:
                    out.append((label, fn.name, text, ("unk", "no path argument")))
                    continue
                # rename / copy / hard_link take two paths
                n = 2 if re.match(r"fs::(rename|copy|hard_link|symlink)", text) else 1
                for a in args[:n]:
                    out.append((label, fn.name, text, self.path_prov(fn, a)))
        return out

    def sites(self):
        out = []
        for label, src in self.srcs.items():
            for m in re.finditer(r"\.join\s*\(|\bjoin_rel\s*\(", src):
                if src[max(0, m.start() - 3):m.start()] == "fn ":
                    continue
                op = src.find("(", m.start())
                cl = match_close(src, op)
                fn = self.enclosing(label, m.start())
                if fn is None:
                    die("%s: a join call outside any fn" % label)
                args = split_top(src[op + 1:cl])
                if m.group(0).startswith("."):
                    r0 = receiver_start(src, m.start())
                    recv = src[r0:m.start()]
                    text = norm(src[r0:cl + 1])
                    if fn.name in BUILDER_FNS:
                        continue                       # inside a path builder / join_rel: compiled by c17_lookup.py
                    if len(args) != 1:
                        die("%s fn %s: .join with %d arguments" % (label, fn.name, len(args)))
                    if norm(recv).startswith("[") or re.match(r'"[^"]*"$', norm(args[0])):
                        out.append((label, fn.name, text, 'RUnknown "slice join outside the path builders"', 'AUnknown "%s"' % text.replace('"', "'")))
                        continue
                    out.append((label, fn.name, text, self.root_prov(fn, recv), self.arg_prov(fn, args[0])))
                else:
                    text = norm(src[m.start():cl + 1])
                    if len(args) != 2:
                        die("%s fn %s: join_rel with %d arguments" % (label, fn.name, len(args)))
                    out.append((label, fn.name, text, self.url_root(fn, args[0]), self.arg_prov(fn, args[1])))
        return out


def main():
    if len(sys.argv) != 3:
        sys.stderr.write(__doc__)
        sys.exit(2)
    repo, outdir = sys.argv[1], sys.argv[2]
    fl = Flow(repo)
    sites = fl.sites()
    if not sites:
        die("no consumer join sites found (the extraction is broken)")
    def strip(term):
        return re.sub(r'(GUnknownLookup|AUnknown|RUnknown) "[^"]*"', r"\1", term)

    def whys(*terms):
        return "; ".join(w for t in terms for w in re.findall(r'(?:GUnknownLookup|AUnknown|RUnknown) "([^"]*)"', t))

    o = ["(* GENERATED by translate/c17_flow.py from breakpad-symbols/src/{lib,http}.rs — do not edit. *)",
         "From Coq Require Import List String ZArith.", "From RM Require Import C17.FlowModel.", "Import ListNotations.",
         "Open Scope string_scope.", "",
         "(* every join of the consumers: file, enclosing fn, call text, provenance of the root, provenance of the joined string,",
         "   and — for an unknown provenance — what the translator saw *)",
         "Definition g_consumer_joins : list g_site := ["]
    o.append(";\n".join('  {| s_file := "%s"; s_fn := "%s"; s_text := "%s";\n     s_root := %s; s_arg := %s; s_why := "%s" |}'
                        % (a, b, c.replace('"', '""'), strip(r), strip(g), whys(r, g).replace('"', "'")) for a, b, c, r, g in sites))
    o.append("].")
    sinks = fl.sinks()
    o += ["", "(* every call of the consumers that opens / creates / removes / probes a file system path, with the provenance of",
          "   that path: a root, the result of one of the joins above, the parent of such a path, or one of several *)",
          "Definition g_fs_sinks : list g_sink := ["]
    def leaf_term(l):
        if l[0] == "root":
            return "PRoot %s" % l[1], ""
        if l[0] == "join":
            return "PJoined (%s) (%s)" % (strip(l[1]), strip(l[2])), whys(l[1], l[2])
        return "PUnknownPath", l[1]

    rows = []
    for a_, b_, c_, pp in sinks:
        n, leaves = Flow.flatten(pp)
        terms = [leaf_term(l) for l in leaves]
        why = "; ".join(w for _, w in terms if w).replace('"', "'")
        rows.append('  {| k_file := "%s"; k_fn := "%s"; k_text := "%s"; k_parents := %d;\n     k_paths := [%s]; k_why := "%s" |}'
                    % (a_, b_, c_.replace('"', '""'), n, "; ".join(t for t, _ in terms), why))
    o.append(";\n".join(rows))
    o.append("].")
    o += ["", "(* the same table without Coq strings (fn name as bytes), for the extracted driver *)",
          "Definition g_flow_table : list (list Z * g_root * g_arg) := ["]
    o.append(";\n".join("  ([%s]%%Z, %s, %s)   (* %s *)" % ("; ".join(str(x) for x in b.encode()), strip(r), strip(g), b) for a, b, c, r, g in sites))
    o.append("].")
    content = "\n".join(o) + "\n"
    path = os.path.join(outdir, "C17Flow.v")
    os.makedirs(outdir, exist_ok=True)
    try:
        if open(path).read() == content:
            return
    except OSError:
        pass
    open(path, "w").write(content)


if __name__ == "__main__":
    main()
