#!/usr/bin/env python3
"""Translator for C17: WHAT the consumers join onto their roots -> coq/Gen/C17Flow.v
argv: <repo> <outdir>

For every `<recv>.join(<arg>)` / `join_rel(<base>, <arg>)` call in the non-test code of breakpad-symbols/src/lib.rs and
http.rs that is not inside one of the path builders (those are compiled by c17_lookup.py), this script derives, from the
source, the PROVENANCE of the joined string and of the root:
  arg   V.cache_rel / V.server_rel where V is bound (in the same fn, or — if V is a parameter — at every call site of the
        fn, followed transitively) by  lookup(module, kind) | breakpad_sym_lookup(m) | binary_lookup(m) |
        extra_debuginfo_lookup(m) | moz_lookup(W.clone());  or a string bound by code_info_breakpad_sym_lookup(m);
        anything else (a raw module name, FileLookup.debug_file, a formatted string ...) is recorded as AUnknown "<text>"
  root  `cache` (a &Path parameter fed from self.cache) | `path` of `for path in self.paths.iter()` | the base URL of
        join_rel; anything else RUnknown "<text>"
and writes the list g_consumer_joins.  coq/C17/FlowProofs.v proves that every entry is a KNOWN provenance (by computation:
an unknown one breaks the obligation and Coq prints it) and that, for every module and kind, what a known entry joins is a
safe relative path that stays below its root (by induction over the provenance terms, from the theorems on the generated
builders).  Unlike the textual pin of join_sites.py this follows the data: re-wiring a consumer to another safe lookup keeps
the theorem, joining anything that did not come out of a builder breaks it.
Aborts on text it cannot delimit."""
import os
import re
import sys

FILES = ["breakpad-symbols/src/lib.rs", "breakpad-symbols/src/http.rs"]
CRATE_DIR = "breakpad-symbols/src"          # the census and the sinks look at EVERY .rs file below it

# ---- the callee census (round 5, second pass) -------------------------------------------------------------------
# A file whose non-test code mentions one of these words can reach the file system / build paths: in such a file EVERY
# callee name (function path, method, macro) must be on the reviewed list KNOWN_CALLEES (or be a fn defined in the crate, or a
# constructor: last path segment capitalised); an unknown one aborts the translator.
PATH_WORDS = (r"\b(fs|tempfile|env|process|os)\s*::|\b(File|OpenOptions|Path|PathBuf|DirBuilder|Command)\s*::\s*[a-z_]|"
              r"\b(Path|PathBuf|NamedTempFile|TempDir|TempPath|OsStr|OsString|DirEntry|ReadDir|Mmap|memmap2?|libc|nix|AsRef)\b|"
              r"\buse\s+(std\s*::\s*)?(fs|path|env|process|os|tempfile)\b")
# callee names that reach the file system wherever they appear (any file of the crate): each occurrence must be one of the sinks
# whose path provenance is derived below (g_fs_sinks), else abort
SINK_PREFIXES = ("fs::", "File::", "OpenOptions::", "NamedTempFile::", "tempfile::", "Path::", "PathBuf::", "env::", "process::",
                 "Command::", "TempDir::", "DirBuilder::", "Builder::tempfile", "Builder::tempdir")
SINK_PATHS = {"SymbolFile::from_file"}
SINK_METHODS = {".exists", ".is_file", ".is_dir", ".read_dir", ".canonicalize", ".metadata", ".symlink_metadata", ".read_link",
                ".try_exists", ".persist", ".persist_noclobber", ".keep", ".into_temp_path", ".create_dir", ".create_dir_all",
                ".create_new", ".tempfile_in", ".tempdir_in", ".set_current_dir", ".open", ".create", ".from_file"}
# methods that build or change a path in place when the receiver is a Path / PathBuf (and are harmless on a String / Vec):
# every occurrence outside the compiled builders is listed in g_path_edits with the kind of its receiver
EDIT_METHODS = {".push", ".pop", ".set_file_name", ".set_extension", ".with_file_name", ".with_extension", ".extend", ".clear",
                ".as_mut_os_string", ".truncate", ".insert_str", ".add_extension", ".with_added_extension"}
KNOWN_CALLEES = set("""
.add_inline_frame .and_then .append_pair .as_bytes .as_mut .as_ref .as_slice .as_str .available_data .available_space .base_address
.binary_search_by_key .breakpad .build .bytes .cache_default .capacity .chars .checked_sub .chunk .clone .clone_from .cloned .code_file
.code_identifier .collect .consume .data .debug_file .debug_identifier .default .display .ends_with .err .error_for_status .exists
.file_entries .file_name .fill .fill_symbol .filter_map .find .find_nearest_public .finish .folder_entries .get .get_inlinee_at_depth
.get_innermost_sourceloc .get_instruction .get_outermost_sourceloc .get_symbols .grow .headers .insert .into_iter .into_owned
.is_ascii_alphabetic .is_dir .is_empty .is_file .is_none .is_some_and .iter .join .last .len .locate_file .locate_file_internal
.locate_symbols .lock .lookup_debug_info_by_code_info .map .map_err .map_or .name .next .nth .ok .ok_or .ok_or_else .or .or_else .parent
.parse_more .persist_noclobber .pop .position .push .push_str .query_pairs_mut .ranges_values .read .read_file .redirect .rev .rsplit
.saturating_mul .send .set_function .set_source_file .space .split .starts_with .status .strip_prefix .timeout .to_lowercase .to_path_buf
.to_str .to_string .to_string_lossy .to_uppercase .unwrap .unwrap_or .unwrap_or_default .walk_frame .write_all Arc::new Box::new
Buffer::with_capacity Cabinet::new CacheMap::default Client::builder Cow::Borrowed Cow::from Cursor::new DebugId::from_str
Default::default Error::from Error::new Error::other File::open FutMutex::new HashMap::new Mutex::default NamedTempFile::new_in
Policy::none Self::parse SimpleFrame::with_instruction SimpleModule::from_basic_info SimpleSymbolSupplier::new String::from
String::with_capacity SymbolFile::from_bytes SymbolFile::from_file SymbolFile::parse_async SymbolParser::new SymbolStats::default
Url::parse allow callback cfg cfg! crate::basename debug! derive doc error f fields format! fs::create_dir_all fs::metadata
fs::remove_file io::copy matches! not skip trace! tracing::instrument walker::walk_with_stack_cfi walker::walk_with_stack_win_fpo
walker::walk_with_stack_win_framedata warn!
""".split())
KEYWORDS = {"if", "while", "match", "for", "return", "in", "let", "as", "mut", "async", "move", "loop", "else", "impl", "dyn", "where",
            "pub", "crate", "super", "use", "fn", "unsafe", "ref", "break", "continue", "await", "struct", "enum", "type", "trait", "mod",
            "const", "static", "self", "Self"}


def blank_strings(src):
    """string literals replaced by blanks of the same length (positions stay aligned with the unblanked text)"""
    def rep(m):
        return '"' + " " * (len(m.group(0)) - 2) + '"'
    return re.sub(r'"(?:[^"\\]|\\.)*"', rep, src, flags=re.S)
BUILDERS = {"lookup": "BLookup", "breakpad_sym_lookup": "BBreakpadSym", "binary_lookup": "BBinary",
            "extra_debuginfo_lookup": "BExtraDebuginfo"}
BUILDER_FNS = {"leafname", "safe_leafname", "replace_or_add_extension", "breakpad_sym_lookup", "code_info_breakpad_sym_lookup",
               "extra_debuginfo_lookup", "binary_lookup", "moz_lookup", "lookup", "join_rel"}


def die(msg):
    sys.stderr.write("c17_flow.py: ABORT: " + msg + "\n")
    sys.exit(1)


def strip_comments(src):
    out, i, n = [], 0, len(src)
    while i < n:
        c = src[i]
        if c == '"':
            j = i + 1
            while j < n and src[j] != '"':
                j += 2 if src[j] == "\\" else 1
            out.append(src[i:j + 1])
            i = j + 1
        elif src.startswith("//", i):
            j = src.find("\n", i)
            i = n if j < 0 else j
        elif src.startswith("/*", i):
            j = src.find("*/", i)
            if j < 0:
                die("unterminated block comment")
            i = j + 2
        elif c == "'" and i + 2 < n and src[i + 2] == "'":
            out.append("'_'" if src[i + 1] in "(){}[]\"" else src[i:i + 3])
            i += 3
        elif c == "'" and src[i + 1:i + 2] == "\\" and i + 3 < n and src[i + 3] == "'":
            out.append(src[i:i + 4])
            i += 4
        else:
            out.append(c)
            i += 1
    return "".join(out)


def match_close(s, i):
    pairs = {"(": ")", "[": "]", "{": "}"}
    depth, j, n = 0, i, len(s)
    while j < n:
        c = s[j]
        if c == '"':
            j += 1
            while j < n and s[j] != '"':
                j += 2 if s[j] == "\\" else 1
        elif c in pairs:
            depth += 1
        elif c in pairs.values():
            depth -= 1
            if depth == 0:
                return j
        j += 1
    die("unbalanced bracket")


def split_top(s):
    out, depth, cur, i = [], 0, [], 0
    while i < len(s):
        c = s[i]
        if c == '"':
            j = i + 1
            while j < len(s) and s[j] != '"':
                j += 2 if s[j] == "\\" else 1
            cur.append(s[i:j + 1])
            i = j + 1
            continue
        if c in "([{<" and not (c == "<" and s[i - 1:i] == "-"):
            depth += 1
        elif c in ")]}>" and not (c == ">" and s[i - 1:i] in ("-", "=")):
            depth -= 1
        if c == "," and depth == 0:
            out.append("".join(cur))
            cur = []
        else:
            cur.append(c)
        i += 1
    if "".join(cur).strip():
        out.append("".join(cur))
    return [x.strip() for x in out]


def norm(t):
    return re.sub(r"\s+", "", t)


class Fn:
    def __init__(self, label, name, params, start, end, src):
        self.label, self.name, self.params, self.start, self.end, self.src = label, name, params, start, end, src

    def body(self):
        return self.src[self.start:self.end + 1]


def functions(label, src):
    fns = []
    for m in re.finditer(r"\bfn\s+(\w+)\s*(<[^>(]*>)?\s*\(", src):
        op = m.end() - 1
        cl = match_close(src, op)
        ob = src.find("{", cl)
        semi = src.find(";", cl)
        if ob < 0 or (0 <= semi < ob):
            continue                                  # a declaration without a body
        ce = match_close(src, ob)
        params = []
        for p in split_top(src[op + 1:cl]):
            p = p.strip()
            if not p or re.match(r"&?\s*(mut\s+)?self$", p):
                continue
            mm = re.match(r"(?:mut\s+)?(\w+)\s*:\s*(.*)$", p, re.S)
            if not mm:
                die("%s fn %s: cannot read the parameter `%s`" % (label, m.group(1), p))
            params.append((mm.group(1), norm(mm.group(2))))
        fns.append(Fn(label, m.group(1), params, ob, ce, src))
    return fns


def receiver_start(s, dot):
    closers = {")": "(", "]": "["}
    j = dot
    while j > 0:
        c = s[j - 1]
        if c.isalnum() or c in "_.?&":
            j -= 1
        elif c in closers:
            depth, k = 0, j - 1
            while k >= 0:
                if s[k] in closers:
                    depth += 1
                elif s[k] in closers.values():
                    depth -= 1
                    if depth == 0:
                        break
                k -= 1
            if k < 0:
                die("unbalanced receiver")
            j = k
        elif c in " \n\t" and s[j:dot].strip() == "":
            j -= 1
        else:
            break
    return j


class Flow:
    def __init__(self, repo):
        self.srcs, self.fns = {}, []
        root = os.path.join(repo, CRATE_DIR)
        files = list(FILES)
        for d, _, names in sorted(os.walk(root)):
            for nm in sorted(names):
                rel = os.path.relpath(os.path.join(d, nm), repo)
                if nm.endswith(".rs") and rel not in files:
                    files.append(rel)
        for f in files:
            p = os.path.join(repo, f)
            try:
                src = strip_comments(open(p).read())
            except OSError as e:
                die("cannot read %s: %s" % (f, e))
            cut = len(src)
            for m in re.finditer(r"\n\s*#\[(test|cfg\(test\))\]", src):
                cut = min(cut, m.start())
            label = os.path.relpath(f, CRATE_DIR)
            if label in self.srcs:
                die("two files with the label %s" % label)
            self.srcs[label] = src[:cut]
            self.fns += functions(label, src[:cut])

    def enclosing(self, label, pos):
        best = None
        for f in self.fns:
            if f.label == label and f.start <= pos <= f.end and (best is None or f.start > best.start):
                best = f
        return best

    def callers(self, name):
        """(caller fn, [arg texts]) for every call of `name` in the non-test code"""
        out = []
        for label, src in self.srcs.items():
            for m in re.finditer(r"(?<![\w])%s\s*\(" % re.escape(name), src):
                before = src[max(0, m.start() - 4):m.start()]
                if before.endswith("fn "):
                    continue
                op = m.end() - 1
                cl = match_close(src, op)
                f = self.enclosing(label, m.start())
                if f is None:
                    continue
                out.append((f, split_top(src[op + 1:cl])))
        return out

    @staticmethod
    def strip_ref(t):
        t = norm(t)
        while t.startswith("&"):
            t = t[1:]
        if t.startswith("mut") and not t[3:4].isalnum():
            t = t[3:]
        t = re.sub(r"(\.clone\(\)|\.as_str\(\)|\.as_ref\(\)|\[\.\.\])$", "", t)
        return t

    # ---- provenance of a FileLookup-valued variable ----------------------------------------------------
    def lookup_prov(self, fn, var, depth=0):
        if depth > 6:
            return 'GUnknownLookup "%s (call chain too deep)"' % var
        body = fn.body()
        found = []
        for m in list(re.finditer(r"\blet\s+(?:mut\s+)?%s\s*(?::[^=;]*)?=\s*(\w+)\s*\(" % re.escape(var), body)) + \
                list(re.finditer(r"\bif\s+let\s+Some\s*\(\s*%s\s*\)\s*=\s*(\w+)\s*\(" % re.escape(var), body)):
            cl = match_close(body, m.end() - 1)
            found.append((m.group(1), body[m.end():cl]))
        provs = []
        for callee, args in found:
            if callee in BUILDERS:
                provs.append("GBuilt %s" % BUILDERS[callee])
            elif callee == "moz_lookup":
                inner = self.strip_ref(args)
                if not re.match(r"\w+$", inner):
                    provs.append('GUnknownLookup "moz_lookup(%s)"' % norm(args))
                else:
                    provs.append("GMoz (%s)" % self.lookup_prov(fn, inner, depth + 1))
            else:
                provs.append('GUnknownLookup "%s = %s(%s)"' % (var, callee, norm(args)[:60]))
        if not provs and any(re.search(r"\b%s\b\s*(?::[^=;]*)?=[^=]" % re.escape(var), l) for l in re.findall(r"\blet\s[^;]*;", body)):
            return 'GUnknownLookup "%s is bound by an expression that is not a lookup builder"' % var
        if not provs:
            idx = [i for i, (pn, _) in enumerate(fn.params) if pn == var]
            if not idx:
                return 'GUnknownLookup "%s: no binding found in fn %s"' % (var, fn.name)
            calls = self.callers(fn.name)
            if not calls:
                return 'GUnknownLookup "%s: parameter of fn %s, which has no caller in the crate"' % (var, fn.name)
            for caller, args in calls:
                if len(args) != len(fn.params):
                    return 'GUnknownLookup "%s: call of %s with %d arguments"' % (var, fn.name, len(args))
                a = self.strip_ref(args[idx[0]])
                if not re.match(r"\w+$", a):
                    provs.append('GUnknownLookup "%s(.. %s ..)"' % (fn.name, norm(args[idx[0]])[:60]))
                else:
                    provs.append(self.lookup_prov(caller, a, depth + 1))
        uniq = list(dict.fromkeys(provs))
        if len(uniq) != 1:
            return 'GUnknownLookup "%s has several sources: %s"' % (var, " / ".join(uniq).replace('"', "'")[:200])
        return uniq[0]

    # ---- provenance of a string-valued variable (the code-info path) ------------------------------------
    def string_prov(self, fn, var, depth=0):
        if depth > 6:
            return 'AUnknown "%s (call chain too deep)"' % var
        body = fn.body()
        m = re.findall(r"\blet\s+(?:mut\s+)?%s\s*(?::[^=;]*)?=\s*([^;]*);" % re.escape(var), body)
        if m:
            if len(m) == 1 and re.match(r"code_info_breakpad_sym_lookup\(\w+\)\?$", norm(m[0])):
                return "ACodeInfoPath"
            return 'AUnknown "%s = %s"' % (var, norm(m[0])[:80].replace('"', "'"))
        idx = [i for i, (pn, _) in enumerate(fn.params) if pn == var]
        if not idx:
            return 'AUnknown "%s: no binding found in fn %s"' % (var, fn.name)
        calls = self.callers(fn.name)
        if not calls:
            return 'AUnknown "%s: parameter of fn %s, which has no caller in the crate"' % (var, fn.name)
        provs = []
        for caller, args in calls:
            if len(args) != len(fn.params):
                return 'AUnknown "%s: call of %s with %d arguments"' % (var, fn.name, len(args))
            a = self.strip_ref(args[idx[0]])
            provs.append(self.string_prov(caller, a, depth + 1) if re.match(r"\w+$", a)
                         else 'AUnknown "%s(.. %s ..)"' % (fn.name, norm(args[idx[0]])[:60].replace('"', "'")))
        uniq = list(dict.fromkeys(provs))
        return uniq[0] if len(uniq) == 1 else 'AUnknown "%s has several sources"' % var

    def arg_prov(self, fn, text):
        t = self.strip_ref(text)
        m = re.match(r"(\w+)\.(cache_rel|server_rel)$", t)
        if m:
            p = self.lookup_prov(fn, m.group(1))
            return "%s (%s)" % ("ACacheRel" if m.group(2) == "cache_rel" else "AServerRel", p)
        if re.match(r"\w+$", t):
            return self.string_prov(fn, t)
        return 'AUnknown "%s"' % norm(text)[:100].replace('"', "'")

    # ---- the root ------------------------------------------------------------------------------------------
    def root_prov(self, fn, recv, depth=0):
        r = self.strip_ref(recv)
        if depth > 6 or not re.match(r"[\w.]+$", r):
            return 'RUnknown "%s"' % norm(recv)[:80].replace('"', "'")
        if r == "self.cache":
            return "RCacheDir"
        body = fn.body()
        if re.search(r"\bfor\s+%s\s+in\s+(&\s*)?self\.paths(\.iter\(\))?\s*\{" % re.escape(r), body):
            return "RSymbolDir"
        idx = [i for i, (pn, pt) in enumerate(fn.params) if pn == r]
        if idx and not re.search(r"\blet\s+(mut\s+)?%s\b" % re.escape(r), body):
            calls = self.callers(fn.name)
            provs = []
            for caller, args in calls:
                if len(args) != len(fn.params):
                    return 'RUnknown "%s: call of %s with %d arguments"' % (r, fn.name, len(args))
                provs.append(self.root_prov(caller, args[idx[0]], depth + 1))
            uniq = list(dict.fromkeys(provs))
            if len(uniq) == 1:
                return uniq[0]
            return 'RUnknown "%s: %s"' % (r, "no caller in the crate" if not uniq else "several sources")
        return 'RUnknown "%s"' % r

    def url_root(self, fn, text, depth=0):
        r = self.strip_ref(text)
        if depth > 6 or not re.match(r"\w+$", r):
            return 'RUnknown "%s"' % norm(text)[:80].replace('"', "'")
        body = fn.body()
        if re.search(r"\bfor\s+%s\s+in\s+(&\s*)?(self\.urls|symbol_urls)\s*\{" % re.escape(r), body):
            if "self.urls" in body or any(pt in ("&Vec<Url>", "&[Url]") for _, pt in fn.params):
                return "RServerUrl"
        idx = [i for i, (pn, pt) in enumerate(fn.params) if pn == r and pt == "&Url"]
        if idx:
            calls = self.callers(fn.name)
            provs = []
            for caller, args in calls:
                if len(args) != len(fn.params):
                    return 'RUnknown "%s: call of %s with %d arguments"' % (r, fn.name, len(args))
                provs.append(self.url_root(caller, args[idx[0]], depth + 1))
            uniq = list(dict.fromkeys(provs))
            if len(uniq) == 1:
                return uniq[0]
            return 'RUnknown "%s: %s"' % (r, "no caller in the crate" if not uniq else "several sources")
        return 'RUnknown "%s"' % r


    # ---- provenance of a PATH-valued expression (for the filesystem sinks) ---------------------------------
    PATH_WRAPPERS = r"(\.clone\(\)|\.as_path\(\)|\.to_path_buf\(\)|\.as_ref\(\)|\.to_owned\(\))$"

    def strip_path(self, t):
        t = norm(t)
        while True:
            u = t
            while u.startswith("&"):
                u = u[1:]
            u = re.sub(self.PATH_WRAPPERS, "", u)
            if u == t:
                return t
            t = u

    def impl_of(self, label, pos):
        best = None
        src = self.srcs[label]
        for m in re.finditer(r"\bimpl\b[^{;]*\{", src):
            ce = match_close(src, m.end() - 1)
            if m.start() <= pos <= ce and (best is None or m.start() > best[0]):
                best = (m.start(), ce)
        return best

    def returned_paths(self, caller, name):
        """provenance of every `Ok(<expr>)` the method `name` of the caller's own impl block returns (self.locate_file(..))"""
        ext = self.impl_of(caller.label, caller.start)
        if ext is None:
            return None
        fs = [f for f in self.fns if f.label == caller.label and f.name == name and ext[0] <= f.start <= ext[1]]
        if len(fs) != 1:
            return None
        fn, body, out = fs[0], fs[0].body(), []
        for m in re.finditer(r"\bOk\s*\(", body):
            if re.search(r"\blet\s+$", body[:m.start()]):
                continue                                  # `if let Ok(x) = ...`: a pattern, not a returned value
            cl = match_close(body, m.end() - 1)
            out.append(self.path_prov(fn, body[m.end():cl], 1))
        return out or None

    # a path provenance is a python tuple: ("root", R) | ("join", R, A) | ("parent", p) | ("any", [p..]) | ("unk", why)
    def path_prov(self, fn, text, depth=0):
        t = self.strip_path(text)
        if depth > 6:
            return ("unk", "%s (call chain too deep)" % t[:60])
        if t == "self.cache":
            return ("root", "RCacheDir")
        if t == "self.tmp":
            return ("root", "RTmpDir")
        if not re.match(r"\w+$", t):
            return ("unk", t[:80])
        body = fn.body()
        # a PathBuf that is modified in place after it was built is not what it was bound to
        mm = re.search(r"\b%s\s*\.\s*(push|pop|set_file_name|set_extension|as_mut_os_string|clear)\s*\(" % re.escape(t), body)
        if mm:
            return ("unk", "%s is modified in place (.%s) in fn %s" % (t, mm.group(1), fn.name))
        if re.search(r"\bfor\s+%s\s+in\s+(&\s*)?self\.paths(\.iter\(\))?\s*\{" % re.escape(t), body):
            return ("root", "RSymbolDir")
        binds = re.findall(r"\blet\s+(?:mut\s+)?%s\s*(?::[^=;]*)?=\s*([^;]*);" % re.escape(t), body)
        if len(binds) > 1:
            return ("unk", "%s is bound more than once in fn %s" % (t, fn.name))
        if binds:
            b = binds[0]
            m = re.match(r"\s*([\w.]+)\s*\.join\s*\(", b)
            if m:
                cl = match_close(b, m.end() - 1)
                if norm(b[cl + 1:]) == "":
                    args = split_top(b[m.end():cl])
                    if len(args) == 1:
                        return ("join", self.root_prov(fn, m.group(1)), self.arg_prov(fn, args[0]))
            m = re.match(r"\s*(\w+)\s*\.parent\(\)", b)
            if m:
                return ("parent", self.path_prov(fn, m.group(1), depth + 1))
            m = re.match(r"\s*self\s*\.\s*(\w+)\s*\(", b)
            if m:
                rs = self.returned_paths(fn, m.group(1))
                if rs:
                    return ("any", rs)
            return ("unk", "%s = %s" % (t, norm(b)[:70]))
        idx = [i for i, (pn, pt) in enumerate(fn.params) if pn == t]
        if idx:
            calls = self.callers(fn.name)
            provs = []
            for caller, args in calls:
                if len(args) != len(fn.params):
                    return ("unk", "%s: call of %s with %d arguments" % (t, fn.name, len(args)))
                provs.append(self.path_prov(caller, args[idx[0]], depth + 1))
            if provs:
                return ("any", provs)
            return ("unk", "%s: parameter of fn %s, which has no caller in the crate" % (t, fn.name))
        return ("unk", "%s: no binding found in fn %s" % (t, fn.name))

    @staticmethod
    def flatten(p):
        """-> (number of .parent() applied, [leaf provenances]) ; leaves are root / join / unk"""
        if p[0] == "parent":
            n, leaves = Flow.flatten(p[1])
            return n + 1, leaves
        if p[0] == "any":
            parts = [Flow.flatten(x) for x in p[1]]
            ns = {n for n, _ in parts}
            if len(ns) != 1:
                return 0, [("unk", "alternatives with different numbers of .parent()")]
            leaves = []
            for _, ls in parts:
                for l in ls:
                    if l not in leaves:
                        leaves.append(l)
            return ns.pop(), leaves
        return 0, [p]

    SINKS = [r"\bfs\s*::\s*\w+\s*\(", r"\bFile\s*::\s*(?:create|open|create_new|options)\s*\(", r"\bOpenOptions\b[^;]*?\.open\s*\(",
             r"\bNamedTempFile\s*::\s*\w+\s*\(", r"\btempfile\s*::\s*\w+\s*\(", r"\.persist(?:_noclobber)?\s*\(",
             r"\bSymbolFile\s*::\s*from_file\s*\(", r"\bPathBuf\s*::\s*from\s*\(", r"\bPath\s*::\s*new\s*\("]
    PROBES = r"([\w.]+)\s*\.\s*(exists|is_file|is_dir|read_dir|canonicalize|metadata|symlink_metadata)\s*\(\s*\)"

    def sinks(self):
        """every call that opens / creates / removes / renames / probes a file system path, with the provenance of the path"""
        out = []
        self.sink_spans = {}                  # label -> [(start, end, text)] of every recognised sink call
        self.excused = []                     # probes on a Metadata value (not a path)
        for label, src in self.srcs.items():
            hits = []
            spans = self.sink_spans.setdefault(label, [])
            for pat in self.SINKS:
                for m in re.finditer(pat, src):
                    op = m.end() - 1
                    cl = match_close(src, op)
                    hits.append((m.start(), norm(src[m.start():cl + 1]), split_top(src[op + 1:cl])))
                    spans.append((m.start(), cl, norm(src[m.start():cl + 1])))
            # a binding declared with a path type: whatever it is built from (`.into()`, `.parse()?`, `From`, a formatted String)
            # is a path construction — its provenance must be known like that of a sink argument
            for m in re.finditer(r"\blet\s+(?:mut\s+)?(\w+)\s*:\s*&?\s*(?:mut\s+)?(?:std\s*::\s*path\s*::\s*)?(?:PathBuf|Path|OsString|OsStr)\b[^=;]*=", src):
                j, depth = m.end(), 0
                while j < len(src) and not (src[j] == ";" and depth == 0):
                    if src[j] in "([{":
                        depth += 1
                    elif src[j] in ")]}":
                        depth -= 1
                    j += 1
                hits.append((m.start(), norm(src[m.start():j]), [src[m.end():j]]))
                spans.append((m.start(), j, norm(src[m.start():j])))
            for m in re.finditer(self.PROBES, src):
                if re.search(r"\|\s*%s\s*\|\s*$" % re.escape(m.group(1)), src[:m.start()]):
                    # `|m| m.is_file()`: a Metadata, not a path — only as the closure of a combinator applied to fs::metadata(..)
                    stmt = src[max(src.rfind(";", 0, m.start()), src.rfind("{", 0, m.start())) + 1:m.start()]
                    if re.search(r"\bfs\s*::\s*(symlink_)?metadata\s*\(", stmt):
                        self.excused.append((label, m.start(), m.end(), norm(m.group(0))))
                        continue
                hits.append((m.start(), norm(m.group(0)), [m.group(1)]))
                spans.append((m.start(), m.end(), norm(m.group(0))))
            for pos, text, args in sorted(hits):
                fn = self.enclosing(label, pos)
                if fn is None:
                    continue                              # a `use` line or an attribute
                if text.startswith(("fs::", "File::", "PathBuf::", "Path::")) and src[max(0, pos - 4):pos].endswith("use "):
                    continue
                if not args:
                    out.append((label, fn.name, text, ("unk", "no path argument")))
                    continue
                # rename / copy / hard_link take two paths
                n = 2 if re.match(r"fs::(rename|copy|hard_link|symlink)", text) else 1
                for a in args[:n]:
                    out.append((label, fn.name, text, self.path_prov(fn, a)))
        return out

    CALL_RE = re.compile(r"(\.\s*)?((?:\w+\s*::\s*)*\w+)\s*(!)?")

    def calls(self, label):
        """every callee occurrence of one file: (key, position of the name, position of the opening bracket, is method)"""
        src = blank_strings(self.srcs[label])
        out, n = [], len(src)
        for m in self.CALL_RE.finditer(src):
            if not m.group(1) and m.start() > 0 and (src[m.start() - 1].isalnum() or src[m.start() - 1] == "_"):
                continue
            j = m.end()
            while j < n and src[j] in " \n\t":
                j += 1
            if src.startswith("::", j):                  # turbofish
                k = j + 2
                while k < n and src[k] in " \n\t":
                    k += 1
                if k < n and src[k] == "<":
                    depth = 0
                    while k < n:
                        if src[k] == "<":
                            depth += 1
                        elif src[k] == ">" and src[k - 1] != "-":
                            depth -= 1
                            if depth == 0:
                                break
                        k += 1
                    j = k + 1
                    while j < n and src[j] in " \n\t":
                        j += 1
            if j >= n:
                continue
            name = re.sub(r"\s+", "", m.group(2))
            segs = name.split("::")
            if m.group(3):
                if src[j] not in "([{":
                    continue
                key = name + "!"
            else:
                if src[j] != "(":
                    continue
                if segs[-1] in KEYWORDS or segs[-1].isdigit():
                    continue
                if src[max(0, m.start() - 3):m.start()] == "fn " or re.search(r"\bfn\s+$", src[max(0, m.start() - 8):m.start()]):
                    continue
                key = ("." + segs[-1]) if m.group(1) else "::".join(segs[-2:])
            out.append((key, m.end(2) - len(segs[-1]), j, bool(m.group(1))))
        return out

    def census(self):
        """The closed-world check of the callee names (see PATH_WORDS / KNOWN_CALLEES / SINK_* above).
        -> (summary dict, [sink calls (label, fn, text)], [edits (label, fn, text, kind)])"""
        local = {f.name for f in self.fns}
        closed, ncalls, names, sink_calls, edits = [], 0, set(), [], []
        for label in self.srcs:
            src = blank_strings(self.srcs[label])
            mw = re.search(PATH_WORDS, src)
            is_closed = mw is not None
            if is_closed:
                closed.append(label)
            # a file-system function mentioned without being called (passed as a value) cannot be followed
            for m in re.finditer(r"\b(fs|File|OpenOptions|NamedTempFile|tempfile|Path|PathBuf|env|process|Command|TempDir|DirBuilder)\s*::\s*(\w+)", src):
                fn = self.enclosing(label, m.start())
                if fn is None:
                    continue
                rest = src[m.end():m.end() + 40].lstrip()
                if not (rest.startswith("(") or rest.startswith("::")):
                    die("%s fn %s: `%s` is used as a value, not called — the census cannot follow it" % (label, fn.name, norm(m.group(0))))
            for key, pos, op, is_method in self.calls(label):
                fn = self.enclosing(label, pos)
                fname = fn.name if fn is not None else "-"
                ncalls += 1
                names.add(key)
                last = key.lstrip(".").rstrip("!").split("::")[-1]
                is_sink = key.startswith(SINK_PREFIXES) or key in SINK_PATHS or (is_method and key in SINK_METHODS)
                if is_sink and fn is not None:
                    cover = [t for (a, b, t) in self.sink_spans.get(label, []) if a <= pos <= b]
                    exc = [t for (l, a, b, t) in self.excused if l == label and a <= pos <= b]
                    if exc:
                        pass
                    elif not cover:
                        die("%s fn %s: the call of `%s` reaches the file system but is not among the sinks whose path is derived "
                            "(spelled in a way c17_flow.py does not know)" % (label, fname, key))
                    else:
                        sink_calls.append((label, fname, min(cover, key=len)))
                if not is_closed:
                    continue
                known = key in KNOWN_CALLEES or is_sink or (is_method and key in EDIT_METHODS) or (not is_method and not key.endswith("!") and last in local) \
                    or (is_method and last in local) or (not is_method and last[:1].isupper())
                if not known:
                    die("%s fn %s: unknown callee `%s` in a file that handles paths (it mentions `%s`) — review it and add it to "
                        "KNOWN_CALLEES (or to SINK_* if it takes a path)" % (label, fname, key, norm(mw.group(0))))
                if is_method and key in EDIT_METHODS and fn is not None and fn.name not in BUILDER_FNS:
                    cl = match_close(src, op)
                    r0 = receiver_start(src, src.rfind(".", 0, pos + 1))
                    real = self.srcs[label]
                    text = norm(real[r0:cl + 1])
                    edits.append((label, fname, text, self.edit_kind(fn, real, r0, src.rfind(".", 0, pos + 1), split_top(real[op + 1:cl]))))
        return ({"files": len(self.srcs), "closed": closed, "calls": ncalls, "names": len(names)}, sink_calls, edits)

    def edit_kind(self, fn, src, r0, dot, args):
        """what kind of value an in-place edit (.push / .pop / .set_file_name ...) is applied to"""
        recv = norm(src[r0:dot])
        a0 = norm(args[0]) if args else ""
        if re.match(r"'(\\.|[^'\\])'$", a0) and recv.count("(") == 0:
            return "EkString"                          # a char: String::push (PathBuf::push takes AsRef<Path>)
        mm = re.match(r"[&*]*(\w+)$", recv)
        if not mm:
            return "EkUnknown"
        base = mm.group(1)
        def of_type(t):
            if re.match(r"(&)?(mut)?Vec<PathBuf>$", t):
                return "rootlist"
            if "Path" in t or "OsStr" in t:
                return "EkPath"
            if re.match(r"(&)?(mut)?(String|str)$", t) or re.match(r"(&)?(mut)?(Vec|HashMap|BTreeMap|HashSet)<", t):
                return "EkString" if "tring" in t or t.endswith("str") else "EkVec"
            return None
        body = fn.body()
        kind = None
        binds = re.findall(r"\blet\s+(?:mut\s+)?%s\s*(?::\s*([^=;]*?))?=\s*([^;]*);" % re.escape(base), body)
        if len(binds) == 1:
            ty, ex = norm(binds[0][0] or ""), norm(binds[0][1])
            kind = of_type(ty) if ty else None
            if kind is None:
                if re.search(r"\.join\(|PathBuf|Path::|\.parent\(\)|\.to_path_buf\(\)|self\.cache|self\.tmp|self\.paths|current_dir|locate_file|\.with_file_name|\.with_extension", ex):
                    kind = "EkPath"
                elif re.match(r"(String::(new|with_capacity|from)\(|format!\()", ex) or re.search(r"\.(to_string|to_owned|into_owned|to_lowercase|to_uppercase)\(\)$", ex):
                    kind = "EkString"
                elif re.match(r"(Vec::(new|with_capacity)\(|vec!\[|HashMap::new\()", ex) or re.search(r"\.collect(::<[^;]*>)?\(\)$", ex):
                    kind = "EkVec"
        elif not binds:
            for pn, pt in fn.params:
                if pn == base:
                    kind = of_type(pt)
        if kind == "rootlist":
            a = self.strip_path(a0)
            if fn.name == "new" and any(pn == a and pt == "PathBuf" for pn, pt in fn.params):
                return "EkRootAdded"                   # the constructor adds one of its own root arguments to the list of roots
            return "EkPath"
        return kind or "EkUnknown"

    def server_url_norm(self):
        """the closure HttpSymbolSupplier::new maps over its `urls` argument, as normalised text"""
        cands = [f for f in self.fns if f.label == "http.rs" and f.name == "new" and any(pn == "urls" for pn, _ in f.params)]
        if len(cands) != 1:
            return "UnUnknown", "no unique fn new(urls, ..) in http.rs"
        body = cands[0].body()
        m = re.search(r"\blet\s+urls\s*=\s*urls\b", body)
        if not m:
            return "UnUnknown", "no `let urls = urls...;` in HttpSymbolSupplier::new"
        j, depth = m.end(), 0
        while j < len(body) and not (body[j] == ";" and depth == 0):
            if body[j] in "([{":
                depth += 1
            elif body[j] in ")]}":
                depth -= 1
            j += 1
        text = norm(body[m.end():j])
        want = ".into_iter().filter_map(|mutu|{if!u.ends_with('/'){u.push('/');}Url::parse(&u).ok()}).collect()"
        return ("UnAppendSlash" if text == want else "UnUnknown"), text[:300]

    def redirect_parse(self):
        """how individual_lookup_debug_info_by_code_info takes the debug file / id out of the Location header, as normalised text"""
        cands = [f for f in self.fns if f.label == "http.rs" and f.name == "individual_lookup_debug_info_by_code_info"]
        if len(cands) != 1:
            return "RpUnknown", "no unique fn individual_lookup_debug_info_by_code_info in http.rs"
        body = cands[0].body()
        a = body.find("let location_header")
        b = body.find("debug!", a if a >= 0 else 0)
        if a < 0 or b < 0:
            return "RpUnknown", "the Location handling of individual_lookup_debug_info_by_code_info was not found"
        text = norm(body[a:b])
        want = ('letlocation_header=res.headers().get("Location")?;letmutnew_url=location_header.to_str().ok()?;'
                "ifnew_url.starts_with('/'){new_url=new_url.strip_prefix('/').unwrap_or(new_url);}"
                "letmutparts=new_url.rsplit('/');letdebug_identifier_part=parts.nth(1)?;"
                "letdebug_identifier=DebugId::from_str(debug_identifier_part).ok()?;letdebug_file_part=parts.next()?;"
                "letdebug_file=String::from(debug_file_part);")
        return ("RpStripSlashRsplitNth1Next" if text == want else "RpUnknown"), text[:400]

    def sites(self):
        out = []
        for label, src in self.srcs.items():
            for m in re.finditer(r"\.join\s*\(|\bjoin_rel\s*\(", src):
                if src[max(0, m.start() - 3):m.start()] == "fn ":
                    continue
                op = src.find("(", m.start())
                cl = match_close(src, op)
                fn = self.enclosing(label, m.start())
                if fn is None:
                    die("%s: a join call outside any fn" % label)
                args = split_top(src[op + 1:cl])
                if m.group(0).startswith("."):
                    r0 = receiver_start(src, m.start())
                    recv = src[r0:m.start()]
                    text = norm(src[r0:cl + 1])
                    if fn.name in BUILDER_FNS:
                        continue                       # inside a path builder / join_rel: compiled by c17_lookup.py
                    if len(args) != 1:
                        die("%s fn %s: .join with %d arguments" % (label, fn.name, len(args)))
                    if norm(recv).startswith("[") or re.match(r'"[^"]*"$', norm(args[0])):
                        out.append((label, fn.name, text, 'RUnknown "slice join outside the path builders"', 'AUnknown "%s"' % text.replace('"', "'")))
                        continue
                    out.append((label, fn.name, text, self.root_prov(fn, recv), self.arg_prov(fn, args[0])))
                else:
                    text = norm(src[m.start():cl + 1])
                    if len(args) != 2:
                        die("%s fn %s: join_rel with %d arguments" % (label, fn.name, len(args)))
                    out.append((label, fn.name, text, self.url_root(fn, args[0]), self.arg_prov(fn, args[1])))
        return out


def main():
    if len(sys.argv) != 3:
        sys.stderr.write(__doc__)
        sys.exit(2)
    repo, outdir = sys.argv[1], sys.argv[2]
    fl = Flow(repo)
    sites = fl.sites()
    if not sites:
        die("no consumer join sites found (the extraction is broken)")
    def strip(term):
        return re.sub(r'(GUnknownLookup|AUnknown|RUnknown) "[^"]*"', r"\1", term)

    def whys(*terms):
        return "; ".join(w for t in terms for w in re.findall(r'(?:GUnknownLookup|AUnknown|RUnknown) "([^"]*)"', t))

    o = ["(* GENERATED by translate/c17_flow.py from breakpad-symbols/src/{lib,http}.rs — do not edit. *)",
         "From Coq Require Import List String ZArith.", "From RM Require Import C17.FlowModel.", "Import ListNotations.",
         "Open Scope string_scope.", "",
         "(* every join of the consumers: file, enclosing fn, call text, provenance of the root, provenance of the joined string,",
         "   and — for an unknown provenance — what the translator saw *)",
         "Definition g_consumer_joins : list g_site := ["]
    o.append(";\n".join('  {| s_file := "%s"; s_fn := "%s"; s_text := "%s";\n     s_root := %s; s_arg := %s; s_why := "%s" |}'
                        % (a, b, c.replace('"', '""'), strip(r), strip(g), whys(r, g).replace('"', "'")) for a, b, c, r, g in sites))
    o.append("].")
    sinks = fl.sinks()
    o += ["", "(* every call of the consumers that opens / creates / removes / probes a file system path, with the provenance of",
          "   that path: a root, the result of one of the joins above, the parent of such a path, or one of several *)",
          "Definition g_fs_sinks : list g_sink := ["]
    def leaf_term(l):
        if l[0] == "root":
            return "PRoot %s" % l[1], ""
        if l[0] == "join":
            return "PJoined (%s) (%s)" % (strip(l[1]), strip(l[2])), whys(l[1], l[2])
        return "PUnknownPath", l[1]

    rows = []
    for a_, b_, c_, pp in sinks:
        n, leaves = Flow.flatten(pp)
        terms = [leaf_term(l) for l in leaves]
        why = "; ".join(w for _, w in terms if w).replace('"', "'")
        rows.append('  {| k_file := "%s"; k_fn := "%s"; k_text := "%s"; k_parents := %d;\n     k_paths := [%s]; k_why := "%s" |}'
                    % (a_, b_, c_.replace('"', '""'), n, "; ".join(t for t, _ in terms), why))
    o.append(";\n".join(rows))
    o.append("].")
    summary, sink_calls, edits = fl.census()
    o += ["", "(* ---- the callee census over the whole crate (%d files, %d calls, %d distinct callee names) ----" % (summary["files"], summary["calls"], summary["names"]),
          "   files that mention a path / file-system word: every callee name in them is on the reviewed list of the translator *)",
          "Definition g_closed_files : list string := [%s]." % "; ".join('"%s"' % c for c in summary["closed"]),
          "(* every call, anywhere in the crate, of a callee that reaches the file system; each is one of g_fs_sinks *)",
          "Definition g_sink_calls : list (string * string * string) := ["]
    o.append(";\n".join('  ("%s", "%s", "%s")' % (a, b, c.replace('"', '""')) for a, b, c in sink_calls))
    o += ["].", "(* every in-place edit (.push / .pop / .set_file_name / .with_extension ...) outside the compiled builders, in those files,",
          "   with the kind of its receiver *)", "Definition g_path_edits : list g_edit := ["]
    o.append(";\n".join('  {| e_file := "%s"; e_fn := "%s"; e_text := "%s"; e_kind := %s |}' % (a, b, c.replace('"', '""'), k) for a, b, c, k in edits))
    o.append("].")
    # HttpSymbolSupplier::new: what is done to a server URL before Url::parse
    norm_kind, norm_text = fl.server_url_norm()
    o += ["", "(* http.rs HttpSymbolSupplier::new: the closure applied to every server URL string *)",
          'Definition g_server_url_norm_text : string := "%s".' % norm_text.replace('"', '""'),
          "Definition g_server_url_norm : g_url_norm := %s." % norm_kind]
    rp_kind, rp_text = fl.redirect_parse()
    o += ["", "(* http.rs individual_lookup_debug_info_by_code_info: from the Location header to (debug file, debug id) *)",
          'Definition g_redirect_parse_text : string := "%s".' % rp_text.replace('"', '""'),
          "Definition g_redirect_parse : g_redirect_parse_kind := %s." % rp_kind]
    o += ["", "(* the same table without Coq strings (fn name as bytes), for the extracted driver *)",
          "Definition g_flow_table : list (list Z * g_root * g_arg) := ["]
    o.append(";\n".join("  ([%s]%%Z, %s, %s)   (* %s *)" % ("; ".join(str(x) for x in b.encode()), strip(r), strip(g), b) for a, b, c, r, g in sites))
    o.append("].")
    content = "\n".join(o) + "\n"
    path = os.path.join(outdir, "C17Flow.v")
    os.makedirs(outdir, exist_ok=True)
    try:
        if open(path).read() == content:
            return
    except OSError:
        pass
    open(path, "w").write(content)


if __name__ == "__main__":
    main()
