#!/usr/bin/env python3
"""format_layouts.py <repo> <outdir>  ->  <outdir>/Layouts.v

Regenerates, from minidump-common/src/format.rs, the field lists of the MINIDUMP_* structs the
C02 dump model uses: every field in declaration order with its type (u8/u16/u32/u64/i16/i32/i64,
fixed arrays, nested structs), the stream-type numbers, the CodeView signatures, the platform ids
and the signature/version constants.  A re-ordered, re-typed, added or removed field changes
Layouts.v; coq/C02/Proofs.v pins each layout against the documented one (c02_layouts_documented),
and the encoder of the model is positional, so the correspondence run breaks as well.

Recognised Rust subset: `pub struct NAME { pub field: TYPE, ... }` preceded by a #[derive(..)] that
contains Pread (layout = declaration order, no padding: scroll's derive), the three CV_INFO_*
structs with their hand-written TryFromCtx (fixed prefix + trailing Vec<u8>), the multi_structs!
invocation for MINIDUMP_MISC_INFO*, `pub type X = uN;`, `pub const X: u32 = LIT;` and
`pub enum X { A = LIT, ... }`.  Anything else inside the structs asked for aborts (exit 2)."""
import os
import re
import sys

repo, outdir = sys.argv[1], sys.argv[2]
SRC = os.path.join(repo, "minidump-common/src/format.rs")
src = open(SRC).read()


def die(msg):
    sys.stderr.write("format_layouts.py: UNRECOGNISED SOURCE SYNTAX: %s\n" % msg)
    sys.exit(2)


def strip_comments(s):
    s = re.sub(r"/\*.*?\*/", "", s, flags=re.S)
    return re.sub(r"//[^\n]*", "", s)


code = strip_comments(src)

PRIMS = {"u8": ("LU", 1), "u16": ("LU", 2), "u32": ("LU", 4), "u64": ("LU", 8), "u128": ("LU", 16),
         "i8": ("LI", 1), "i16": ("LI", 2), "i32": ("LI", 4), "i64": ("LI", 8)}

aliases = {}
for name, ty in re.findall(r"pub type (\w+) = (\w+);", code):
    if ty not in PRIMS:
        die("type alias %s = %s" % (name, ty))
    aliases[name] = ty

WANT = [
    "MINIDUMP_HEADER", "MINIDUMP_LOCATION_DESCRIPTOR", "MINIDUMP_MEMORY_DESCRIPTOR", "MINIDUMP_MEMORY_DESCRIPTOR64",
    "MINIDUMP_DIRECTORY", "MINIDUMP_THREAD", "MINIDUMP_THREAD_NAME", "VS_FIXEDFILEINFO", "MINIDUMP_MODULE",
    "MINIDUMP_UNLOADED_MODULE", "GUID", "MINIDUMP_EXCEPTION", "MINIDUMP_EXCEPTION_STREAM", "CPU_INFORMATION",
    "X86CpuInfo", "ARMCpuInfo", "OtherCpuInfo", "MINIDUMP_SYSTEM_INFO", "MINIDUMP_MEMORY_INFO_LIST", "MINIDUMP_MEMORY_INFO",
    "SYSTEMTIME", "TIME_ZONE_INFORMATION", "XSTATE_FEATURE", "XSTATE_CONFIG_FEATURE_MSC_INFO",
    "FLOATING_SAVE_AREA_X86", "CONTEXT_X86", "CONTEXT_AMD64", "FLOATING_SAVE_AREA_ARM", "CONTEXT_ARM", "CONTEXT_ARM64",
]
CV = {"CV_INFO_PDB20": "pdb_file_name", "CV_INFO_PDB70": "pdb_file_name", "CV_INFO_ELF": "build_id"}
MISC = ["MINIDUMP_MISC_INFO", "MINIDUMP_MISC_INFO_2", "MINIDUMP_MISC_INFO_3", "MINIDUMP_MISC_INFO_4", "MINIDUMP_MISC_INFO_5"]


def matching_brace(s, i):
    """s[i] == '{' -> index of the matching '}'"""
    depth = 0
    for j in range(i, len(s)):
        if s[j] == "{":
            depth += 1
        elif s[j] == "}":
            depth -= 1
            if depth == 0:
                return j
    die("unbalanced braces")


def strip_attrs(body, where):
    out, i = [], 0
    while i < len(body):
        if body.startswith("#[", i):
            depth, j = 0, i + 1
            while j < len(body):
                if body[j] == "[":
                    depth += 1
                elif body[j] == "]":
                    depth -= 1
                    if depth == 0:
                        break
                j += 1
            else:
                die("%s: unterminated attribute" % where)
            i = j + 1
        else:
            out.append(body[i])
            i += 1
    return "".join(out)


def parse_fields(body, where):
    """`pub a: T, pub b: [T; N],` -> [(name, typeexpr)]"""
    fields = []
    body = strip_attrs(body, where)             # field attributes such as #[default([0; 512])]
    parts = [p.strip() for p in body.split(",")]
    # re-join array types that contain no commas (they never do: `[T; N]`)
    for p in parts:
        if not p:
            continue
        m = re.fullmatch(r"(?:pub\s+)?(\w+)\s*:\s*(.+)", p, re.S)
        if not m:
            die("%s: field declaration %r" % (where, p))
        fields.append((m.group(1), re.sub(r"\s+", " ", m.group(2).strip())))
    if not fields:
        die("%s: no fields" % where)
    return fields


structs = {}        # name -> [(field, typeexpr)]
derives = {}
skipped = {}        # name -> reason
macro_spans = []    # (start, end) of macro_rules! definitions and macro invocations: not scanned for plain structs
for m in re.finditer(r"\n(macro_rules! \w+|multi_structs!|multi_strings!|bitflags!)\s*\{", code):
    macro_spans.append((m.start(), matching_brace(code, m.end() - 1)))


def in_macro(pos):
    return any(a <= pos <= b for a, b in macro_spans)


for m in re.finditer(r"((?:#\[[^\n]*\]\s*)*)pub struct (\w+)\s*\{", code):
    if in_macro(m.start(2)):
        continue
    name = m.group(2)
    end = matching_brace(code, m.end() - 1)
    if name in structs or name in skipped:
        die("struct %s declared twice" % name)
    if name in CV:
        structs[name] = parse_fields(code[m.end():end], name)
        derives[name] = m.group(1)
    elif "Pread" in m.group(1) and "SizeWith" in m.group(1):
        structs[name] = parse_fields(code[m.end():end], name)
        derives[name] = m.group(1)
    else:
        skipped[name] = "no derive(Pread, SizeWith): hand-written or in-memory only"

# multi_structs! { pub struct A {..} pub struct B {..} ... }  (each includes its predecessors' fields)
if not re.search(r"\$\(#\[\$attr\]\)\*\s*#\[derive\(Debug, Clone, Pread, Pwrite, SizeWith\)\]\s*pub struct \$name \{\s*\$\( pub \$field: \$t, \)\*\s*\}", code):
    die("multi_structs! macro body changed")
multi_seen = []
for mm in re.finditer(r"\nmulti_structs!\s*\{", code):
    mend = matching_brace(code, mm.end() - 1)
    mbody = code[mm.end():mend]
    acc = []
    for m in re.finditer(r"pub struct (\w+)\s*\{", mbody):
        e = matching_brace(mbody, m.end() - 1)
        inner = mbody[m.end():e]
        acc = acc + (parse_fields(inner, m.group(1)) if inner.strip() else [])
        if not acc:
            die("multi_structs!: %s has no fields" % m.group(1))
        structs[m.group(1)] = list(acc)
        derives[m.group(1)] = "#[derive(Pread, SizeWith)]"
        multi_seen.append(m.group(1))
for n in MISC:
    if n not in multi_seen:
        die("multi_structs! does not declare %s" % n)
for mm in re.finditer(r"\nmulti_strings!\s*\{", code):
    mend = matching_brace(code, mm.end() - 1)
    for m in re.finditer(r"pub struct (\w+)\s*\{", code[mm.end():mend]):
        skipped[m.group(1)] = "multi_strings!: in-memory struct of Strings, not a wire layout"

for n in WANT + list(CV) + MISC:
    if n not in structs:
        die("struct %s not found" % n)
for n in WANT:
    if "Pread" not in derives[n] or "SizeWith" not in derives[n]:
        die("struct %s does not derive Pread+SizeWith: %r" % (n, derives[n]))

# CodeView records: hand-written readers; fixed prefix in declaration order, then the rest of the bytes
for n, tail in CV.items():
    fs = structs[n]
    if fs[-1] != (tail, "Vec<u8>"):
        die("%s: last field is %r" % (n, fs[-1]))
    m = re.search(r"impl(?:<'a>)? scroll::ctx::TryFromCtx<'(?:_|a), Endian> for %s \{(.*?)\n\}\n" % n, code, re.S)
    if not m:
        die("%s: TryFromCtx impl not found" % n)
    order = re.findall(r"\n\s+(\w+): (?:src\.gread_with\(offset, endian\)\?|\{)", m.group(1))
    if order != [f for f, _ in fs]:
        die("%s: TryFromCtx reads %s, struct declares %s" % (n, order, [f for f, _ in fs]))
    if not re.search(r"%s: \{\s*let size = src\.len\(\) - \*offset;\s*src\.gread_with::<&\[u8\]>\(offset, size\)\?\.to_owned\(\)\s*\}" % tail, m.group(1)):
        die("%s: tail read changed" % n)
    structs[n] = fs[:-1]


emitted = []
lines = []


class Unsupported(Exception):
    pass


def ty_expr(t, where):
    t = t.strip()
    if t in aliases:
        t = aliases[t]
    if t in PRIMS:
        return "(%s %d)" % PRIMS[t]
    m = re.fullmatch(r"\[\s*(.+?)\s*;\s*(\d+)(?:usize)?\s*\]", t)
    if m:
        return "(LArr %d %s)" % (int(m.group(2)), ty_expr(m.group(1), where))
    if t in structs and t not in CV:
        need(t)
        return "L_" + t
    raise Unsupported("%s: field type %r" % (where, t))


def need(n):
    if n in emitted:
        return
    fs = structs[n]
    exprs = [ty_expr(t, n + "." + f) for f, t in fs]
    if n in emitted:
        return
    emitted.append(n)
    body = "LNil"
    for e in reversed(exprs):
        body = "(LSeq %s %s)" % (e, body)
    lines.append("Definition L_%s : layout := %s." % (n, body))
    lines.append("Definition N_%s : list string := [%s]." % (n, "; ".join('"%s"' % f for f, _ in fs)))


required = set(WANT + list(CV) + MISC)
for n in list(structs):
    try:
        need(n)
    except Unsupported as e:
        if n in required:
            die(str(e))
        skipped[n] = "unsupported field: " + str(e)
for n in required:
    if n not in emitted:
        die("required struct %s was not emitted" % n)
lines.append("Definition ALL_LAYOUTS : list (string * layout) := [%s]." % "; ".join('("%s", L_%s)' % (n, n) for n in emitted))
lines.append("(* structs of format.rs without a layout here: %s *)" % "; ".join("%s (%s)" % (k, v.replace("*)", "* )")) for k, v in sorted(skipped.items())))


def intlit(s):
    s = s.strip().replace("_", "")
    try:
        return int(s, 16) if s.lower().startswith("0x") else int(s)
    except ValueError:
        die("integer literal %r" % s)


def const(name):
    ms = re.findall(r"pub const %s: u32 = ([^;]+);" % name, code)
    if len(ms) != 1:
        die("const %s" % name)
    return intlit(ms[0])


ENUM_VALUES = {}


def enum(name, wanted, prefix):
    m = re.search(r"pub enum %s \{" % name, code)
    if not m:
        die("enum %s" % name)
    e = matching_brace(code, m.end() - 1)
    vals = {}
    for item in code[m.end():e].split(","):
        item = item.strip()
        if not item:
            continue
        mm2 = re.fullmatch(r"(\w+)\s*=\s*([0-9a-fA-Fx_]+)", item)
        if not mm2:
            die("enum %s: variant %r" % (name, item))
        vals[mm2.group(1)] = intlit(mm2.group(2))
    out = []
    for w in wanted:
        if w not in vals:
            die("enum %s: variant %s missing" % (name, w))
        out.append("Definition %s%s : Z := %d." % (prefix, w, vals[w]))
    ENUM_VALUES[name] = dict(vals)
    return out



lines.append("Definition MINIDUMP_SIGNATURE : Z := %d." % const("MINIDUMP_SIGNATURE"))
lines.append("Definition MINIDUMP_VERSION : Z := %d." % const("MINIDUMP_VERSION"))
lines.append("Definition VS_FFI_SIGNATURE : Z := %d." % const("VS_FFI_SIGNATURE"))
lines.append("Definition VS_FFI_STRUCVERSION : Z := %d." % const("VS_FFI_STRUCVERSION"))
lines += enum("MINIDUMP_STREAM_TYPE", ["UnusedStream", "ThreadListStream", "ModuleListStream", "MemoryListStream", "ExceptionStream",
                                      "SystemInfoStream", "Memory64ListStream", "UnloadedModuleListStream", "MiscInfoStream",
                                      "MemoryInfoListStream", "ThreadNamesStream", "HandleDataStream", "ThreadInfoListStream",
                                      "BreakpadInfoStream", "AssertionInfoStream", "LinuxCpuInfo", "LinuxProcStatus", "LinuxLsbRelease",
                                      "LinuxCmdLine", "LinuxEnviron", "LinuxAuxv", "LinuxMaps", "LinuxDsoDebug", "CrashpadInfoStream",
                                      "MozMacosCrashInfoStream", "MozMacosBootargsStream", "MozLinuxLimits", "MozSoftErrors"], "ST_")
# every value MINIDUMP_STREAM_TYPE names (what `from_u32` accepts), in declaration order; the enum must derive FromPrimitive
if not re.search(r"#\[derive\([^)]*FromPrimitive[^)]*\)\]\s*pub enum MINIDUMP_STREAM_TYPE", code):
    die("MINIDUMP_STREAM_TYPE no longer derives FromPrimitive (from_u32 = membership in the declared values)")
_st = ENUM_VALUES["MINIDUMP_STREAM_TYPE"]
if len(set(_st.values())) != len(_st):
    die("MINIDUMP_STREAM_TYPE: two variants share a value")
lines.append("Definition ST_LastReservedStream : Z := %d." % _st["LastReservedStream"])
lines.append("Definition ST_ALL_NAMED : list Z := [%s]." % "; ".join(str(v) for v in _st.values()))
m = re.search(r"pub struct ContextFlagsCpu: u32 \{(.*?)\n    \}", code, re.S)
if not m:
    die("ContextFlagsCpu")
cpu_flags = {}
for item in m.group(1).split(";"):
    item = item.strip()
    if not item:
        continue
    mm3 = re.fullmatch(r"const (\w+) = (0x[0-9a-fA-F]+)", item)
    if not mm3:
        die("ContextFlagsCpu item %r" % item)
    cpu_flags[mm3.group(1)] = int(mm3.group(2), 16)
allbits = 0
for v in cpu_flags.values():
    allbits |= v
for need_flag in ("CONTEXT_X86", "CONTEXT_AMD64", "CONTEXT_ARM", "CONTEXT_ARM64", "CONTEXT_ARM64_OLD", "CONTEXT_MIPS", "CONTEXT_PPC",
                  "CONTEXT_PPC64", "CONTEXT_SPARC"):
    if need_flag not in cpu_flags:
        die("ContextFlagsCpu::%s" % need_flag)
    lines.append("Definition CF_%s : Z := %d." % (need_flag, cpu_flags[need_flag]))
lines.append("Definition CF_ALL_BITS : Z := %d." % allbits)
lines.append("Definition CONTEXT_CPU_MASK : Z := %d." % const("CONTEXT_CPU_MASK"))
if not re.search(r"pub fn from_flags\(flags: u32\) -> ContextFlagsCpu \{\s*ContextFlagsCpu::from_bits_truncate\(flags & CONTEXT_CPU_MASK\)\s*\}", code):
    die("ContextFlagsCpu::from_flags changed")
lines += enum("ProcessorArchitecture", ["PROCESSOR_ARCHITECTURE_INTEL", "PROCESSOR_ARCHITECTURE_ARM", "PROCESSOR_ARCHITECTURE_AMD64",
                                        "PROCESSOR_ARCHITECTURE_IA32_ON_WIN64", "PROCESSOR_ARCHITECTURE_ARM64", "PROCESSOR_ARCHITECTURE_MIPS",
                                        "PROCESSOR_ARCHITECTURE_PPC", "PROCESSOR_ARCHITECTURE_SPARC", "PROCESSOR_ARCHITECTURE_PPC64",
                                        "PROCESSOR_ARCHITECTURE_ARM64_OLD", "PROCESSOR_ARCHITECTURE_MIPS64"], "")
lines += enum("CvSignature", ["Pdb20", "Pdb70", "Elf"], "CV_SIG_")
lines += enum("PlatformId", ["VER_PLATFORM_WIN32_WINDOWS", "VER_PLATFORM_WIN32_NT", "MacOs", "Ios", "Linux", "Solaris", "Android", "Ps3", "NaCl"], "PLATFORM_")

out = ("(* GENERATED by translate/format_layouts.py from minidump-common/src/format.rs — do not edit *)\n"
       "From Coq Require Import ZArith List String.\nFrom RM Require Import C02.Layout.\n"
       "Import ListNotations.\nOpen Scope string_scope.\nOpen Scope Z_scope.\n" + "\n".join(lines) + "\n")
os.makedirs(outdir, exist_ok=True)
p = os.path.join(outdir, "Layouts.v")
try:
    same = open(p).read() == out
except OSError:
    same = False
if not same:
    open(p, "w").write(out)
