#!/usr/bin/env python3
"""Translator (C07): what `stack_win_line` (breakpad-symbols/src/sym_file/parser.rs) does with the fields of a
STACK WIN line once nom has split them: regenerates coq/Gen/C07WinLine.v with
  * g_line_fields      the fields of the line in order, each with the combinator that reads it
                       (hex digit / hex u64 / hex u32 / digit flag / rest of line)
  * g_stack_win_line   type / has_program_string consistency, ProgramString vs AllocatesBasePointer(rest == "1"),
                       which parsed field goes into which StackInfoWin field, FrameData / Fpo / Unhandled by type.
Everything is extracted from the source text (bytes, strings, comparison operators, the field mapping, the arms);
the statement skeleton around them is pinned.  Aborts (exit 1) on anything it does not recognise.
argv: <repo> <outdir>."""
import os
import re
import sys

repo, outdir = sys.argv[1], sys.argv[2]


def die(msg):
    sys.stderr.write("c07_win_line.py: " + msg + "\n")
    sys.exit(1)


def norm(s):
    s = re.sub(r"//[^\n]*", "", s)
    return re.sub(r"\s+", "", s)


def blit(s):
    return "[" + "; ".join(str(b) for b in s.encode()) + "]"


src = open(os.path.join(repo, "breakpad-symbols/src/sym_file/parser.rs")).read()
m = re.search(r"\nfn stack_win_line\(input: &\[u8\]\) -> IResult<&\[u8\], WinFrameType> \{\n", src)
if not m:
    die("fn stack_win_line(input: &[u8]) -> IResult<&[u8], WinFrameType> not found")
end = src.index("\n}\n", m.end())
body = norm(src[m.end():end])

# ---- 1. the nom part: tag, the tuple of bound names, the tuple of combinators
m = re.match(r'^let\(input,_\)=terminated\(tag\("STACK WIN"\),space1\)\(input\)\?;let\(input,\(([a-z_,]+)\),\)=cut\(tuple\(\((.*?)\)\)\)\(input\)\?;(.*)$'.replace(" ", ""), body)
if not m:
    die("stack_win_line: the nom part (tag, destructuring tuple, cut(tuple((..)))(input)?) changed: " + body[:300])
names = [n for n in m.group(1).split(",") if n]
combs_txt, tail = m.group(2), m.group(3)
# split the combinators at top-level commas
combs, depth, cur = [], 0, ""
for ch in combs_txt:
    if ch in "([{":
        depth += 1
    elif ch in ")]}":
        depth -= 1
    if ch == "," and depth == 0:
        combs.append(cur)
        cur = ""
    else:
        cur += ch
if cur:
    combs.append(cur)
if len(combs) != len(names):
    die("stack_win_line: %d bound names but %d combinators" % (len(names), len(combs)))
KINDS = {"terminated(single(is_hex_digit),space1)": 0, "terminated(hex_str::<u64>,space1)": 64, "terminated(hex_str::<u32>,space1)": 32,
         "terminated(map_res(not_my_eol,str::from_utf8),my_eol)": 2}
fields, flag_byte, flag_name = [], None, None
for n, c in zip(names, combs):
    mm = re.match(r"^terminated\(map\(single\(is_digit\),\|b\|b==b'(.)'\),space1\)$", c)
    if mm:
        if flag_byte is not None:
            die("stack_win_line: two digit-flag fields")
        flag_byte, flag_name = ord(mm.group(1)), n
        fields.append((n, 1))
    elif c in KINDS:
        fields.append((n, KINDS[c]))
    else:
        die("stack_win_line: unrecognised combinator for field %s: %s" % (n, c))
if flag_name is None:
    die("stack_win_line: no digit-flag field (has_program_string)")
kinds = dict(fields)
EXPECT_ARGS = ["ty", "address", "code_size", "prologue_size", "epilogue_size", "parameter_size", "saved_register_size", "local_size",
               "max_stack_size", "has_program_string", "rest"]
if sorted(names) != sorted(EXPECT_ARGS):
    die("stack_win_line: the set of parsed fields changed: %s" % names)
if kinds["ty"] != 0 or kinds["rest"] != 2 or flag_name != "has_program_string":
    die("stack_win_line: ty / has_program_string / rest are not read by the expected kind of combinator")

# ---- 2. the tail
# drop warn!(..) calls and the `let kind = match ty {..};` that only feeds them
def drop_macros(s, name):
    while True:
        i = s.find(name + "!(")
        if i < 0:
            return s
        d, j = 0, i + len(name) + 1
        while True:
            if s[j] == '"':
                j = s.index('"', j + 1)
            elif s[j] == "(":
                d += 1
            elif s[j] == ")":
                d -= 1
                if d == 0:
                    break
            j += 1
        if s[j + 1] != ";":
            die("stack_win_line: %s!(..) not followed by `;`" % name)
        s = s[:i] + s[j + 2:]


tail = drop_macros(tail, "warn")
tail = re.sub(r"letkind=matchty\{(?:b'.'=>\"[^\"]*\",)*_=>\"[^\"]*\",\};", "", tail)
m = re.match(r"^letreally_has_program_string=ty==b'(.)';"
             r"ifreally_has_program_string(!=|==)has_program_string\{returnOk\(\(input,WinFrameType::Unhandled\)\);\}"
             r"letprogram_string_or_base_pointer=if(!?)(really_has_program_string|has_program_string)"
             r"\{WinStackThing::ProgramString\(rest\.to_string\(\)\)\}else\{WinStackThing::AllocatesBasePointer\(rest(==|!=)\"([^\"\\]*)\"\)\};"
             r"letinfo=StackInfoWin\{([a-z_:,]+)\};"
             r"letframe_type=matchty\{((?:b'.'=>WinFrameType::(?:FrameData|Fpo)\(info\),)*)_=>WinFrameType::Unhandled,\};"
             r"Ok\(\(input,frame_type\)\)$", tail)
if not m:
    die("stack_win_line: the part after the nom tuple changed: " + tail[:700])
really_byte, cons_op, thing_neg, thing_var, abp_op, abp_str, lit_txt, arms_txt = m.groups()
# struct literal
STRUCT = ["address", "size", "prologue_size", "epilogue_size", "parameter_size", "saved_register_size", "local_size", "max_stack_size",
          "program_string_or_base_pointer"]
got = {}
for f in [x for x in lit_txt.split(",") if x]:
    k, v = f.split(":") if ":" in f else (f, f)
    if k in got:
        die("stack_win_line: StackInfoWin field %s given twice" % k)
    got[k] = v
if sorted(got) != sorted(STRUCT):
    die("stack_win_line: StackInfoWin literal has fields %s" % sorted(got))
WIDTH = {"address": 64, "size": 32, "prologue_size": 32, "epilogue_size": 32, "parameter_size": 32, "saved_register_size": 32,
         "local_size": 32, "max_stack_size": 32}
args = []
for k in STRUCT[:-1]:
    v = got[k]
    if v not in kinds or kinds[v] != WIDTH[k]:
        die("stack_win_line: StackInfoWin.%s is filled from `%s`, which is not a parsed u%d field" % (k, v, WIDTH[k]))
    args.append(v)
if got["program_string_or_base_pointer"] != "program_string_or_base_pointer":
    die("stack_win_line: StackInfoWin.program_string_or_base_pointer is filled from " + got["program_string_or_base_pointer"])
arms = re.findall(r"b'(.)'=>WinFrameType::(FrameData|Fpo)\(info\),", arms_txt)
if len({a for a, _ in arms}) != len(arms):
    die("stack_win_line: duplicate type arm")

cond = "%s%s" % ("negb " if thing_neg else "", thing_var)
cons = "negb (Bool.eqb really_has_program_string has_program_string)" if cons_op == "!=" else "Bool.eqb really_has_program_string has_program_string"
abp = "beq rest %s" % blit(abp_str)
if abp_op == "!=":
    abp = "negb (%s)" % abp
chain = ""
for b, ctor in arms:
    chain += "if ty =? %d (* '%s' *) then %s info else " % (ord(b), b, ctor)
chain += "Unhandled"
KNAME = {0: "hex digit", 64: "hex u64", 32: "hex u32", 1: "digit == '%s'" % chr(flag_byte), 2: "rest of the line"}
out = """(* GENERATED by translate/c07_win_line.py from breakpad-symbols/src/sym_file/parser.rs (fn stack_win_line) — do not edit *)
From RM Require Import Base.Word C06.Model C07.Model.
Open Scope Z_scope.

(* the fields of a STACK WIN line in the order nom reads them; kind: 0 = one hex digit, 64 / 32 = hex number of that
   width, 1 = one decimal digit (a flag), 2 = the rest of the line *)
Definition g_line_fields : list (bytes * Z) :=
  [%s].
(* %s *)

(* the arguments are the parsed fields in that order; has_program_string_digit is the digit character as read *)
Definition g_stack_win_line (%s : Z) (has_program_string_digit : Z) (rest : bytes) : win_frame_type :=
  let has_program_string := (has_program_string_digit =? %d) in
  let really_has_program_string := (ty =? %d) in
  if %s then Unhandled
  else
    let program_string_or_base_pointer := if %s then ProgramString rest else AllocatesBasePointer (%s) in
    let info := mkWin %s program_string_or_base_pointer in
    %s.
""" % (";\n   ".join("(%s, %d)" % (blit(n), k) for n, k in fields),
       ", ".join("%s: %s" % (n, KNAME[k]) for n, k in fields),
       " ".join(n for n in names if n not in ("has_program_string", "rest")),
       flag_byte, ord(really_byte), cons, cond, abp, " ".join(args), chain)
if names[-2:] != ["has_program_string", "rest"]:
    die("stack_win_line: has_program_string and rest are no longer the last two fields")
path = os.path.join(outdir, "C07WinLine.v")
os.makedirs(outdir, exist_ok=True)
try:
    if open(path).read() == out:
        sys.exit(0)
except OSError:
    pass
open(path, "w").write(out)
