#!/usr/bin/env python3
"""Translator for C17: the symbol lookup path builders -> coq/Gen/C17Lookup.v
argv: <repo> <outdir>

Compiles, from the Rust source of every run's checkout,
  breakpad-symbols/src/lib.rs   leafname, safe_leafname, replace_or_add_extension, breakpad_sym_lookup,
                                code_info_breakpad_sym_lookup, extra_debuginfo_lookup, binary_lookup, moz_lookup, lookup
  breakpad-symbols/src/http.rs  join_rel (the set of characters it percent-encodes; the rest of the body is pinned text)
into Gallina functions g_<name> over the vocabulary of coq/C17/Prims.v (one definition per std operation).
This is a small compiler, not a template: the function bodies are tokenised, parsed (let / if / return / `?` / match /
closures / method chains / slices / array and struct literals / matches!) and lowered with a type-directed table of the std
methods the translator knows.  The order of the steps, which separator is searched first, which emptiness test is made,
which leaf goes into which path position: all of it ends up in the generated definitions.  coq/C17/Tie.v proves
g_* = the hand-written model (C17/Model.v) for all inputs and C17/Properties.v states the property on the g_* functions,
so a rewritten leafname / safe_leafname / builder either changes the generated model (and breaks the tie, while the
correspondence run keeps comparing the NEW generated model with the code) or, if it uses Rust the translator does not know,
makes this script abort (reported by the runner as a broken tie).  Nothing is guessed.

FileLookup.debug_id / .debug_file are not part of the model's record; their initialisers must be one of the known
texts (FIELD_PINS), otherwise the script aborts."""
import os
import re
import sys


def die(msg):
    sys.stderr.write("c17_lookup.py: ABORT: " + msg + "\n")
    sys.exit(1)


# ------------------------------------------------------------------------------------------ lexer
PUNCT3 = ["..=", "<<=", ">>="]
PUNCT2 = ["::", "->", "=>", "..", "||", "&&", "==", "!=", "<=", ">=", "+=", "-="]
ESC = {"n": 10, "r": 13, "t": 9, "\\": 92, "0": 0, "'": 39, '"': 34}


def unescape(body, what):
    out, i = [], 0
    while i < len(body):
        c = body[i]
        if c == "\\":
            n = body[i + 1]
            if n == "x":
                out.append(int(body[i + 2:i + 4], 16))
                i += 4
            elif n == "u":
                j = body.index("}", i)
                out += list(chr(int(body[i + 3:j], 16)).encode("utf-8"))
                i = j + 1
            elif n in ESC:
                out.append(ESC[n])
                i += 2
            else:
                die("unknown escape in %s literal %r" % (what, body))
        else:
            out += list(c.encode("utf-8"))
            i += 1
    return out


def lex(src):
    toks, i, n = [], 0, len(src)
    while i < n:
        c = src[i]
        if c.isspace():
            i += 1
        elif src.startswith("//", i):
            j = src.find("\n", i)
            i = n if j < 0 else j
        elif src.startswith("/*", i):
            j = src.find("*/", i)
            if j < 0:
                die("unterminated block comment")
            i = j + 2
        elif c == '"' or (c == "b" and src[i + 1:i + 2] == '"'):
            k = i + (2 if c == "b" else 1)
            j = k
            while j < n and src[j] != '"':
                j += 2 if src[j] == "\\" else 1
            toks.append(("str", unescape(src[k:j], "string")))
            i = j + 1
        elif c == "'" or (c == "b" and src[i + 1:i + 2] == "'"):
            k = i + (2 if c == "b" else 1)
            m = re.match(r"(\\x[0-9a-fA-F]{2}|\\u\{[0-9a-fA-F]+\}|\\.|[^\\'])'", src[k:])
            if m:
                v = unescape(m.group(1), "char")
                toks.append(("chr", v))
                i = k + m.end()
            elif c == "'":
                m = re.match(r"'[A-Za-z_]\w*", src[i:])
                if not m:
                    die("cannot lex near %r" % src[i:i + 20])
                toks.append(("life", m.group(0)))
                i += m.end()
            else:
                die("cannot lex near %r" % src[i:i + 20])
        elif c.isalpha() or c == "_":
            m = re.match(r"\w+", src[i:])
            toks.append(("id", m.group(0)))
            i += m.end()
        elif c.isdigit():
            m = re.match(r"\d[\d_]*(usize|u32|u64|u8|i32|i64)?", src[i:])
            toks.append(("num", int(re.sub(r"[^\d]", "", re.sub(r"(usize|u32|u64|u8|i32|i64)$", "", m.group(0))))))
            i += m.end()
        else:
            for p in PUNCT3 + PUNCT2:
                if src.startswith(p, i):
                    toks.append(("p", p))
                    i += len(p)
                    break
            else:
                toks.append(("p", c))
                i += 1
    return toks


# ------------------------------------------------------------------------------------------ parser
class P:
    def __init__(self, toks, what):
        self.t, self.i, self.what = toks, 0, what

    def peek(self, k=0):
        return self.t[self.i + k] if self.i + k < len(self.t) else ("eof", None)

    def at(self, text, k=0):
        t = self.peek(k)
        return t[0] in ("p", "id") and t[1] == text

    def eat(self, text):
        if not self.at(text):
            die("%s: expected %r, found %r" % (self.what, text, self.peek()))
        self.i += 1

    def opt(self, text):
        if self.at(text):
            self.i += 1
            return True
        return False

    def ident(self):
        t = self.peek()
        if t[0] != "id":
            die("%s: expected an identifier, found %r" % (self.what, t))
        self.i += 1
        return t[1]

    # types are skipped textually (balanced <>, (), [])
    def skip_type(self, stop):
        depth, out = 0, []
        while True:
            t = self.peek()
            if t[0] == "eof":
                die("%s: unterminated type" % self.what)
            if depth == 0 and t[0] == "p" and t[1] in stop:
                return "".join(out)
            if t[0] == "p" and t[1] in "<([":
                depth += 1
            elif t[0] == "p" and t[1] in ">)]":
                depth -= 1
            elif t[0] == "p" and t[1] == "->":
                pass
            out.append(str(t[1]) if t[0] != "life" else t[1] + " ")
            if t[0] == "id" and t[1] in ("dyn", "mut", "impl"):
                out.append(" ")
            self.i += 1

    def block(self):
        self.eat("{")
        stmts, tail = [], None
        while not self.at("}"):
            if self.opt("let"):
                mut = self.opt("mut")
                pat = self.pattern()
                if self.opt(":"):
                    self.skip_type(["="])
                self.eat("=")
                e = self.expr()
                self.eat(";")
                stmts.append(("let", pat, mut, e))
                continue
            e = self.expr()
            if self.opt(";"):
                stmts.append(("expr", e))
            elif self.at("}"):
                tail = e
            elif e[0] in ("if", "match", "block", "for"):
                stmts.append(("expr", e))
            else:
                die("%s: expected ';' or '}' after an expression, found %r" % (self.what, self.peek()))
        self.eat("}")
        return ("block", stmts, tail)

    def pattern(self):
        alts = [self.pattern1()]
        while self.at("|") and not self.at("||"):
            self.i += 1
            alts.append(self.pattern1())
        return alts[0] if len(alts) == 1 else ("por", alts)

    def pattern1(self):
        t = self.peek()
        if t[0] == "chr" or t[0] == "num":
            self.i += 1
            lo = t[1] if t[0] == "num" else self.one(t[1])
            if self.opt("..="):
                u = self.peek()
                if u[0] not in ("chr", "num"):
                    die("%s: range pattern without a literal upper bound" % self.what)
                self.i += 1
                return ("prange", lo, u[1] if u[0] == "num" else self.one(u[1]))
            return ("plit", lo)
        if t[0] == "str":
            self.i += 1
            return ("pstr", t[1])
        if self.opt("_"):
            return ("pwild",)
        if self.opt("["):
            items = []
            while not self.at("]"):
                if self.opt(".."):
                    items.append(("prest",))
                else:
                    items.append(self.pattern())
                if not self.opt(","):
                    break
            self.eat("]")
            return ("pslice", items)
        if self.opt("&"):
            return self.pattern1()
        if t[0] == "id":
            path = [self.ident()]
            while self.opt("::"):
                path.append(self.ident())
            if self.opt("("):
                args = []
                while not self.at(")"):
                    args.append(self.pattern())
                    if not self.opt(","):
                        break
                self.eat(")")
                return ("pctor", path, args)
            if len(path) == 1 and path[0] not in ("None",) and path[0][0].islower():
                return ("pvar", path[0])
            return ("pctor", path, [])
        die("%s: unsupported pattern at %r" % (self.what, t))

    def one(self, v):
        if len(v) != 1:
            die("%s: non-ASCII character literal in a pattern" % self.what)
        return v[0]

    def expr(self, nostruct=False):
        return self.binop(0, nostruct)

    LEVELS = [["||"], ["&&"], ["==", "!=", "<", ">", "<=", ">="], ["+", "-"]]

    def binop(self, lvl, nostruct):
        if lvl == len(self.LEVELS):
            return self.cast(nostruct)
        a = self.binop(lvl + 1, nostruct)
        while self.peek()[0] == "p" and self.peek()[1] in self.LEVELS[lvl]:
            op = self.peek()[1]
            self.i += 1
            b = self.binop(lvl + 1, nostruct)
            a = ("bin", op, a, b)
        return a

    def cast(self, nostruct):
        e = self.unary(nostruct)
        while self.opt("as"):
            e = ("cast", e, self.ident())
        return e

    def unary(self, nostruct):
        if self.at("&&"):                      # `&&x`
            self.i += 1
            return ("ref", ("ref", self.unary(nostruct)))
        if self.opt("&"):
            self.opt("mut")
            return ("ref", self.unary(nostruct))
        if self.opt("*"):
            return ("deref", self.unary(nostruct))
        if self.opt("!"):
            return ("not", self.unary(nostruct))
        return self.postfix(nostruct)

    def args(self):
        self.eat("(")
        a = []
        while not self.at(")"):
            a.append(self.expr())
            if not self.opt(","):
                break
        self.eat(")")
        return a

    def postfix(self, nostruct):
        e = self.primary(nostruct)
        while True:
            if self.at(".") and self.peek(1)[0] == "id":
                self.i += 1
                name = self.ident()
                if self.opt("::"):
                    self.eat("<")
                    self.skip_type([">"])
                    self.eat(">")
                if self.at("("):
                    e = ("method", e, name, self.args())
                else:
                    e = ("field", e, name)
            elif self.opt("?"):
                e = ("try", e)
            elif self.at("["):
                self.i += 1
                lo = hi = None
                rng = False
                if not self.at("..") and not self.at("]"):
                    lo = self.expr()
                if self.opt(".."):
                    rng = True
                    if not self.at("]"):
                        hi = self.expr()
                self.eat("]")
                e = ("index", e, lo, hi, rng)
            elif self.at("(") and e[0] in ("var", "path"):
                e = ("call", e, self.args())
            else:
                return e

    def primary(self, nostruct):
        t = self.peek()
        if t[0] == "str":
            self.i += 1
            return ("lit_str", t[1])
        if t[0] == "chr":
            self.i += 1
            return ("lit_chr", t[1])
        if t[0] == "num":
            self.i += 1
            return ("lit_int", t[1])
        if self.opt("("):
            if self.opt(")"):
                return ("unit",)
            e = self.expr()
            self.eat(")")
            return ("paren", e)
        if self.opt("["):
            items = []
            while not self.at("]"):
                items.append(self.expr())
                if not self.opt(","):
                    break
            self.eat("]")
            return ("array", items)
        if self.at("||") or self.at("|"):
            params = []
            if self.opt("||"):
                pass
            else:
                self.eat("|")
                while not self.at("|"):
                    params.append(self.pattern1())
                    if not self.opt(","):
                        break
                self.eat("|")
            return ("closure", params, self.expr())
        if self.opt("if"):
            if self.opt("let"):
                pat = self.pattern()
                self.eat("=")
                cond = ("iflet", pat, self.expr(nostruct=True))
            else:
                cond = self.expr(nostruct=True)
            th = self.block()
            el = None
            if self.opt("else"):
                el = ("block", [], self.primary(False)) if self.at("if") else self.block()
            return ("if", cond, th, el)
        if self.opt("match"):
            scrut = self.expr(nostruct=True)
            self.eat("{")
            arms = []
            while not self.at("}"):
                pat = self.pattern()
                guard = self.expr(nostruct=True) if self.opt("if") else None
                self.eat("=>")
                body = self.expr()
                arms.append((pat, guard, body))
                if not self.opt(","):
                    if body[0] not in ("block",) and not self.at("}"):
                        die("%s: expected ',' between match arms" % self.what)
            self.eat("}")
            return ("match", scrut, arms)
        if self.opt("return"):
            if self.at(";") or self.at("}"):
                return ("return", None)
            return ("return", self.expr())
        if self.at("{"):
            return self.block()
        if t[0] == "id":
            if t[1] in ("for", "while", "loop", "unsafe", "async", "move"):
                die("%s: `%s` is outside the translated subset" % (self.what, t[1]))
            path = [self.ident()]
            if self.at("!") and not self.at("!="):
                self.i += 1
                if path[0] == "format":
                    self.eat("(")
                    t = self.peek()
                    if t[0] != "str":
                        die("%s: format! without a literal format string" % self.what)
                    self.i += 1
                    fargs = []
                    while self.opt(","):
                        if self.at(")"):
                            break
                        fargs.append(self.expr())
                    self.eat(")")
                    return ("format", t[1], fargs)
                if path[0] != "matches":
                    die("%s: macro %s! is outside the translated subset" % (self.what, path[0]))
                self.eat("(")
                e = self.expr()
                self.eat(",")
                pat = self.pattern()
                guard = self.expr() if self.opt("if") else None
                self.opt(",")
                self.eat(")")
                return ("matches", e, pat, guard)
            while self.opt("::"):
                path.append(self.ident())
            if not nostruct and self.at("{") and path[-1][0].isupper():
                self.i += 1
                fields = []
                while not self.at("}"):
                    f = self.ident()
                    v = ("var", f)
                    s0 = self.i
                    if self.opt(":"):
                        s0 = self.i
                        v = self.expr()
                    fields.append((f, v, "".join(tok_text(x) for x in self.t[s0:self.i])))
                    if not self.opt(","):
                        break
                self.eat("}")
                return ("struct", path, fields)
            return ("var", path[0]) if len(path) == 1 else ("path", path)
        die("%s: unsupported expression at %r" % (self.what, t))


def tok_text(t):
    if t[0] == "str":
        return '"%s"' % bytes(t[1]).decode("utf-8", "replace")
    if t[0] == "chr":
        return "'%s'" % bytes(t[1]).decode("utf-8", "replace")
    return str(t[1])


def find_fn(src, name, what):
    """tokens of `fn name(params) -> ret { body }` — the first definition outside test code"""
    cut = len(src)
    for m in re.finditer(r"\n\s*#\[(test|cfg\(test\))\]", src):
        cut = min(cut, m.start())
    m = re.search(r"\bfn\s+%s\s*(<[^>]*>)?\s*\(" % re.escape(name), src[:cut])
    if not m:
        die("%s: fn %s not found" % (what, name))
    if re.search(r"\bfn\s+%s\s*(<[^>]*>)?\s*\(" % re.escape(name), src[m.end():cut]):
        die("%s: fn %s is defined more than once" % (what, name))
    p = P(lex(src[m.end() - 1:cut]), "%s fn %s" % (what, name))
    p.eat("(")
    params = []
    while not p.at(")"):
        p.opt("mut")
        pn = p.ident()
        p.eat(":")
        params.append((pn, p.skip_type([",", ")"])))
        if not p.opt(","):
            break
    p.eat(")")
    ret = ""
    if p.opt("->"):
        ret = p.skip_type(["{"])
    body = p.block()
    return params, ret, body


# ------------------------------------------------------------------------------------------ lowering
STR, CHR, BOOL, NAT, UNIT = "str", "chr", "bool", "nat", "unit"
MOD, DID, DIDBP, CID, LOOKUP, KIND = "module", "did", "didbp", "cid", "lookup", "kind"


def opt(t):
    return ("opt", t)


def lst(t):
    return ("list", t)


PARAM_TYPES = {"&str": STR, "&(dynModule+Sync)": MOD, "&(dyn Module+Sync)": MOD, "FileLookup": LOOKUP, "FileKind": KIND,
               "&String": STR, "String": STR}
RET_TYPES = {"&str": STR, "Option<&str>": opt(STR), "String": STR, "Option<FileLookup>": opt(LOOKUP),
             "Option<String>": opt(STR), "FileLookup": LOOKUP}
KINDS = {"BreakpadSym": "KBreakpadSym", "Binary": "KBinary", "ExtraDebugInfo": "KExtraDebugInfo"}
FIELD_PINS = {"debug_id": {"debug_id.breakpad().to_string()", "debug_id.to_string()"},
              "debug_file": {"filename", "leaf.to_string()", "debug_file.to_string()"}}


def zlist(bs):
    return "[" + ";".join(str(b) for b in bs) + "]"


class Lower:
    def __init__(self, fn, funs):
        self.fn, self.funs = fn, funs
        self.partial_ops = 0
        self.fresh = 0

    def die(self, msg):
        die("fn %s: %s" % (self.fn, msg))

    # ---- patterns as char predicates -----------------------------------------------------------
    def pat_pred(self, e, env):
        """a `Pattern` argument of split / rsplit / find / rfind / starts_with ...: char or array of chars"""
        if e[0] == "lit_chr":
            if len(e[1]) != 1:
                self.die("non-ASCII pattern character")
            return "(pat_chars %s)" % zlist(e[1])
        if e[0] == "array" and all(x[0] == "lit_chr" and len(x[1]) == 1 for x in e[1]):
            return "(pat_chars %s)" % zlist([x[1][0] for x in e[1]])
        if e[0] == "ref":
            return self.pat_pred(e[1], env)
        self.die("unsupported pattern argument %r" % (e,))

    def str_pat(self, e):
        """a string-literal (or single char literal) pattern -> its bytes, else None"""
        while e[0] in ("ref", "paren"):
            e = e[1]
        if e[0] == "lit_str":
            return zlist(e[1])
        if e[0] == "lit_chr":
            return zlist(e[1])
        return None

    def charpat(self, pat, v):
        """a pattern over one char/byte value -> boolean Gallina expression about variable v"""
        if pat[0] == "plit":
            if pat[1] >= 128:
                self.die("non-ASCII character in a pattern")
            return "(%s =? %d)" % (v, pat[1])
        if pat[0] == "prange":
            if pat[2] >= 128:
                self.die("non-ASCII character in a pattern")
            return "((%d <=? %s) && (%s <=? %d))" % (pat[1], v, v, pat[2])
        if pat[0] == "por":
            return "(" + " || ".join(self.charpat(p, v) for p in pat[1]) + ")"
        if pat[0] == "pwild":
            return "true"
        self.die("unsupported character pattern %r" % (pat,))

    # ---- expressions ---------------------------------------------------------------------------
    def low(self, e, env):
        k = e[0]
        if k == "paren":
            t, ty = self.low(e[1], env)
            return "(%s)" % t, ty
        if k in ("ref", "deref"):
            return self.low(e[1], env)
        if k == "lit_str":
            return zlist(e[1]), STR
        if k == "lit_chr":
            if len(e[1]) != 1:
                self.die("non-ASCII char literal")
            return str(e[1][0]), CHR
        if k == "lit_int":
            return "%d%%nat" % e[1], NAT
        if k == "var":
            if e[1] == "None":
                return "None", opt(None)
            if e[1] not in env:
                self.die("unknown variable %s" % e[1])
            return e[1] if env[e[1]] != "shadow" else self.die("shadowed"), env[e[1]]
        if k == "path":
            if e[1][0] == "FileKind" and len(e[1]) == 2 and e[1][1] in KINDS:
                return KINDS[e[1][1]], KIND
            self.die("unknown path %s" % "::".join(e[1]))
        if k == "not":
            t, ty = self.low(e[1], env)
            if ty != BOOL:
                self.die("`!` on a non-bool")
            return "(negb %s)" % t, BOOL
        if k == "bin":
            return self.low_bin(e, env)
        if k == "array":
            items = [self.low(x, env) for x in e[1]]
            tys = {ty for _, ty in items}
            if len(tys) != 1:
                self.die("array literal with mixed element types %r" % (tys,))
            return "[" + "; ".join(t for t, _ in items) + "]", lst(tys.pop())
        if k == "index":
            r, ty = self.low(e[1], env)
            if ty != STR:
                self.die("indexing a non-string")
            if not e[4]:
                self.die("single-element indexing is outside the translated subset")
            if e[2] is None and e[3] is None:
                return r, STR
            self.partial_ops += 1
            if e[3] is None:
                a, ta = self.low(e[2], env)
                self.want(ta, NAT, "slice bound")
                return "(slice_from %s %s)" % (a, r), STR
            if e[2] is None:
                b, tb = self.low(e[3], env)
                self.want(tb, NAT, "slice bound")
                return "(slice_to %s %s)" % (b, r), STR
            a, ta = self.low(e[2], env)
            b, tb = self.low(e[3], env)
            self.want(ta, NAT, "slice bound")
            self.want(tb, NAT, "slice bound")
            return "(slice_range %s %s %s)" % (a, b, r), STR
        if k == "call":
            return self.low_call(e, env)
        if k == "method":
            return self.low_method(e, env)
        if k == "field":
            r, ty = self.low(e[1], env)
            if ty == LOOKUP and e[2] in ("cache_rel", "server_rel"):
                return "(%s %s)" % (e[2], r), STR
            self.die("unknown field .%s on %r" % (e[2], ty))
        if k == "matches":
            return self.low_matches(e, env)
        if k == "if":
            if e[1][0] == "iflet":
                return self.low_match(("match", e[1][2], [(e[1][1], None, e[2]), (("pwild",), None, e[3] or self.die("if let without else"))]), env)
            c, tc = self.low(e[1], env)
            self.want(tc, BOOL, "if condition")
            if e[3] is None:
                self.die("`if` without `else` used as a value")
            a, ta = self.low_block(e[2], env, None)
            b, tb = self.low_block(e[3], env, None)
            return "(if %s then %s else %s)" % (c, a, b), self.unify(ta, tb, "if branches")
        if k == "match":
            return self.low_match(e, env)
        if k == "block":
            return self.low_block(e, env, None)
        if k == "struct":
            if e[1] != ["FileLookup"]:
                self.die("unknown struct %s" % "::".join(e[1]))
            got = {}
            for f, v, text in e[2]:
                if f in FIELD_PINS:
                    if text not in FIELD_PINS[f]:
                        self.die("FileLookup.%s is initialised with `%s`, which is not one of the known texts %s" % (f, text, sorted(FIELD_PINS[f])))
                    self.funs.setdefault("_pins", []).append((self.fn, f, text))
                    continue
                t, ty = self.low(v, env)
                self.want(ty, STR, "FileLookup." + f)
                got[f] = t
            if set(got) != {"cache_rel", "server_rel"}:
                self.die("FileLookup literal with fields %s" % sorted(got))
            return "{| cache_rel := %s; server_rel := %s |}" % (got["cache_rel"], got["server_rel"]), LOOKUP
        if k == "format":
            # only `{}` and `{name}` placeholders of string-typed values: a concatenation
            text = bytes(e[1]).decode("utf-8")
            parts, args, pos = [], list(e[2]), 0
            for m in re.finditer(r"\{\{|\}\}|\{(\w*)\}|\{[^}]*\}", text):
                if m.group(0) in ("{{", "}}") or m.group(1) is None:
                    self.die("format! with an escape or a format spec (%s)" % m.group(0))
                if m.start() > pos:
                    parts.append(zlist(list(text[pos:m.start()].encode("utf-8"))))
                pos = m.end()
                if m.group(1):
                    t, ty = self.low(("var", m.group(1)), env)
                else:
                    if not args:
                        self.die("format! with more placeholders than arguments")
                    t, ty = self.low(args.pop(0), env)
                if ty == DIDBP:
                    ty = STR
                self.want(ty, STR, "format! argument")
                parts.append(t)
            if args:
                self.die("format! with more arguments than placeholders")
            if pos < len(text):
                parts.append(zlist(list(text[pos:].encode("utf-8"))))
            if not parts:
                return "[]", STR
            return "(" + " ++ ".join(parts) + ")", STR
        if k == "cast":
            return self.low(e[1], env)
        self.die("unsupported expression form %s" % k)

    def want(self, got, exp, what):
        if got != exp:
            self.die("%s has type %r, expected %r" % (what, got, exp))

    def unify(self, a, b, what):
        if a == b:
            return a
        if isinstance(a, tuple) and isinstance(b, tuple) and a[0] == b[0] == "opt":
            if a[1] is None:
                return b
            if b[1] is None:
                return a
        self.die("%s have different types %r / %r" % (what, a, b))

    def low_bin(self, e, env):
        op = e[1]
        a, ta = self.low(e[2], env)
        b, tb = self.low(e[3], env)
        if op in ("||", "&&"):
            self.want(ta, BOOL, "operand of " + op)
            self.want(tb, BOOL, "operand of " + op)
            return "(%s %s %s)" % (a, op, b), BOOL
        if op in ("==", "!="):
            if ta != tb:
                self.die("comparison of %r with %r" % (ta, tb))
            f = {STR: "str_eqb %s %s", NAT: "Nat.eqb %s %s", CHR: "Z.eqb %s %s"}.get(ta) or self.die("== on %r" % (ta,))
            t = "(" + f % (a, b) + ")"
            return (t if op == "==" else "(negb %s)" % t), BOOL
        if op in ("<", ">", "<=", ">="):
            self.want(ta, NAT, "operand of " + op)
            self.want(tb, NAT, "operand of " + op)
            f = {"<": "Nat.ltb %s %s", "<=": "Nat.leb %s %s"}
            if op in f:
                return "(" + f[op] % (a, b) + ")", BOOL
            return "(" + f[{">": "<", ">=": "<="}[op]] % (b, a) + ")", BOOL
        if op == "+" and ta == STR and tb == STR:
            return "(%s ++ %s)" % (a, b), STR                 # String + &str
        if op == "+":
            # usize addition on indices/lengths of one in-memory string: cannot overflow
            self.want(ta, NAT, "operand of +")
            self.want(tb, NAT, "operand of +")
            return "(%s + %s)%%nat" % (a, b), NAT
        self.die("operator %s is outside the translated subset (usize subtraction can trap)" % op)

    def closure(self, c, argtys, env):
        if c[0] != "closure":
            self.die("expected a closure")
        if len(c[1]) != len(argtys):
            self.die("closure arity")
        env2 = dict(env)
        names = []
        for p, ty in zip(c[1], argtys):
            if p[0] == "pwild":
                self.fresh += 1
                names.append("_u%d" % self.fresh)
            elif p[0] == "pvar":
                names.append(p[1])
                env2[p[1]] = ty
            else:
                self.die("unsupported closure parameter")
        body, tb = self.low(c[2], env2)
        return names, body, tb

    def low_call(self, e, env):
        f = e[1]
        name = f[1] if f[0] == "var" else None
        if name == "Some" and len(e[2]) == 1:
            t, ty = self.low(e[2][0], env)
            return "(Some %s)" % t, opt(ty)
        if name in self.funs and name != "_pins":
            ptys, rty, mode = self.funs[name]
            if len(ptys) != len(e[2]):
                self.die("call of %s with %d arguments" % (name, len(e[2])))
            args = []
            for a, pt in zip(e[2], ptys):
                t, ty = self.low(a, env)
                self.want(ty, pt, "argument of %s" % name)
                args.append(t)
            if mode != "pure" and mode != "option":
                self.die("call of %s (which can panic) inside an expression" % name)
            return "(g_%s %s)" % (name, " ".join(args)), rty
        if name and getattr(self, "compiler", None) is not None and self.compiler(name):
            return self.low_call(e, env)
        self.die("call of unknown function %s" % (name or f,))

    def low_method(self, e, env):
        recv, name, args = e[1], e[2], e[3]
        r, ty = self.low(recv, env)
        n = len(args)

        def a(i):
            return self.low(args[i], env)

        if ty == MOD and n == 0:
            m = {"code_file": ("(m_code_file %s)", STR), "code_identifier": ("(m_code_identifier %s)", opt(CID)),
                 "debug_file": ("(m_debug_file %s)", opt(STR)), "debug_identifier": ("(m_debug_identifier %s)", opt(DID))}
            if name in m:
                return m[name][0] % r, m[name][1]
        if ty == DID and name == "breakpad" and n == 0:
            return r, DIDBP
        if ty == DIDBP and name == "to_string" and n == 0:
            return r, STR
        if ty == CID and name in ("to_string", "as_ref", "as_str") and n == 0:
            return r, STR
        if ty == STR:
            if name in ("to_string", "clone", "as_ref", "as_str", "as_bytes", "to_owned", "into_owned", "into") and n == 0:
                return r, STR
            if name in ("split", "rsplit") and n == 1:
                return "(%s_pat %s %s)" % (name, self.pat_pred(args[0], env), r), lst(STR)
            if name in ("find", "rfind") and n == 1:
                return "(%s_pat %s %s)" % (name, self.pat_pred(args[0], env), r), opt(NAT)
            if name in ("contains", "starts_with", "ends_with") and n == 1:
                lit = self.str_pat(args[0])
                if lit is not None:
                    return "(%s_str %s %s)" % (name, lit, r), BOOL
                return "(str_%s %s %s)" % (name, self.pat_pred(args[0], env), r), BOOL
            if name in ("strip_prefix", "strip_suffix") and n == 1:
                lit = self.str_pat(args[0])
                if lit is None:
                    self.die(".%s with a pattern that is not a string or char literal" % name)
                return "(%s_str %s %s)" % (name, lit, r), opt(STR)
            if name in ("trim_start_matches", "trim_end_matches", "trim_matches") and n == 1:
                return "(%s %s %s)" % (name, self.pat_pred(args[0], env), r), STR
            if name == "eq_ignore_ascii_case" and n == 1:
                o, to = a(0)
                self.want(to, STR, "eq_ignore_ascii_case argument")
                return "(str_eq_ignore_ascii_case %s %s)" % (r, o), BOOL
            if name == "is_empty" and n == 0:
                return "(str_is_empty %s)" % r, BOOL
            if name == "len" and n == 0:
                return "(length %s)" % r, NAT
            if name in ("to_lowercase", "to_uppercase", "to_ascii_lowercase", "to_ascii_uppercase") and n == 0:
                return "(str_%s %s)" % (name.replace("ascii_", ""), r), STR
        if ty == CHR and n == 0:
            m = {"is_ascii_alphabetic": "is_alpha", "is_ascii_hexdigit": "is_hex", "is_ascii_uppercase": "is_upper_ascii",
                 "is_ascii_lowercase": "is_lower_ascii", "is_ascii_digit": "is_digit_ascii", "is_ascii_alphanumeric": "is_alnum_ascii"}
            if name in m:
                return "(%s %s)" % (m[name], r), BOOL
        if isinstance(ty, tuple) and ty[0] == "list":
            el = ty[1]
            if name == "next" and n == 0:
                return "(iter_next %s)" % r, opt(el)
            if name in ("last", "next_back") and n == 0:
                return "(iter_last %s)" % r, opt(el)
            if name == "rev" and n == 0:
                return "(rev %s)" % r, ty
            if name in ("collect", "iter", "into_iter", "to_vec", "clone") and n == 0:
                return r, ty
            if name == "len" and n == 0:
                return "(length %s)" % r, NAT
            if name in ("join", "concat") and el == STR and n == (1 if name == "join" else 0):
                sep, ts = a(0) if n else ("[]", STR)
                self.want(ts, STR, "join separator")
                return "(vec_join %s %s)" % (r, sep), STR
        if isinstance(ty, tuple) and ty[0] == "opt":
            el = ty[1]
            if name == "unwrap_or" and n == 1:
                d, td = a(0)
                self.want(td, el, "unwrap_or default")
                return "(opt_unwrap_or %s %s)" % (r, d), el
            if name == "or_else" and n == 1:
                _, body, tb = self.closure(args[0], [], env)
                return "(opt_or_else %s (fun _ => %s))" % (r, body), self.unify(ty, tb, "or_else")
            if name == "or" and n == 1:
                d, td = a(0)
                return "(opt_or %s %s)" % (r, d), self.unify(ty, td, "or")
            if name == "map_or" and n == 2:
                d, td = a(0)
                names, body, tb = self.closure(args[1], [el], env)
                if td != tb:
                    self.die("map_or default and closure result differ: %r / %r" % (td, tb))
                return "(opt_map_or %s %s (fun %s => %s))" % (r, d, names[0], body), tb
            if name == "map" and n == 1:
                names, body, tb = self.closure(args[0], [el], env)
                return "(opt_map %s (fun %s => %s))" % (r, names[0], body), opt(tb)
            if name == "and_then" and n == 1:
                names, body, tb = self.closure(args[0], [el], env)
                return "(opt_bind %s (fun %s => %s))" % (r, names[0], body), tb
            if name == "is_some_and" and n == 1:
                names, body, tb = self.closure(args[0], [el], env)
                self.want(tb, BOOL, "is_some_and closure")
                return "(opt_is_some_and %s (fun %s => %s))" % (r, names[0], body), BOOL
            if name in ("is_some", "is_none") and n == 0:
                t = "(opt_is_some %s)" % r
                return (t if name == "is_some" else "(negb %s)" % t), BOOL
        self.die("method .%s/%d on a value of type %r is outside the translated subset" % (name, n, ty))

    def low_matches(self, e, env):
        s, ty = self.low(e[1], env)
        pat, guard = e[2], e[3]
        if ty == STR and pat[0] == "pslice":
            # [a, b':', ..] on bytes
            env2 = dict(env)
            parts, rest = [], False
            for it in pat[1]:
                if it[0] == "prest":
                    rest = True
                    continue
                if rest:
                    self.die("slice pattern with elements after `..`")
                parts.append(it)
            names, conds = [], []
            for j, it in enumerate(parts):
                if it[0] == "pvar":
                    names.append(it[1])
                    env2[it[1]] = CHR
                else:
                    self.fresh += 1
                    v = "_b%d" % self.fresh
                    names.append(v)
                    conds.append(self.charpat(it, v))
            g = "true"
            if guard is not None:
                g, tg = self.low(guard, env2)
                self.want(tg, BOOL, "matches! guard")
            body = " && ".join(conds + [g]) if conds else g
            cons = " :: ".join(names + ["_" if rest else "[]"])
            return "(match %s with %s => %s | _ => false end)" % (s, cons, body), BOOL
        if ty == CHR:
            if guard is not None:
                self.die("guarded char pattern")
            return "(let _c := %s in %s)" % (s, self.charpat(pat, "_c")), BOOL
        self.die("matches! on %r with pattern %r" % (ty, pat))

    def low_match(self, e, env):
        s, ty = self.low(e[1], env)
        arms = e[2]
        if ty == KIND:
            out, seen = [], set()
            rty = None
            for pat, guard, body in arms:
                if guard is not None or pat[0] != "pctor" or pat[1][0] != "FileKind" or pat[1][-1] not in KINDS or pat[2]:
                    self.die("unsupported FileKind match arm %r" % (pat,))
                t, tb = self.low(body, env)
                rty = tb if rty is None else self.unify(rty, tb, "match arms")
                out.append("| %s => %s" % (KINDS[pat[1][-1]], t))
                seen.add(pat[1][-1])
            if seen != set(KINDS):
                self.die("FileKind match does not list every kind")
            return "(match %s with %s end)" % (s, " ".join(out)), rty
        if isinstance(ty, tuple) and ty[0] == "opt":
            # arms in order; a guarded `Some(x) if g` arm falls through to the arms after it
            def build(rest, for_some, var):
                if not rest:
                    self.die("Option match is not exhaustive")
                pat, guard, body = rest[0]
                is_some = pat[0] == "pctor" and pat[1] == ["Some"] and len(pat[2]) == 1 and pat[2][0][0] in ("pvar", "pwild")
                is_none = pat[0] == "pctor" and pat[1] == ["None"] and not pat[2]
                is_wild = pat[0] == "pwild"
                if not (is_some or is_none or is_wild):
                    self.die("unsupported Option match arm %r" % (pat,))
                if (for_some and is_none) or (not for_some and is_some):
                    return build(rest[1:], for_some, var)
                env2 = dict(env)
                pre = ""
                if is_some and pat[2][0][0] == "pvar":
                    env2[pat[2][0][1]] = ty[1]
                    if pat[2][0][1] != var:
                        pre = "let %s := %s in " % (pat[2][0][1], var)
                t, tb = self.low(body, env2)
                if guard is None:
                    return "(%s%s)" % (pre, t), tb
                if not is_some and not is_wild:
                    self.die("guard on a None arm")
                g, tg = self.low(guard, env2)
                self.want(tg, BOOL, "match guard")
                t2, tb2 = build(rest[1:], for_some, var)
                return "(%sif %s then %s else %s)" % (pre, g, t, t2), self.unify(tb, tb2, "match arms")
            named = [pat[2][0][1] for pat, _, _ in arms
                     if pat[0] == "pctor" and pat[1] == ["Some"] and len(pat[2]) == 1 and pat[2][0][0] == "pvar"]
            if named:
                var = named[0]
            else:
                self.fresh += 1
                var = "_s%d" % self.fresh
            a_, ta = build(arms, True, var)
            b_, tb = build(arms, False, var)
            return "(match %s with Some %s => %s | None => %s end)" % (s, var, a_, b_), self.unify(ta, tb, "match arms")
        self.die("match on a value of type %r" % (ty,))

    # ---- blocks / statements -------------------------------------------------------------------
    def mutated(self, block):
        vs = []
        for st in block[1]:
            if st[0] == "expr" and st[1][0] == "method" and st[1][1][0] == "var" and st[1][2] in ("pop", "push"):
                if st[1][1][1] not in vs:
                    vs.append(st[1][1][1])
            else:
                return None
        return vs if block[2] is None else None

    def low_block(self, block, env, mode, stmts=None, tail="__unset"):
        """mode None: pure value; 'option': the enclosing fn returns Option (`?`, `return None`);
        'outcome': the fn can panic (unwrap): the result is wrapped in Ret"""
        stmts = list(block[1]) if stmts is None else stmts
        tail = block[2] if tail == "__unset" else tail
        env = dict(env)
        if not stmts:
            if tail is None:
                self.die("block without a value")
            if tail[0] == "return":
                tail = tail[1]
            t, ty = self.low(tail, env)
            if mode == "outcome":
                return "(Ret %s)" % t, ("outcome", ty)
            return t, ty
        st, rest = stmts[0], stmts[1:]
        if st[0] == "let":
            pat, e = st[1], st[3]
            if pat[0] != "pvar":
                self.die("unsupported let pattern")
            if e[0] == "try":
                if mode != "option":
                    self.die("`?` in a function that does not return Option")
                v, tv = self.low(e[1], env)
                if not (isinstance(tv, tuple) and tv[0] == "opt"):
                    self.die("`?` on a non-Option")
                env[pat[1]] = tv[1]
                body, tb = self.low_block(block, env, mode, rest, tail)
                return "(opt_bind %s (fun %s =>\n    %s))" % (v, pat[1], body), tb
            v, tv = self.low(e, env)
            env[pat[1]] = tv
            body, tb = self.low_block(block, env, mode, rest, tail)
            return "(let %s := %s in\n    %s)" % (pat[1], v, body), tb
        e = st[1]
        # `return X;` as the last statement
        if e[0] == "return" and not rest and tail is None:
            return self.low_block(block, env, mode, [], e[1])
        # `if c { return X; }` followed by the rest
        if e[0] == "if" and e[3] is None and not e[2][1] is None and len(e[2][1]) == 1 and e[2][2] is None \
                and e[2][1][0][0] == "expr" and e[2][1][0][1][0] == "return":
            c, tc = self.low(e[1], env)
            self.want(tc, BOOL, "if condition")
            a, ta = self.low_block(block, env, mode, [], e[2][1][0][1][1])
            b, tb = self.low_block(block, env, mode, rest, tail)
            return "(if %s then %s else\n    %s)" % (c, a, b), self.unify(ta, tb, "early return and the rest")
        if e[0] == "if" and e[3] is None and e[2][2] is not None and e[2][2][0] == "return" and not e[2][1]:
            c, tc = self.low(e[1], env)
            self.want(tc, BOOL, "if condition")
            a, ta = self.low_block(block, env, mode, [], e[2][2][1])
            b, tb = self.low_block(block, env, mode, rest, tail)
            return "(if %s then %s else\n    %s)" % (c, a, b), self.unify(ta, tb, "early return and the rest")
        # `if c { v.pop(); ... }`: conditional mutation of one variable
        if e[0] == "if" and e[3] is None and e[1][0] != "iflet":
            vs = self.mutated(e[2])
            if vs and len(vs) == 1:
                c, tc = self.low(e[1], env)
                self.want(tc, BOOL, "if condition")
                inner, ti = self.low_block(e[2], env, None, list(e[2][1]), ("var", vs[0]))
                self.want(ti, env[vs[0]], "conditionally mutated variable")
                body, tb = self.low_block(block, env, mode, rest, tail)
                return "(let %s := (if %s then %s else %s) in\n    %s)" % (vs[0], c, inner, vs[0], body), tb
        # place mutation: v.pop(); v.push(x); v.f.pop().unwrap(); v.f.push(c)
        m = self.mutation(e, env)
        if m is not None:
            var, newval, panics = m
            if panics:
                if mode != "outcome":
                    self.die("unwrap() in a function not lowered in outcome mode")
                body, tb = self.low_block(block, env, mode, rest, tail)
                return "(match %s with\n    | None => Panic 1\n    | Some _popped => let %s := %s in\n    %s end)" % (panics, var, newval, body), tb
            body, tb = self.low_block(block, env, mode, rest, tail)
            return "(let %s := %s in\n    %s)" % (var, newval, body), tb
        self.die("unsupported statement %r" % (e[:3],))

    def mutation(self, e, env):
        unwrap = False
        if e[0] == "method" and e[2] == "unwrap" and not e[3]:
            unwrap = True
            e = e[1]
        if e[0] != "method" or e[2] not in ("pop", "push"):
            return None
        place, name, args = e[1], e[2], e[3]
        if place[0] == "var":
            var, setter, cur = place[1], "%s", place[1]
        elif place[0] == "field" and place[1][0] == "var" and env.get(place[1][1]) == LOOKUP and place[2] in ("cache_rel", "server_rel"):
            var = place[1][1]
            setter = "(set_%s %s %%s)" % (place[2], var)
            cur = "(%s %s)" % (place[2], var)
        else:
            return None
        ty = env.get(var)
        pty = STR if place[0] == "field" else ty
        if pty == STR:
            if name == "pop" and not args:
                if not unwrap:
                    self.die("String::pop() whose result is ignored is not supported (only .pop().unwrap())")
                return var, setter % "_popped", "string_pop %s" % cur
            if name == "push" and len(args) == 1 and not unwrap:
                c, tc = self.low(args[0], env)
                self.want(tc, CHR, "String::push argument")
                return var, setter % ("(string_push %s %s)" % (cur, c)), None
        if isinstance(pty, tuple) and pty[0] == "list" and place[0] == "var":
            if name == "pop" and not args and not unwrap:
                return var, "(vec_pop %s)" % var, None
            if name == "push" and len(args) == 1 and not unwrap:
                x, tx = self.low(args[0], env)
                self.want(tx, pty[1], "Vec::push argument")
                return var, "(vec_push %s %s)" % (var, x), None
        return None


JOIN_REL_TEMPLATE = ("{ let mut escaped = String :: with_capacity ( rel . len ( ) ) ; for c in rel . chars ( ) { match c { @PAT@ => "
                     "{ escaped . push_str ( & format ! ( \"%{:02X}\" , c as u32 ) ) } _ => escaped . push ( c ) , } } "
                     "base_url . join ( & escaped ) . map_err ( | _ | ( ) ) }")


def join_rel_pattern(src):
    cut = len(src)
    m = re.search(r"\bfn\s+join_rel\s*\(([^)]*)\)\s*->\s*([^{]*)\{", src)
    if not m:
        die("http.rs: fn join_rel not found")
    if re.sub(r"\s+", "", m.group(1)) != "base_url:&Url,rel:&str":
        die("http.rs: join_rel has an unknown signature (%s)" % m.group(1).strip())
    toks = lex(src[m.end() - 1:cut])
    depth, end = 0, None
    for i, t in enumerate(toks):
        if t == ("p", "{"):
            depth += 1
        elif t == ("p", "}"):
            depth -= 1
            if depth == 0:
                end = i
                break
    if end is None:
        die("http.rs: join_rel: unbalanced body")
    body = toks[:end + 1]
    tmpl = JOIN_REL_TEMPLATE.split(" ")
    k = tmpl.index("@PAT@")
    head, tailt = tmpl[:k], tmpl[k + 1:]
    texts = [tok_text(t) for t in body]
    if texts[:len(head)] != head or texts[len(texts) - len(tailt):] != tailt:
        die("http.rs: the body of join_rel no longer has the known shape (escape loop + base_url.join(&escaped)): %s" % " ".join(texts)[:400])
    p = P(body[len(head):len(body) - len(tailt)] + [("p", "=>")], "http.rs fn join_rel")
    pat = p.pattern()
    if not p.at("=>") or p.i != len(p.t) - 1:
        die("http.rs: join_rel: cannot parse the escape pattern")
    return pat


ORDER = ["leafname", "safe_leafname", "replace_or_add_extension", "breakpad_sym_lookup", "code_info_breakpad_sym_lookup",
         "extra_debuginfo_lookup", "binary_lookup", "moz_lookup", "lookup"]


def contains_unwrap(node):
    if isinstance(node, tuple):
        if node and node[0] == "method" and node[2] in ("unwrap", "expect"):
            return True
        return any(contains_unwrap(x) for x in node)
    if isinstance(node, list):
        return any(contains_unwrap(x) for x in node)
    return False


COQ_TY = {STR: "str", BOOL: "bool", NAT: "nat", MOD: "module_view", LOOKUP: "file_lookup", KIND: "kind", CHR: "Z"}


def coq_ty(t):
    if isinstance(t, tuple):
        return {"opt": "option", "list": "list", "outcome": "outcome"}[t[0]] + " (" + coq_ty(t[1]) + ")"
    return COQ_TY[t]


def main():
    if len(sys.argv) != 3:
        sys.stderr.write(__doc__)
        sys.exit(2)
    repo, outdir = sys.argv[1], sys.argv[2]
    try:
        lib = open(os.path.join(repo, "breakpad-symbols/src/lib.rs")).read()
        http = open(os.path.join(repo, "breakpad-symbols/src/http.rs")).read()
    except OSError as e:
        die("cannot read the source: %s" % e)
    funs, defs = {}, []
    state = {"partial": 0, "busy": []}
    ptmap = {k.replace(" ", ""): v for k, v in PARAM_TYPES.items()}

    def compile_fn(name, required=True):
        """compile lib.rs `fn name` (and, on demand, the helper functions it calls) -> True when g_<name> is defined"""
        if name in funs:
            return True
        if name in state["busy"]:
            die("lib.rs fn %s is recursive" % name)
        if not required and not re.search(r"\bfn\s+%s\s*(<[^>]*>)?\s*\(" % re.escape(name), lib):
            return False
        state["busy"].append(name)
        params, ret, body = find_fn(lib, name, "lib.rs")
        ptys = []
        for pn, pt in params:
            key = pt.replace(" ", "")
            if key not in ptmap:
                die("lib.rs fn %s: parameter %s has the unknown type %s" % (name, pn, pt))
            ptys.append(ptmap[key])
        rkey = ret.replace(" ", "")
        if rkey not in RET_TYPES:
            die("lib.rs fn %s: unknown return type %s" % (name, ret))
        rty = RET_TYPES[rkey]
        mode = "outcome" if contains_unwrap(body) else ("option" if isinstance(rty, tuple) and rty[0] == "opt" else None)
        lw = Lower(name, funs)
        lw.compiler = lambda callee: compile_fn(callee, required=False)
        env = {pn: ty for (pn, _), ty in zip(params, ptys)}
        text, ty = lw.low_block(body, env, mode)
        exp = ("outcome", rty) if mode == "outcome" else rty
        if ty != exp and not (isinstance(ty, tuple) and ty[0] == "opt" and ty[1] is None and exp[0] == "opt"):
            die("lib.rs fn %s: the body has type %r, the signature says %r" % (name, ty, exp))
        state["partial"] += lw.partial_ops
        funs[name] = (ptys, rty, mode or "pure")
        sig = " ".join("(%s : %s)" % (pn, coq_ty(t)) for (pn, _), t in zip(params, ptys))
        defs.append("Definition g_%s %s : %s :=\n  %s." % (name, sig, coq_ty(exp), text))
        state["busy"].pop()
        return True

    for name in ORDER:
        compile_fn(name)
    partial = state["partial"]
    # minidump-common/src/utils.rs basename (re-exported as breakpad_symbols::basename; used for display and for the
    # `code_file` query parameter, never for a path): compiled too, and proved equal to leafname in C17/Tie.v
    try:
        utils = open(os.path.join(repo, "minidump-common/src/utils.rs")).read()
    except OSError as e:
        die("cannot read the source: %s" % e)
    params, ret, body = find_fn(utils, "basename", "utils.rs")
    if [pt.replace(" ", "") for _, pt in params] != ["&str"] or ret.replace(" ", "") != "&str":
        die("utils.rs fn basename: unknown signature")
    lw = Lower("basename", {})
    text, ty = lw.low_block(body, {params[0][0]: STR}, None)
    if ty != STR:
        die("utils.rs fn basename: the body has type %r" % (ty,))
    defs.append("(* minidump-common/src/utils.rs *)\nDefinition g_basename (%s : str) : str :=\n  %s." % (params[0][0], text))
    basename_partial = lw.partial_ops
    pat = join_rel_pattern(http)
    lw = Lower("join_rel", funs)
    needs = lw.charpat(pat, "c")
    pins = funs.get("_pins", [])
    o = ["(* GENERATED by translate/c17_lookup.py from breakpad-symbols/src/lib.rs and http.rs — do not edit. *)",
         "From Coq Require Import String.",
         "From RM Require Import C17.Prims C17.UrlModel.", "Open Scope Z_scope.", ""]
    o += ["\n\n".join(defs), ""]
    o += ["(* http.rs join_rel: the characters percent-encoded (\"%{:02X}\") before Url::join; the rest of the body is pinned text *)",
          "Definition g_needs_escape (c : Z) : bool :=\n  %s." % needs,
          "Definition g_join_rel_enc (rel : str) : str :=\n  flat_map (fun c => if g_needs_escape c then pct c else [c]) rel.", "",
          "(* slice expressions (&s[a..b]: can panic) emitted above; C17/Tie.v proves this is 0 *)",
          "Definition g_partial_ops : nat := %d." % partial,
          "(* ... and in g_basename (C17/Tie.v proves each of them in bounds) *)",
          "Definition g_basename_partial_ops : nat := %d." % basename_partial, "",
          "(* FileLookup fields outside the model's record and their (pinned) initialisers *)",
          "Definition g_unmodelled_fields : list (string * string * string) := [",
          ";\n".join('  ("%s", "%s", "%s")%%string' % (a, b, c.replace('"', '""')) for a, b, c in pins), "]."]
    content = "\n".join(o) + "\n"
    path = os.path.join(outdir, "C17Lookup.v")
    os.makedirs(outdir, exist_ok=True)
    try:
        if open(path).read() == content:
            return
    except OSError:
        pass
    open(path, "w").write(content)


if __name__ == "__main__":
    main()
