#!/usr/bin/env python3
"""Translator (C06): the STACK CFI evaluator of breakpad-symbols/src/sym_file/walker.rs -> coq/Gen/CfiOps.v
argv: <repo> <outdir>.

What is TRANSLATED (Rust syntax -> Gallina data that coq/C06/GenModel.v interprets; an edit of the code
changes the model the theorems of coq/C06/Properties.v are checked against):
  * eval_cfi_expr: every `"tok" => { ... }` arm of `match token`, IN SOURCE ORDER, as a statement list over a small
    language: `let x = stack.pop()?;` (SPop), `if COND { return None; }` (SGuard), `stack.push(EXPR)` (SPush),
    `stack.push(walker.get_register_at_address(EXPR)?)` (SPushDeref), `stack.push(cfa?)` (SPushCfa),
    `return None;` (SReturnNone).  EXPR: bound variables, integer literals (`-1i64 as u64` is folded),
    `a.wrapping_{add,sub,mul,div,rem}(b)`, `a & b`, `a ^ b`, `a - b` (overflow-checked), parentheses.
    COND: `e == lit`, `e.is_power_of_two()`, `!c`, `c || c`.
  * the `_ =>` arm: the if-let chain, in source order, as [DAfterDollar; DInt bits; DBareReg] (each branch's
    condition + body matched against the one shape it may have), ending in `return None`.
  * the tail `if stack.len() == N { stack.pop() } else { None }` -> cfi_final_len.
  * parse_cfi_exprs: the label suffix char, the classification chain (`== ".cfa"` -> Cfa, `== ".ra"` -> Ra,
    strip_prefix('$') -> Other, else Other) in source order.
  * walk_with_stack_cfi: the statement skeleton, as data: which texts are parsed in which order, which map keys are
    removed, the `cfa` argument of the two mandatory evaluations and of the loop's evaluation, the order of
    set_cfa / set_ra, whether the remaining rules are sorted, and what each of the three outcomes of a general rule
    does (set / clear).  Everything else in these functions (trace!/debug! lines aside) is PINNED: the translator
    aborts (exit 1) on any statement it does not recognise.
  * enum CfiReg: variant order and the derives (the sort of the remaining rules is the derived Ord).
  * record selection: the comparison of walk_frame's `while .. add_rules[count].address <= addr` loop (mod.rs), whether
    finish_item sorts the delta records (parser.rs); CfiRules' field order / derive(Ord) and StackInfoCfi::memory_range
    (types.rs) are pinned.
  * minidump-unwind/src/lib.rs: the nine FrameWalker callbacks of CfiStackWalker are pinned (signature + body).
  * size_of::<Register>() of CONTEXT_ARM / CONTEXT_MIPS (context.rs) and of Mips32Context (mips.rs) -> cfi_*_reg_bytes;
    Mips32Context's CpuContext impl (callee values `as u32`), the CONTEXT_MIPS64 flag test and the CFI dispatch of
    mips.rs get_caller_frame, CONTEXT_ARM::register_is_valid and the trait default are pinned.
  * StackInfoCfi: field order and derive(PartialEq) are pinned (the == of the record table's merge step).
  * arm64_old.rs == arm64.rs and the two CpuContext impls are equal modulo the context type name (pinned)."""
import os
import re
import sys

repo, outdir = sys.argv[1], sys.argv[2]


def die(msg):
    sys.stderr.write("c06_cfi_ops.py: " + msg + "\n")
    sys.exit(1)


SRC = os.path.join(repo, "breakpad-symbols/src/sym_file/walker.rs")
try:
    src = open(SRC).read()
except OSError as e:
    die("cannot read %s: %s" % (SRC, e))

# ----------------------------------------------------------------------------- lexer (the subset these functions use)
TOK = re.compile(r"""
    (?P<ws>\s+|//[^\n]*|/\*.*?\*/)
  | (?P<str>"(?:[^"\\]|\\.)*")
  | (?P<chr>'(?:[^'\\]|\\.)')
  | (?P<life>'[A-Za-z_][A-Za-z0-9_]*)
  | (?P<num>[0-9][0-9_]*(?:[iu](?:8|16|32|64|128|size))?)
  | (?P<id>[A-Za-z_][A-Za-z0-9_]*)
  | (?P<p>=>|==|!=|<=|>=|\|\||&&|->|::|\.\.|[-+*/%^&|!<>=(){}\[\];:,.?#@$])
""", re.X | re.S)


def lex(text, where):
    out, pos = [], 0
    while pos < len(text):
        m = TOK.match(text, pos)
        if not m:
            die("%s: cannot tokenise at `%s`" % (where, text[pos:pos + 30]))
        pos = m.end()
        if m.lastgroup == "ws":
            continue
        out.append((m.lastgroup, m.group(m.lastgroup)))
    return out


def find_fn(name):
    m = re.search(r"^(?:pub )?fn %s\b" % name, src, re.M)
    if not m:
        die("fn %s not found in walker.rs" % name)
    i = src.index("{", m.end())
    # the signature may not contain braces
    depth, j = 0, i
    while True:
        c = src[j]
        if c == '"':
            j = re.compile(r'"(?:[^"\\]|\\.)*"').match(src, j).end()
            continue
        if c == "'" and re.match(r"'(?:[^'\\]|\\.)'", src[j:]):
            j += len(re.match(r"'(?:[^'\\]|\\.)'", src[j:]).group(0))
            continue
        if src.startswith("//", j):
            j = src.index("\n", j)
            continue
        if c == "{":
            depth += 1
        elif c == "}":
            depth -= 1
            if depth == 0:
                break
        j += 1
    return src[m.start():i], src[i:j + 1]


class P:
    """token cursor"""

    def __init__(self, toks, where):
        self.t, self.i, self.where = toks, 0, where

    def peek(self, k=0):
        return self.t[self.i + k][1] if self.i + k < len(self.t) else None

    def kind(self, k=0):
        return self.t[self.i + k][0] if self.i + k < len(self.t) else None

    def eat(self, want=None):
        x = self.peek()
        if x is None or (want is not None and x != want):
            die("%s: expected `%s`, found `%s` (near `%s`)" % (self.where, want, x, " ".join(v for _, v in self.t[max(0, self.i - 6):self.i + 4])))
        self.i += 1
        return x

    def eat_seq(self, text):
        for _, v in lex(text, self.where):
            self.eat(v)

    def at_seq(self, text):
        ts = lex(text, self.where)
        return all(self.peek(k) == v for k, (_, v) in enumerate(ts))

    def skip_macros(self):
        """trace!(...); / debug!(...); lines have no effect the model knows about"""
        while self.kind() == "id" and self.peek() in ("trace", "debug") and self.peek(1) == "!":
            self.eat()
            self.eat("!")
            self.eat("(")
            depth = 1
            while depth:
                x = self.eat()
                depth += x == "("
                depth -= x == ")"
            if self.peek() == ";":
                self.eat()

    def block_tokens(self):
        """at `{`: returns the tokens inside the matching braces"""
        self.eat("{")
        depth, start = 1, self.i
        while depth:
            x = self.eat()
            depth += x == "{"
            depth -= x == "}"
        return self.t[start:self.i - 1]


def rust_str(lit):
    body = lit[1:-1]
    if "\\" in body:
        die("escape in string literal %s" % lit)
    return body


def coq_bytes(s):
    return "[%s] (* %s *)" % ("; ".join(str(b) for b in s.encode()), s.replace("*)", "* )"))


M64 = 1 << 64


# ----------------------------------------------------------------------------- expressions of the operator arms
class Ex:
    def __init__(self, p, vars_):
        self.p, self.vars = p, vars_

    # precedence (low -> high):  ||  ==  ^  &  + -  as  unary  postfix
    def cond(self):
        n = self.cond_atom()
        while self.p.peek() == "||":
            self.p.eat()
            r = self.cond_atom()
            n = "(COr %s %s)" % (n, r)
        return n

    def cond_atom(self):
        if self.p.peek() == "!":
            self.p.eat()
            return "(CNot %s)" % self.cond_atom()
        if self.p.peek() == "(":
            # could be a parenthesised condition or expression; only conditions are allowed to start with '(' here
            self.p.eat("(")
            n = self.cond()
            self.p.eat(")")
            return n
        e = self.xor()
        if self.p.peek() == "==":
            self.p.eat()
            r = self.xor()
            return "(CEq %s %s)" % (e, r)
        if self.p.at_seq(". is_power_of_two ( )"):
            self.p.eat_seq(". is_power_of_two ( )")
            return "(CPow2 %s)" % e
        die("%s: condition not recognised after `%s`" % (self.p.where, e))

    def xor(self):
        n = self.band()
        while self.p.peek() == "^":
            self.p.eat()
            n = "(GXor %s %s)" % (n, self.band())
        return n

    def band(self):
        n = self.add()
        while self.p.peek() == "&":
            self.p.eat()
            n = "(GAnd %s %s)" % (n, self.add())
        return n

    def add(self):
        n = self.cast()
        while self.p.peek() in ("-", "+", "*", "/", "%"):
            op = self.p.eat()
            if op != "-":
                die("%s: plain `%s` on integers is not in the translated language (only `-`)" % (self.p.where, op))
            n = "(GSub %s %s)" % (n, self.cast())
        return n

    def cast(self):
        n = self.unary()
        while self.p.peek() == "as":
            self.p.eat()
            ty = self.p.eat()
            if not (isinstance(n, tuple) and ty == "u64"):
                die("%s: only `<literal> as u64` casts are translated" % self.p.where)
            n = ("u64", n[1] % M64)
        return n if not isinstance(n, tuple) else self.lit(n)

    def lit(self, n):
        ty, v = n
        if ty != "u64" or not (0 <= v < M64):
            die("%s: literal of type %s / value %d where a u64 is needed" % (self.p.where, ty, v))
        return "(GLit %d)" % v

    def unary(self):
        if self.p.peek() == "-":
            self.p.eat()
            if self.p.kind() != "num":
                die("%s: unary minus on a non-literal" % self.p.where)
            ty, v = self.number()
            if ty != "i64":
                die("%s: negative literal must be i64-suffixed" % self.p.where)
            return (ty, -v)
        return self.postfix()

    def number(self):
        x = self.p.eat()
        m = re.match(r"([0-9_]+)([iu][0-9a-z]+)?$", x)
        return (m.group(2) or "u64", int(m.group(1).replace("_", "")))

    def postfix(self):
        if self.p.peek() == "(":
            self.p.eat()
            n = self.xor()
            self.p.eat(")")
        elif self.p.kind() == "num":
            n = self.number()
            if self.p.peek() != "as":
                n = self.lit(n)
            return n
        elif self.p.kind() == "id":
            name = self.p.eat()
            if name not in self.vars:
                die("%s: unknown variable `%s`" % (self.p.where, name))
            n = "(GVar %d)" % self.vars.index(name)
        else:
            die("%s: expression not recognised at `%s`" % (self.p.where, self.p.peek()))
        while self.p.peek() == "." and self.p.peek(1) != "is_power_of_two":
            self.p.eat(".")
            meth = self.p.eat()
            ops = {"wrapping_add": "GWrapAdd", "wrapping_sub": "GWrapSub", "wrapping_mul": "GWrapMul",
                   "wrapping_div": "GWrapDiv", "wrapping_rem": "GWrapRem"}
            if meth not in ops:
                die("%s: method `%s` is not in the translated language" % (self.p.where, meth))
            self.p.eat("(")
            a = self.xor()
            self.p.eat(")")
            n = "(%s %s %s)" % (ops[meth], n, a)
        return n


def arm_body(toks, where):
    p = P(toks, where)
    vars_, stmts = [], []
    while p.peek() is not None:
        p.skip_macros()
        if p.peek() is None:
            break
        if p.peek() == "let":
            p.eat()
            name = p.eat()
            p.eat_seq("= stack . pop ( ) ? ;")
            if name in vars_:
                die("%s: `%s` bound twice" % (where, name))
            vars_.append(name)
            stmts.append("SPop")
        elif p.peek() == "if":
            p.eat()
            c = Ex(p, vars_).cond()
            body = p.block_tokens()
            if [v for _, v in body] != ["return", "None", ";"]:
                die("%s: the body of an `if` inside an operator arm must be `return None;`" % where)
            stmts.append("SGuard %s" % c)
        elif p.at_seq("return None ;"):
            p.eat_seq("return None ;")
            stmts.append("SReturnNone")
            if p.peek() is not None:
                die("%s: code after `return None;`" % where)
        elif p.at_seq("stack . push ("):
            p.eat_seq("stack . push (")
            if p.at_seq("walker . get_register_at_address ("):
                p.eat_seq("walker . get_register_at_address (")
                e = Ex(p, vars_).xor()
                p.eat_seq(") ? )")
                stmts.append("SPushDeref %s" % e)
            elif p.at_seq("cfa ? )"):
                p.eat_seq("cfa ? )")
                stmts.append("SPushCfa")
            else:
                e = Ex(p, vars_).xor()
                p.eat(")")
                stmts.append("SPush %s" % e)
            if p.peek() == ";":
                p.eat()
            elif p.peek() is not None:
                die("%s: `stack.push(..)` without `;` must be the last statement" % where)
        else:
            die("%s: statement not recognised at `%s`" % (where, " ".join(v for _, v in p.t[p.i:p.i + 8])))
    return stmts


# ----------------------------------------------------------------------------- eval_cfi_expr
sig, body = find_fn("eval_cfi_expr")
if lex(sig, "eval_cfi_expr") != lex("fn eval_cfi_expr(expr: &str, walker: &mut dyn FrameWalker, cfa: Option<u64>) -> Option<u64>", "x"):
    die("eval_cfi_expr: signature changed: " + " ".join(sig.split()))
p = P(lex(body, "eval_cfi_expr"), "eval_cfi_expr")
p.eat("{")
p.eat_seq("let mut stack : Vec < u64 > = Vec :: new ( ) ;")
p.eat_seq("for token in expr . split_ascii_whitespace ( )")
loop = P(p.block_tokens(), "eval_cfi_expr loop")
p.eat_seq("if stack . len ( ) ==")
final_len = int(p.eat())
p.eat_seq("{ stack . pop ( ) } else { None } }")
if p.peek() is not None:
    die("eval_cfi_expr: text after the final if/else")
loop.eat_seq("match token")
arms_p = P(loop.block_tokens(), "eval_cfi_expr match")
if loop.peek() is not None:
    die("eval_cfi_expr: the loop body is more than `match token { .. }`")
arms, default = [], None
while arms_p.peek() is not None:
    if arms_p.kind() == "str":
        tok = rust_str(arms_p.eat())
        if any(ord(c) <= 32 or ord(c) >= 127 for c in tok) or tok == "":
            die("eval_cfi_expr: arm pattern %r is not a printable ASCII token" % tok)
        if default is not None:
            die("eval_cfi_expr: arm after `_`")
        if tok in [a for a, _ in arms]:
            die("eval_cfi_expr: arm %r twice" % tok)
        arms_p.eat("=>")
        arms.append((tok, arm_body(arms_p.block_tokens(), "eval_cfi_expr arm %r" % tok)))
    elif arms_p.peek() == "_":
        arms_p.eat()
        arms_p.eat("=>")
        default = arms_p.block_tokens()
    else:
        die("eval_cfi_expr: arm pattern not recognised: `%s` (guards / alternatives are not translated)" % arms_p.peek())
    if arms_p.peek() == ",":
        arms_p.eat()
if default is None:
    die("eval_cfi_expr: no `_ =>` arm")

# the default arm: an if-let chain
d = P(default, "eval_cfi_expr default arm")
chain = []
SHAPES = [
    ("DAfterDollar", "if let Some ( ( _ , reg ) ) = token . split_once ( '$' ) { stack . push ( walker . get_callee_register ( reg ) ? ) ; }"),
    ("DInt 64", "if let Ok ( value ) = i64 :: from_str ( token ) { stack . push ( value as u64 ) }"),
    ("DInt 64", "if let Ok ( value ) = i64 :: from_str ( token ) { stack . push ( value as u64 ) ; }"),
    ("DBareReg", "if let Some ( reg ) = walker . get_callee_register ( token ) { stack . push ( reg ) ; }"),
]
first = True
while True:
    d.skip_macros()
    if not first:
        if d.peek() != "else":
            die("eval_cfi_expr default arm: the chain must end in `else { return None; }`")
        d.eat("else")
        if d.peek() == "{":
            tail = P(d.block_tokens(), "eval_cfi_expr default arm tail")
            tail.skip_macros()
            tail.eat_seq("return None ;")
            if tail.peek() is not None or d.peek() is not None:
                die("eval_cfi_expr default arm: text after the final `return None;`")
            break
    first = False
    for name, shape in SHAPES:
        if d.at_seq(shape):
            d.eat_seq(shape)
            if name in chain:
                die("eval_cfi_expr default arm: branch %s twice" % name)
            chain.append(name)
            break
    else:
        die("eval_cfi_expr default arm: branch not recognised at `%s`" % " ".join(v for _, v in d.t[d.i:d.i + 14]))

# ----------------------------------------------------------------------------- parse_cfi_exprs
sig, body = find_fn("parse_cfi_exprs")
if lex(sig, "x") != lex("fn parse_cfi_exprs<'a>(input: &'a str, output: &mut HashMap<CfiReg<'a>, &'a str>) -> Option<()>", "x"):
    die("parse_cfi_exprs: signature changed: " + " ".join(sig.split()))
p = P(lex(body, "parse_cfi_exprs"), "parse_cfi_exprs")
COMMIT = """let min_addr = expr_first ? . as_ptr ( ) as usize ;
            let max_addr = expr_last ? . as_ptr ( ) as usize + expr_last ? . len ( ) ;
            let expr = & input [ min_addr - base_addr .. max_addr - base_addr ] ;"""
p.eat_seq("""{ let base_addr = input . as_ptr ( ) as usize ; let mut cur_reg = None ;
            let mut expr_first : Option < & str > = None ; let mut expr_last : Option < & str > = None ;
            for token in input . split_ascii_whitespace ( ) { if let Some ( token ) = token . strip_suffix (""")
if p.kind() != "chr":
    die("parse_cfi_exprs: strip_suffix argument is not a char literal")
label_suffix = p.eat()[1:-1]
if len(label_suffix) != 1:
    die("parse_cfi_exprs: strip_suffix char %r" % label_suffix)
p.eat_seq(") { if let Some ( reg ) = cur_reg {" + COMMIT + """ output . insert ( reg , expr ) ;
            expr_first = None ; expr_last = None ; } cur_reg =""")
# the classification chain
classify = []
while True:
    if p.at_seq("if token =="):
        p.eat_seq("if token ==")
        if p.kind() != "str":
            die("parse_cfi_exprs: comparison with a non-literal")
        name = rust_str(p.eat())
        p.eat_seq("{ Some ( CfiReg ::")
        var = p.eat()
        p.eat_seq(") } else")
        if var not in ("Cfa", "Ra"):
            die("parse_cfi_exprs: `== %r` maps to CfiReg::%s" % (name, var))
        classify.append("KEq %s K%s" % (coq_bytes(name), var))
    elif p.at_seq("if let Some ( token ) = token . strip_prefix ("):
        p.eat_seq("if let Some ( token ) = token . strip_prefix (")
        ch = p.eat()
        if ch != "'$'":
            die("parse_cfi_exprs: strip_prefix(%s)" % ch)
        p.eat_seq(") { Some ( CfiReg :: Other ( token ) ) } else")
        classify.append("KStripPrefix 36")
    elif p.at_seq("{ Some ( CfiReg :: Other ( token ) ) } ;"):
        p.eat_seq("{ Some ( CfiReg :: Other ( token ) ) } ;")
        classify.append("KBare")
        break
    else:
        die("parse_cfi_exprs: classification branch not recognised at `%s`" % " ".join(v for _, v in p.t[p.i:p.i + 12]))
p.eat_seq("""} else { cur_reg . as_ref ( ) ? ; if expr_first . is_none ( ) { expr_first = Some ( token ) ; }
            expr_last = Some ( token ) ; } }""" + COMMIT + " output . insert ( cur_reg ? , expr ) ; Some ( ( ) ) }")
if p.peek() is not None:
    die("parse_cfi_exprs: trailing text")

# ----------------------------------------------------------------------------- walk_with_stack_cfi
sig, body = find_fn("walk_with_stack_cfi")
if lex(sig, "x") != lex("pub fn walk_with_stack_cfi(init: &CfiRules, additional: &[CfiRules], walker: &mut dyn FrameWalker,) -> Option<()>", "x"):
    die("walk_with_stack_cfi: signature changed: " + " ".join(sig.split()))
p = P(lex(body, "walk_with_stack_cfi"), "walk_with_stack_cfi")
p.eat("{")
p.skip_macros()
if p.at_seq("for line in additional { trace !"):
    p.eat_seq("for line in additional")
    inner = P(p.block_tokens(), "walk_with_stack_cfi trace loop")
    inner.skip_macros()
    if inner.peek() is not None:
        die("walk_with_stack_cfi: the first loop over `additional` does more than trace")
p.skip_macros()
p.eat_seq("let mut exprs = HashMap :: new ( ) ;")
steps = []       # the skeleton, in source order
have = set()


def arg_cfa():
    if p.at_seq("None"):
        p.eat()
        return "false"
    p.eat_seq("Some ( cfa )")
    if "cfa" not in have:
        die("walk_with_stack_cfi: `cfa` used before it is computed")
    return "true"


while True:
    p.skip_macros()
    if p.at_seq("parse_cfi_exprs ( & init . rules , & mut exprs ) ? ;"):
        p.eat_seq("parse_cfi_exprs ( & init . rules , & mut exprs ) ? ;")
        steps.append("WParseInit")
    elif p.at_seq("for line in additional { parse_cfi_exprs ( & line . rules , & mut exprs ) ? ; }"):
        p.eat_seq("for line in additional { parse_cfi_exprs ( & line . rules , & mut exprs ) ? ; }")
        steps.append("WParseAdditional")
    elif p.at_seq("let cfa_expr = exprs . remove ( & CfiReg :: Cfa ) ? ;"):
        p.eat_seq("let cfa_expr = exprs . remove ( & CfiReg :: Cfa ) ? ;")
        steps.append("WRemoveCfa")
        have.add("cfa_expr")
    elif p.at_seq("let ra_expr = exprs . remove ( & CfiReg :: Ra ) ? ;"):
        p.eat_seq("let ra_expr = exprs . remove ( & CfiReg :: Ra ) ? ;")
        steps.append("WRemoveRa")
        have.add("ra_expr")
    elif p.at_seq("let cfa = eval_cfi_expr ( cfa_expr , walker ,"):
        if "cfa_expr" not in have:
            die("walk_with_stack_cfi: cfa_expr used before exprs.remove")
        p.eat_seq("let cfa = eval_cfi_expr ( cfa_expr , walker ,")
        steps.append("WEvalCfa %s" % arg_cfa())
        p.eat_seq(") ? ;")
        have.add("cfa")
    elif p.at_seq("let ra = eval_cfi_expr ( ra_expr , walker ,"):
        if "ra_expr" not in have:
            die("walk_with_stack_cfi: ra_expr used before exprs.remove")
        p.eat_seq("let ra = eval_cfi_expr ( ra_expr , walker ,")
        steps.append("WEvalRa %s" % arg_cfa())
        p.eat_seq(") ? ;")
        have.add("ra")
    elif p.at_seq("walker . set_cfa ( cfa ) ? ;"):
        if "cfa" not in have:
            die("walk_with_stack_cfi: set_cfa before cfa is computed")
        p.eat_seq("walker . set_cfa ( cfa ) ? ;")
        steps.append("WSetCfa")
    elif p.at_seq("walker . set_ra ( ra ) ? ;"):
        if "ra" not in have:
            die("walk_with_stack_cfi: set_ra before ra is computed")
        p.eat_seq("walker . set_ra ( ra ) ? ;")
        steps.append("WSetRa")
    elif p.at_seq("let mut exprs : Vec < _ > = exprs . into_iter ( ) . collect ( ) ;"):
        p.eat_seq("let mut exprs : Vec < _ > = exprs . into_iter ( ) . collect ( ) ;")
        if p.at_seq("exprs . sort_unstable ( ) ;"):
            p.eat_seq("exprs . sort_unstable ( ) ;")
        elif p.at_seq("exprs . sort ( ) ;"):
            p.eat_seq("exprs . sort ( ) ;")
        else:
            die("walk_with_stack_cfi: the collected rules are not sorted (HashMap order is not a function of the input)")
        steps.append("WSort")
        have.add("sorted")
    elif p.at_seq("for ( reg , expr ) in exprs"):
        break
    else:
        die("walk_with_stack_cfi: statement not recognised at `%s`" % " ".join(v for _, v in p.t[p.i:p.i + 12]))
if "sorted" not in have:
    die("walk_with_stack_cfi: the rule loop iterates the HashMap directly (order not a function of the input)")
p.eat_seq("for ( reg , expr ) in exprs")
lp = P(p.block_tokens(), "walk_with_stack_cfi rule loop")
p.eat_seq("Some ( ( ) ) }")
if p.peek() is not None:
    die("walk_with_stack_cfi: trailing text")
lp.eat_seq("if let CfiReg :: Other ( reg ) = reg")
rule = P(lp.block_tokens(), "walk_with_stack_cfi rule body")
lp.eat("else")
unr = P(lp.block_tokens(), "walk_with_stack_cfi else")
unr.eat_seq("unreachable ! ( )")
if unr.peek() is not None or lp.peek() is not None:
    die("walk_with_stack_cfi: the else branch of the rule loop is not `unreachable!()`")
rule.skip_macros()
rule.eat_seq("match eval_cfi_expr ( expr , walker ,")
p = rule
loop_cfa = arg_cfa()
rule.eat(")")
m = P(rule.block_tokens(), "walk_with_stack_cfi rule match")
if rule.peek() is not None:
    die("walk_with_stack_cfi: text after the rule match")


def actions(pp):
    """a block of walker calls -> list of action names"""
    acts = []
    while True:
        pp.skip_macros()
        if pp.peek() is None:
            return acts
        if pp.at_seq("walker . clear_caller_register ( reg ) ;"):
            pp.eat_seq("walker . clear_caller_register ( reg ) ;")
            acts.append("AClear")
        else:
            die("%s: action not recognised at `%s`" % (pp.where, " ".join(v for _, v in pp.t[pp.i:pp.i + 8])))


on_ok = on_reject = on_fail = None
while m.peek() is not None:
    if m.at_seq("Some ( val ) =>"):
        m.eat_seq("Some ( val ) =>")
        b = P(m.block_tokens(), "walk_with_stack_cfi Some(val) arm")
        b.eat_seq("if walker . set_caller_register ( reg , val ) . is_some ( )")
        on_ok = actions(P(b.block_tokens(), "walk_with_stack_cfi accepted"))
        b.eat("else")
        on_reject = actions(P(b.block_tokens(), "walk_with_stack_cfi rejected"))
        if b.peek() is not None:
            die("walk_with_stack_cfi: text after the set_caller_register if/else")
    elif m.at_seq("None =>"):
        m.eat_seq("None =>")
        on_fail = actions(P(m.block_tokens(), "walk_with_stack_cfi None arm"))
    else:
        die("walk_with_stack_cfi: rule match arm not recognised at `%s`" % " ".join(v for _, v in m.t[m.i:m.i + 8]))
    if m.peek() == ",":
        m.eat()
if on_ok is None or on_fail is None:
    die("walk_with_stack_cfi: the rule match lacks a Some(val) or a None arm")

# ----------------------------------------------------------------------------- enum CfiReg
m_ = re.search(r"#\[derive\(([^)]*)\)\]\s*enum CfiReg<'a>\s*\{([^}]*)\}", src)
if not m_:
    die("enum CfiReg<'a> with its derive not found")
derives = [x.strip() for x in m_.group(1).split(",")]
for need in ("PartialEq", "Eq", "PartialOrd", "Ord", "Hash"):
    if need not in derives:
        die("enum CfiReg no longer derives %s" % need)
variants = [re.sub(r"\s+", "", v) for v in m_.group(2).split(",") if v.strip()]
if variants != ["Cfa", "Ra", "Other(&'astr)"]:
    die("enum CfiReg variants changed: %s" % variants)


# ----------------------------------------------------------------------------- record selection (mod.rs, parser.rs, types.rs)
def nows(t):
    return re.sub(r"\s+", "", re.sub(r"//[^\n]*", "", t))


modrs = open(os.path.join(repo, "breakpad-symbols/src/sym_file/mod.rs")).read()
m_ = re.search(r"win_stack_result\.or_else\(\|\|\s*\{(.*?)\n        \}\)", modrs, re.S)
if not m_:
    die("mod.rs walk_frame: `win_stack_result.or_else(|| { .. })` not found")
closure = nows(m_.group(1))
m2 = re.fullmatch(re.escape("ifletSome(info)=self.cfi_stack_info.get(addr){letmutcount=0;letlen=info.add_rules.len();"
                            "whilecount<len&&info.add_rules[count].address") + r"(<=|<|>=|>|==|!=)" +
                  re.escape("addr{count+=1;}walker::walk_with_stack_cfi(&info.init,&info.add_rules[0..count],walker)}else{None}"),
                  closure)
if not m2:
    die("mod.rs walk_frame: the STACK CFI branch changed: " + closure[:400])
if m2.group(1) not in ("<=", "<"):
    die("mod.rs walk_frame: delta records are selected with `address %s addr`" % m2.group(1))
take_cmp = {"<=": "CmpLe", "<": "CmpLt"}[m2.group(1)]
if nows("let addr = walker.get_instruction() - module.base_address();") not in nows(modrs):
    die("mod.rs walk_frame: `addr` is no longer instruction - module base")
if nows("if walker.get_instruction() < module.base_address() { return None; } let addr =") not in nows(modrs):
    die("mod.rs walk_frame: the guard `instruction < module base -> None` in front of the subtraction changed")
parser = open(os.path.join(repo, "breakpad-symbols/src/sym_file/parser.rs")).read()
m_ = re.search(r"Line::StackCfi\(mut cur\) => \{(.*?)\n            \}", parser, re.S)
if not m_:
    die("parser.rs finish_item: `Line::StackCfi(mut cur) => { .. }` not found")
arm = nows(m_.group(1))
tail_ = "ifletSome(range)=cur.memory_range(){self.cfi_stack_info.push((range,cur));}"
if arm == "cur.add_rules.sort();" + tail_:
    deltas_sorted = "true"
elif arm == tail_:
    deltas_sorted = "false"
else:
    die("parser.rs finish_item: the StackCfi arm changed: " + arm[:300])
types = open(os.path.join(repo, "breakpad-symbols/src/sym_file/types.rs")).read()
m_ = re.search(r"#\[derive\(([^)]*)\)\]\s*pub struct CfiRules \{(.*?)\}", types, re.S)
if not m_:
    die("types.rs: struct CfiRules with its derive not found")
if not {"Ord", "PartialOrd", "Eq", "PartialEq"} <= {x.strip() for x in m_.group(1).split(",")}:
    die("types.rs: CfiRules no longer derives Ord")
flds = re.findall(r"pub (\w+): (\w+),", re.sub(r"///[^\n]*", "", m_.group(2)))
if flds != [("address", "u64"), ("rules", "String")]:
    die("types.rs: CfiRules fields changed (the derived Ord compares them in order): %s" % flds)
# StackInfoCfi: field order and derive(PartialEq) (cfi_rec_eqb of C06/FileTable.v = the derived ==, which decides
# whether into_rangemap_safe merges two records or drops the later one)
m_ = re.search(r"#\[derive\(([^)]*)\)\]\s*pub struct StackInfoCfi \{(.*?)\}", types, re.S)
if not m_:
    die("types.rs: struct StackInfoCfi with its derive not found")
if not {"Eq", "PartialEq"} <= {x.strip() for x in m_.group(1).split(",")}:
    die("types.rs: StackInfoCfi no longer derives PartialEq")
flds = re.findall(r"pub (\w+): ([\w<>]+),", re.sub(r"///[^\n]*", "", m_.group(2)))
if flds != [("init", "CfiRules"), ("size", "u32"), ("add_rules", "Vec<CfiRules>")]:
    die("types.rs: StackInfoCfi fields changed: %s" % flds)
m_ = re.search(r"impl StackInfoCfi \{\s*pub fn memory_range\(&self\) -> Option<Range<u64>> \{(.*?)\n    \}", types, re.S)
if not m_ or nows(m_.group(1)) != "ifself.size==0{returnNone;}Some(Range::new(self.init.address,self.init.address.checked_add(self.sizeasu64)?-1,))":
    die("types.rs: StackInfoCfi::memory_range changed")


# ----------------------------------------------------------------------------- CfiStackWalker's FrameWalker callbacks (pinned)
librs = open(os.path.join(repo, "minidump-unwind/src/lib.rs")).read()
i_ = librs.find("impl<'a, C> FrameWalker for CfiStackWalker<'a, C>")
if i_ < 0:
    die("minidump-unwind/src/lib.rs: impl FrameWalker for CfiStackWalker not found")
j_ = librs.index("\n}\n", i_)
impl = librs[i_:j_]
CALLBACKS = [
    ("get_instruction", "(&self)->u64", "self.instruction"),
    ("has_grand_callee", "(&self)->bool", "self.has_grand_callee"),
    ("get_grand_callee_parameter_size", "(&self)->u32", "self.grand_callee_parameter_size"),
    ("get_register_at_address", "(&self,address:u64)->Option<u64>",
     "letresult:Option<C::Register>=self.stack_memory.get_memory_at_address(address);result.and_then(|val|u64::try_from(val).ok())"),
    ("get_callee_register", "(&self,name:&str)->Option<u64>",
     "self.callee_ctx.get_register(name,self.callee_validity).and_then(|val|u64::try_from(val).ok())"),
    ("set_caller_register", "(&mutself,name:&str,val:u64)->Option<()>",
     "letmemoized=self.caller_ctx.memoize_register(name)?;letval=C::Register::try_from(val).ok()?;"
     "self.caller_validity.insert(memoized);self.caller_ctx.set_register(name,val)"),
    ("clear_caller_register", "(&mutself,name:&str)",
     "ifletSome(memoized)=self.caller_ctx.memoize_register(name){self.caller_validity.remove(memoized);}"),
    ("set_cfa", "(&mutself,val:u64)->Option<()>",
     "letstack_pointer_reg=self.caller_ctx.stack_pointer_register_name();letval=C::Register::try_from(val).ok()?;"
     "self.caller_validity.insert(stack_pointer_reg);self.caller_ctx.set_register(stack_pointer_reg,val)"),
    ("set_ra", "(&mutself,val:u64)->Option<()>",
     "letinstruction_pointer_reg=self.caller_ctx.instruction_pointer_register_name();letval=C::Register::try_from(val).ok()?;"
     "self.caller_validity.insert(instruction_pointer_reg);self.caller_ctx.set_register(instruction_pointer_reg,val)"),
]
found = re.findall(r"\n    fn (\w+)", impl)
if found != [c[0] for c in CALLBACKS]:
    die("CfiStackWalker: the FrameWalker callbacks are now %s" % found)
for name, sig_, want in CALLBACKS:
    k_ = impl.index("\n    fn %s" % name)
    b_ = impl.index("{", k_)
    e_ = impl.index("\n    }", b_)
    if nows(impl[k_ + len("\n    fn %s" % name):b_]) != sig_:
        die("CfiStackWalker::%s: signature changed: %s" % (name, nows(impl[k_:b_])))
    if nows(impl[b_ + 1:e_]) != want:
        die("CfiStackWalker::%s: body changed (the real-walker model real_ops / real_callee / mem_read of C06/Model.v was written for `%s`): %s"
            % (name, want, nows(impl[b_ + 1:e_])[:300]))

# ----------------------------------------------------------------------------- 32-bit ARM / MIPS contexts (round 5, second pass)
# size_of::<Register>() of the contexts CfiStackWalker is instantiated with, Mips32Context (the u32 view of the one
# CONTEXT_MIPS: callee values are `as u32`, written values widened), the flag that selects it, arm's alias-aware
# register_is_valid
ctxrs = open(os.path.join(repo, "minidump/src/context.rs")).read()
mipsrs = open(os.path.join(repo, "minidump-unwind/src/mips.rs")).read()


def impl_block(text, head, where):
    i = text.find(head)
    if i < 0:
        die("%s: `%s` not found" % (where, head))
    j = text.index("\n}\n", i)
    return text[i:j]


def reg_bytes(block, where):
    m = re.search(r"\n    type Register = u(8|16|32|64|128);", block)
    if not m:
        die("%s: `type Register = uN;` not found" % where)
    return int(m.group(1)) // 8


arm_impl = impl_block(ctxrs, "impl CpuContext for md::CONTEXT_ARM {", "context.rs")
mips_impl = impl_block(ctxrs, "impl CpuContext for md::CONTEXT_MIPS {", "context.rs")
m32_impl = impl_block(mipsrs, "impl CpuContext for Mips32Context {", "mips.rs")
arm_reg_bytes, mips64_reg_bytes, mips32_reg_bytes = reg_bytes(arm_impl, "CONTEXT_ARM"), reg_bytes(mips_impl, "CONTEXT_MIPS"), reg_bytes(m32_impl, "Mips32Context")
fns = re.findall(r"\n    fn (\w+)", mips_impl)
if fns != ["get_register_always", "set_register", "stack_pointer_register_name", "instruction_pointer_register_name"]:
    die("CONTEXT_MIPS: CpuContext methods are now %s (memoize_register / register_is_valid are assumed to be the trait defaults)" % fns)
want32 = ("typeRegister=u32;constREGISTERS:&'static[&'staticstr]=<MipsContextasCpuContext>::REGISTERS;"
          "fnget_register_always(&self,reg:&str)->Self::Register{self.0.get_register_always(reg)asu32}"
          "fnset_register(&mutself,reg:&str,val:Self::Register)->Option<()>{self.0.set_register(reg,val.into())}"
          "fnstack_pointer_register_name(&self)->&'staticstr{self.0.stack_pointer_register_name()}"
          "fninstruction_pointer_register_name(&self)->&'staticstr{self.0.instruction_pointer_register_name()}")
got32 = nows(m32_impl[m32_impl.index("{") + 1:])
if got32 != want32:
    die("mips.rs: impl CpuContext for Mips32Context changed (the model truncates callee values to 32 bits and keeps the 64-bit slots): " + got32[:400])
if nows("if ContextFlagsCpu::from_flags(ctx.context_flags).contains(ContextFlagsCpu::CONTEXT_MIPS64) { Err(ctx) } else { Ok(Self(ctx)) }") not in nows(mipsrs):
    die("mips.rs: TryFrom<MipsContext> for Mips32Context no longer selects the 32-bit view by the CONTEXT_MIPS64 flag")
if nows("match &ctx32 { Ok(mips32) => frame = get_caller_by_cfi(mips32, args).await, Err(mips64) => frame = get_caller_by_cfi(mips64, args).await, }") not in nows(mipsrs):
    die("mips.rs get_caller_frame: the CFI dispatch on Mips32Context / MipsContext changed")
want_valid = ("ifletMinidumpContextValidity::Some(refwhich)=valid{matchreg{"
              "\"r11\"|\"fp\"=>which.contains(\"r11\")||which.contains(\"fp\"),"
              "\"r13\"|\"sp\"=>which.contains(\"r13\")||which.contains(\"sp\"),"
              "\"r14\"|\"lr\"=>which.contains(\"r14\")||which.contains(\"lr\"),"
              "\"r15\"|\"pc\"=>which.contains(\"r15\")||which.contains(\"pc\"),"
              "_=>which.contains(reg),}}else{self.memoize_register(reg).is_some()}")
k_ = arm_impl.find("\n    fn register_is_valid(&self, reg: &str, valid: &MinidumpContextValidity) -> bool {")
if k_ < 0:
    die("CONTEXT_ARM: register_is_valid override not found")
b_ = arm_impl.index("{", k_)
e_ = arm_impl.index("\n    }", b_)
if nows(arm_impl[b_ + 1:e_]) != want_valid:
    die("CONTEXT_ARM::register_is_valid changed (real_callee resolves a name through memoize and tests the canonical name): " + nows(arm_impl[b_ + 1:e_])[:400])
want_default_valid = "ifletMinidumpContextValidity::Some(refwhich)=*valid{which.contains(reg)}else{self.memoize_register(reg).is_some()}"
k_ = ctxrs.find("\n    fn register_is_valid(&self, reg: &str, valid: &MinidumpContextValidity) -> bool {")
b_ = ctxrs.index("{", k_)
e_ = ctxrs.index("\n    }", b_)
if k_ < 0 or nows(ctxrs[b_ + 1:e_]) != want_default_valid:
    die("CpuContext::register_is_valid (trait default) changed")

# the pre-2016 arm64 context: its unwinder and its CpuContext impl are the arm64 ones modulo the type name, so the
# arm64 model (table k = 2, post_real's pointer-authentication mask) is also the model of CONTEXT_ARM64_OLD
def _norm_old(t):
    return t.replace("CONTEXT_ARM64_OLD", "CONTEXT_ARM64").replace("OldArm64", "Arm64")


a64 = open(os.path.join(repo, "minidump-unwind/src/arm64.rs")).read()
a64o = open(os.path.join(repo, "minidump-unwind/src/arm64_old.rs")).read()
if _norm_old(a64o) != a64:
    die("minidump-unwind/src/arm64_old.rs is no longer arm64.rs modulo the context type (front-end B drives CONTEXT_ARM64_OLD against the arm64 model)")
if _norm_old(impl_block(ctxrs, "impl CpuContext for md::CONTEXT_ARM64_OLD {", "context.rs")) != impl_block(ctxrs, "impl CpuContext for md::CONTEXT_ARM64 {", "context.rs"):
    die("context.rs: impl CpuContext for CONTEXT_ARM64_OLD differs from the one for CONTEXT_ARM64")

# ----------------------------------------------------------------------------- output
def lst(items, indent="  "):
    if not items:
        return "[]"
    return "[" + (";\n" + indent + " ").join(items) + "]"


out = """(* GENERATED by translate/c06_cfi_ops.py from breakpad-symbols/src/sym_file/walker.rs — do not edit *)
From Coq Require Import ZArith List.
Import ListNotations.
Open Scope Z_scope.

(* ---- the statement language of an operator arm of eval_cfi_expr ---- *)
Inductive gexp :=
| GVar (n : nat)                 (* the n-th `let x = stack.pop()?` of the arm (0 = first = top of stack) *)
| GLit (z : Z)                   (* u64 literal (`-1i64 as u64` folded) *)
| GWrapAdd (a b : gexp) | GWrapSub (a b : gexp) | GWrapMul (a b : gexp)
| GWrapDiv (a b : gexp) | GWrapRem (a b : gexp)     (* u64::wrapping_div / wrapping_rem: panic on a zero divisor *)
| GAnd (a b : gexp) | GXor (a b : gexp)
| GSub (a b : gexp).             (* plain `-` on u64: overflow-checked in debug builds *)
Inductive gcond :=
| CEq (a b : gexp) | CPow2 (a : gexp) | CNot (c : gcond) | COr (a b : gcond).
Inductive gstmt :=
| SPop                           (* let x = stack.pop()?; *)
| SGuard (c : gcond)             (* if c { return None; } *)
| SPush (e : gexp)               (* stack.push(e) *)
| SPushDeref (e : gexp)          (* stack.push(walker.get_register_at_address(e)?) *)
| SPushCfa                       (* stack.push(cfa?) *)
| SReturnNone.                   (* return None; *)

(* `match token { "tok" => { .. } .. }` in source order *)
Definition cfi_arms : list (list Z * list gstmt) :=
  %s.

(* the `_ =>` arm: an if-let chain ending in `return None` *)
Inductive gdefault :=
| DAfterDollar                   (* if let Some((_, reg)) = token.split_once('$') { push(get_callee_register(reg)?) } *)
| DInt (bits : Z)                (* else if let Ok(value) = i64::from_str(token) { push(value as u64) } *)
| DBareReg.                      (* else if let Some(reg) = walker.get_callee_register(token) { push(reg) } *)
Definition cfi_default : list gdefault := %s.

(* if stack.len() == N { stack.pop() } else { None } *)
Definition cfi_final_len : nat := %d.

(* ---- parse_cfi_exprs ---- *)
Definition cfi_label_suffix : Z := %d.   (* token.strip_suffix('%s') *)
Inductive gregk := KCfa | KRa.
Inductive gclass :=
| KEq (name : list Z) (k : gregk)       (* if token == "name" { Some(CfiReg::k) } *)
| KStripPrefix (c : Z)                  (* else if let Some(token) = token.strip_prefix(c) { Some(CfiReg::Other(token)) } *)
| KBare.                                (* else { Some(CfiReg::Other(token)) } *)
Definition cfi_classify : list gclass :=
  %s.

(* ---- walk_with_stack_cfi: the statement skeleton in source order ---- *)
Inductive wstep :=
| WParseInit | WParseAdditional
| WRemoveCfa | WRemoveRa
| WEvalCfa (with_cfa : bool)            (* eval_cfi_expr(cfa_expr, walker, None | Some(cfa))? *)
| WEvalRa (with_cfa : bool)
| WSetCfa | WSetRa
| WSort.                                (* collect + sort_unstable (derived Ord of CfiReg: %s) *)
Definition cfi_walk_steps : list wstep := %s.
(* for (reg, expr) in exprs { match eval_cfi_expr(expr, walker, None | Some(cfa)) { .. } } *)
Inductive gact := AClear.
Definition cfi_loop_with_cfa : bool := %s.
Definition cfi_on_accepted : list gact := %s.    (* Some(val), set_caller_register(..).is_some() *)
Definition cfi_on_rejected : list gact := %s.    (* Some(val), set_caller_register(..) is None *)
Definition cfi_on_failed : list gact := %s.      (* None *)

(* ---- record selection ---- *)
Inductive gcmp := CmpLe | CmpLt.
(* mod.rs walk_frame: while count < len && info.add_rules[count].address <cmp> addr { count += 1 }; &add_rules[0..count] *)
Definition cfi_take_cmp : gcmp := %s.
(* parser.rs finish_item: cur.add_rules.sort() (derived Ord of CfiRules: address, then rules) *)
Definition cfi_deltas_sorted : bool := %s.

(* ---- minidump-unwind/src/lib.rs: the FrameWalker callbacks of CfiStackWalker, pinned to the text the real-walker
        model (real_ops, real_callee, mem_read of C06/Model.v) was written for ---- *)
Definition cfi_walker_callbacks : nat := %d.

(* ---- 32-bit ARM / MIPS contexts: size_of::<Register>() of the CpuContext CfiStackWalker is instantiated with
        (context.rs CONTEXT_ARM / CONTEXT_MIPS, mips.rs Mips32Context = the u32 view selected when the CONTEXT_MIPS64
        flag is absent: get_register_always is `.. as u32`, set_register widens) ---- *)
Definition cfi_arm_reg_bytes : Z := %d.
Definition cfi_mips32_reg_bytes : Z := %d.
Definition cfi_mips64_reg_bytes : Z := %d.
Definition cfi_mips32_callee_bits : Z := %d.
""" % (
    lst(["(%s,\n    %s)" % (coq_bytes(t), lst(ss, "    ")) for t, ss in arms]),
    lst(chain), final_len, ord(label_suffix), label_suffix, lst(classify),
    " < ".join(v.split("(")[0] for v in variants), lst(steps),
    loop_cfa, lst(on_ok), lst(on_reject or []), lst(on_fail), take_cmp, deltas_sorted, len(CALLBACKS),
    arm_reg_bytes, mips32_reg_bytes, mips64_reg_bytes, 8 * mips32_reg_bytes)
path = os.path.join(outdir, "CfiOps.v")
os.makedirs(outdir, exist_ok=True)
try:
    if open(path).read() == out:
        sys.exit(0)
except OSError:
    pass
open(path, "w").write(out)
