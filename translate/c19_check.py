#!/usr/bin/env python3
"""Translator: structure of the bit-flip check of minidump-processor -> coq/Gen/C19Check.v
argv: <repo> <outdir>.  Aborts loudly on anything it does not recognise.

Regenerated from the source on every run:
  * system_info::Cpu (variants), PointerWidth, Cpu::pointer_width (match arms),
    Cpu::from_processor_architecture (match arms) with the numeric values of
    minidump-common's ProcessorArchitecture                               -> gcpu / pointer_width / cpu_of_arch
  * check_for_bitflips: the `if COND { return; }` gates in front (any number, COND in a small grammar
    over cpu / pointer width / crash address), the three arms of the adjusted-address selection, and the
    rest of the body as a fixed skeleton (address pass, then register pass nested in the `if let Some((address,
    bit_range))` block, under `if let Some(context)`, same bit range / memory operation / memory map)
                                                                           -> g_gate / g_select / g_check
  * MemoryOperation::from_crash_reason and is_possibly_allowed_for (match arms) -> g_memop_of_access / g_allowed
  * try_get_non_canonical_crash_address: the NON_CANONICAL_RANGE constant     -> NON_CANONICAL_LO/HI
    (bitflip::try_bit_flips, calculate_heuristics, the adjusted-address helpers, represents_general_protection_fault and
     MinidumpException::get_crash_address are no longer pinned here: translate/c19_src.py COMPILES them -> Gen/C19Src.v)
  * BitFlipDetails::confidence: the guard and the index expression of the NEARBY_REGISTER lookup
                                                                           -> NEARBY_GUARD / NEARBY_INDEX
"""
import os
import re
import sys

repo, outdir = sys.argv[1], sys.argv[2]


def rd(p):
    return open(os.path.join(repo, p)).read()


def die(msg):
    sys.stderr.write("c19_check.py: " + msg + "\n")
    sys.exit(1)


def norm(s):
    s = re.sub(r"//[^\n]*", "", s)
    s = re.sub(r"/\*.*?\*/", "", s, flags=re.S)
    return re.sub(r"\s+", " ", s).strip()


def fn_body(src, header_re, what):
    """text of the brace-balanced block that follows the first match of header_re"""
    m = re.search(header_re, src)
    if not m:
        die(what + ": header not found")
    i = src.index("{", m.end() - 1)
    depth, j = 0, i
    in_str = False
    while j < len(src):
        ch = src[j]
        if in_str:
            if ch == "\\":
                j += 1
            elif ch == '"':
                in_str = False
        elif ch == '"':
            in_str = True
        elif ch == "/" and src[j + 1] == "/":
            j = src.index("\n", j)
            continue
        elif ch == "{":
            depth += 1
        elif ch == "}":
            depth -= 1
            if depth == 0:
                return src[i + 1:j]
        j += 1
    die(what + ": unbalanced braces")


pr = rd("minidump-processor/src/processor.rs")
ps = rd("minidump-processor/src/process_state.rs")
si = rd("minidump/src/system_info.rs")
fmt = rd("minidump-common/src/format.rs")

# ------------------------------------------------------------------ Cpu / PointerWidth
cpu_variants = [v.strip() for v in norm(fn_body(si, r"pub enum Cpu\s*\{", "enum Cpu")).split(",") if v.strip()]
if not cpu_variants or cpu_variants[-1] != "Unknown(u16)" or not all(re.fullmatch(r"\w+", v) for v in cpu_variants[:-1]):
    die("enum Cpu has an unrecognised shape: %r" % cpu_variants)
cpus = cpu_variants[:-1] + ["Unknown"]
widths = [v.strip() for v in norm(fn_body(si, r"pub enum PointerWidth\s*\{", "enum PointerWidth")).split(",") if v.strip()]
if sorted(widths) != ["Bits32", "Bits64", "Unknown"]:
    die("enum PointerWidth changed: %r" % widths)

pw = norm(fn_body(si, r"pub fn pointer_width\(&self\) -> PointerWidth\s*\{", "pointer_width"))
m = re.fullmatch(r"match self \{ (.*) \}", pw)
if not m:
    die("pointer_width body is not a single match: " + pw)
pw_of = {}
for pats, w in re.findall(r"((?:Cpu::\w+(?:\(_\))?\s*\|?\s*)+)=> PointerWidth::(\w+),", m.group(1)):
    for p in re.findall(r"Cpu::(\w+)", pats):
        if p in pw_of:
            die("pointer_width: duplicate arm for " + p)
        pw_of[p] = w
if re.sub(r"((?:Cpu::\w+(?:\(_\))?\s*\|?\s*)+)=> PointerWidth::(\w+),", "", m.group(1)).strip():
    die("pointer_width: unrecognised arm in " + m.group(1))
if set(pw_of) != set(cpus):
    die("pointer_width does not cover exactly the Cpu variants: %r vs %r" % (sorted(pw_of), sorted(cpus)))

arch_vals = {}
ab = fn_body(fmt, r"pub enum ProcessorArchitecture\s*\{", "enum ProcessorArchitecture")
for name, val in re.findall(r"(PROCESSOR_ARCHITECTURE_\w+)\s*=\s*(0x[0-9a-fA-F]+|\d+)\s*,", ab):
    arch_vals[name] = int(val, 0)
fa = norm(fn_body(si, r"pub fn from_processor_architecture\(arch: u16\) -> Cpu\s*\{", "from_processor_architecture"))
m = re.fullmatch(r"match md::ProcessorArchitecture::from_u16\(arch\) \{ (.*) _ => Cpu::Unknown\(arch\), \}", fa)
if not m:
    die("from_processor_architecture has an unrecognised shape: " + fa)
arm_re = r"((?:Some\(PROCESSOR_ARCHITECTURE_\w+\)\s*\|?\s*)+)=> (?:\{ Cpu::(\w+) \}|Cpu::(\w+),)"
arch_map = []   # (value, cpu)
for pats, c1, c2 in re.findall(arm_re, m.group(1)):
    c = c1 or c2
    if c not in cpus or c == "Unknown":
        die("from_processor_architecture: unknown Cpu " + c)
    for a in re.findall(r"Some\((PROCESSOR_ARCHITECTURE_\w+)\)", pats):
        if a not in arch_vals:
            die("from_processor_architecture: no numeric value for " + a)
        arch_map.append((arch_vals[a], c))
if re.sub(arm_re, "", m.group(1)).strip():
    die("from_processor_architecture: unrecognised arm in " + m.group(1))
if len({v for v, _ in arch_map}) != len(arch_map):
    die("from_processor_architecture: duplicate architecture value")

# ------------------------------------------------------------------ a small boolean expression grammar
TOK = re.compile(r"\s*(&&|\|\||!=|==|<=|>=|<<|[!()<>]|0x[0-9a-fA-F_]+|\d[\d_]*|[A-Za-z_][\w:.]*(?:\(\))?)")


def tokenize(s):
    out, i = [], 0
    s = s.strip()
    while i < len(s):
        m = TOK.match(s, i)
        if not m:
            die("condition: cannot tokenize %r at %r" % (s, s[i:i + 20]))
        out.append(m.group(1))
        i = m.end()
    return out


ADDR_NAMES = ("exception_details.info.address.0", "info.address.0")
CPU_NAMES = ("self.system_info.cpu",)
PW_NAMES = ("self.system_info.cpu.pointer_width()",)


class P:
    """cond := or ; or := and ('||' and)* ; and := not ('&&' not)* ; not := '!' not | '(' cond ')' | atom"""

    def __init__(self, toks, what):
        self.t, self.i, self.what = toks, 0, what

    def peek(self):
        return self.t[self.i] if self.i < len(self.t) else None

    def eat(self, x=None):
        t = self.peek()
        if t is None or (x is not None and t != x):
            die("%s: expected %r at token %d of %r" % (self.what, x, self.i, self.t))
        self.i += 1
        return t

    def cond(self):
        l = self.conj()
        while self.peek() == "||":
            self.eat()
            l = "(%s || %s)" % (l, self.conj())
        return l

    def conj(self):
        l = self.neg()
        while self.peek() == "&&":
            self.eat()
            l = "(%s && %s)" % (l, self.neg())
        return l

    def neg(self):
        if self.peek() == "!":
            self.eat()
            return "(negb %s)" % self.neg()
        if self.peek() == "(":
            self.eat()
            c = self.cond()
            self.eat(")")
            return c
        return self.atom()

    def num(self):
        t = self.eat()
        if not re.fullmatch(r"0x[0-9a-fA-F_]+|\d[\d_]*", t):
            die("%s: expected an integer literal, got %r" % (self.what, t))
        v = int(t.replace("_", ""), 0)
        if self.peek() == "<<":
            self.eat()
            t2 = self.eat()
            v = v << int(t2.replace("_", ""), 0)
        return v

    def atom(self):
        t = self.eat()
        if t in CPU_NAMES:
            op = self.eat()
            c = self.eat()
            mm = re.fullmatch(r"(?:system_info::)?Cpu::(\w+)", c)
            if op not in ("==", "!=") or not mm or mm.group(1) not in cpus or mm.group(1) == "Unknown":
                die("%s: unrecognised cpu comparison %s %s %s" % (self.what, t, op, c))
            e = "(gcpu_eqb c %s)" % ("G" + mm.group(1))
            return e if op == "==" else "(negb %s)" % e
        if t in PW_NAMES:
            op = self.eat()
            c = self.eat()
            mm = re.fullmatch(r"PointerWidth::(\w+)", c)
            if op not in ("==", "!=") or not mm or mm.group(1) not in widths:
                die("%s: unrecognised pointer-width comparison" % self.what)
            e = "(gwidth_eqb (pointer_width c) W%s)" % mm.group(1)
            return e if op == "==" else "(negb %s)" % e
        if t in ADDR_NAMES:
            op = self.eat()
            v = self.num()
            coq = {"<": "<?", "<=": "<=?", ">": ">?", ">=": ">=?", "==": "=?"}
            if op == "!=":
                return "(negb (address =? %d))" % v
            if op not in coq:
                die("%s: unrecognised address comparison %s" % (self.what, op))
            return "(address %s %d)" % (coq[op], v)
        die("%s: unrecognised atom %r in %r" % (self.what, t, self.t))


def cond_to_coq(s, what):
    p = P(tokenize(s), what)
    e = p.cond()
    if p.peek() is not None:
        die("%s: trailing tokens in %r" % (what, s))
    return e


# ------------------------------------------------------------------ check_for_bitflips
cb = norm(fn_body(pr, r"pub fn check_for_bitflips\(&self, exception_details: &mut ExceptionDetails<'a>\)\s*\{", "check_for_bitflips"))
SKEL = (r"(?P<gates>(?:if [^{}]+ \{ return; \} )*)"
        r"let info = &mut exception_details\.info; use bitflip::BitRange; use memory_operation::MemoryOperation; "
        r"let bit_flip_address = match &info\.adjusted_address \{ "
        r"Some\(AdjustedAddress::NonCanonical\(v\)\) => (?P<arm_nc>.+?), "
        r"Some\(AdjustedAddress::NullPointerWithOffset\(_\)\) => (?P<arm_null>.+?), "
        r"None => (?P<arm_none>.+?), \}; "
        r"if let Some\(\(address, bit_range\)\) = bit_flip_address \{ "
        r"let memory_op = MemoryOperation::from_crash_reason\(&info\.reason\); "
        r"info\.possible_bit_flips = bitflip::try_bit_flips\( address, None, bit_range, exception_details\.context\.as_deref\(\), &self\.memory_info, memory_op, \); "
        r"if let Some\(context\) = exception_details\.context\.as_deref\(\) \{ "
        r"for reg in &exception_details\.instruction_registers \{ "
        r"if let Some\(address\) = context\.get_register\(reg\) \{ "
        r"info\.possible_bit_flips\.extend\(bitflip::try_bit_flips\( address, Some\(reg\), (?P<regbr>bit_range|BitRange::\w+), Some\(context\), &self\.memory_info, memory_op, \)\); "
        r"\} \} \} \}")
m = re.fullmatch(SKEL, cb)
if not m:
    die("check_for_bitflips: the body no longer has the recognised skeleton (gates; adjusted-address selection; address pass; "
        "register pass nested in the address block, under the context, with the same bit range / operation / map); "
        "coq/C19 must be re-read against it:\n" + cb)
regbr = m.group("regbr")
if regbr == "bit_range":
    regpass_br = "br"
else:
    if regbr.split("::")[1] not in ("All", "Amd64Canononical", "Amd64NonCanonical"):
        die("check_for_bitflips: unknown BitRange in the register pass: " + regbr)
    regpass_br = "GBr" + regbr.split("::")[1]
gates = [cond_to_coq(g, "check_for_bitflips gate") for g in re.findall(r"if ([^{}]+) \{ return; \}", m.group("gates"))]


def br_expr(s, what):
    mm = re.fullmatch(r"BitRange::(\w+)", s)
    if mm:
        if mm.group(1) not in ("All", "Amd64Canononical", "Amd64NonCanonical"):
            die(what + ": unknown BitRange " + s)
        return "GBr" + mm.group(1)
    mm = re.fullmatch(r"if (.+?) \{ BitRange::(\w+) \} else \{ BitRange::(\w+) \}", s)
    if mm:
        return "(if %s then %s else %s)" % (cond_to_coq(mm.group(1), what), br_expr("BitRange::" + mm.group(2), what),
                                             br_expr("BitRange::" + mm.group(3), what))
    die(what + ": unrecognised bit-range expression " + s)


def arm_expr(s, what, bound_v):
    s = s.strip()
    if s == "None":
        return "None"
    mm = re.fullmatch(r"Some\(\( ?(v\.0|info\.address\.0), (.+?),? ?\)\)", s)
    if not mm:
        die(what + ": unrecognised arm " + s)
    if mm.group(1) == "v.0":
        if not bound_v:
            die(what + ": v is not bound in this arm")
        val = "v"
    else:
        val = "address"
    return "Some (%s, %s)" % (val, br_expr(mm.group(2).strip(), what))


arm_nc = arm_expr(m.group("arm_nc"), "NonCanonical arm", True)
arm_null = arm_expr(m.group("arm_null"), "NullPointerWithOffset arm", False)
arm_none = arm_expr(m.group("arm_none"), "None arm", False)

# ------------------------------------------------------------------ memory operation
fc = norm(fn_body(pr, r"pub fn from_crash_reason\(reason: &CrashReason\) -> Self\s*\{", "from_crash_reason"))
m = re.fullmatch(r"use minidump_common::errors::ExceptionCodeWindowsAccessType as WinAccess; match reason \{ (.*) _ => Self::default\(\), \}", fc)
if not m:
    die("from_crash_reason: unrecognised shape: " + fc)
acc = re.findall(r"CrashReason::WindowsAccessViolation\(WinAccess::(\w+)\) => Self::(\w+),", m.group(1))
if re.sub(r"CrashReason::WindowsAccessViolation\(WinAccess::(\w+)\) => Self::(\w+),", "", m.group(1)).strip():
    die("from_crash_reason: unrecognised arm in " + m.group(1))
if sorted(a for a, _ in acc) != ["EXEC", "READ", "WRITE"]:
    die("from_crash_reason: arms are not exactly READ/WRITE/EXEC: %r" % acc)
if not re.search(r"pub enum MemoryOperation \{ #\[default\] Undetermined, Read, Write, Execute, \}", norm(pr)):
    die("enum MemoryOperation changed (or its default)")
pa = norm(fn_body(pr, r"pub fn is_possibly_allowed_for\(&self, memory_info: &UnifiedMemoryInfo\) -> bool\s*\{", "is_possibly_allowed_for"))
m = re.fullmatch(r"match self \{ Self::Undetermined => (\w+), Self::Read => memory_info\.is_(\w+)\(\), Self::Write => memory_info\.is_(\w+)\(\), "
                 r"Self::Execute => memory_info\.is_(\w+)\(\), \}", pa)
if not m or m.group(1) not in ("true", "false"):
    die("is_possibly_allowed_for: unrecognised shape: " + pa)
allowed = {"Undetermined": m.group(1), "Read": m.group(2), "Write": m.group(3), "Execute": m.group(4)}
for k in ("Read", "Write", "Execute"):
    if allowed[k] not in ("readable", "writable", "executable"):
        die("is_possibly_allowed_for: unknown predicate is_%s" % allowed[k])
# Windows access-type codes
errs = rd("minidump-common/src/errors/windows.rs") if os.path.exists(os.path.join(repo, "minidump-common/src/errors/windows.rs")) else ""
wb = fn_body(errs, r"pub enum ExceptionCodeWindowsAccessType\s*\{", "ExceptionCodeWindowsAccessType") if errs else die("errors/windows.rs not found")
wacc = {n: int(v, 0) for n, v in re.findall(r"(\w+)\s*=\s*(0x[0-9a-fA-F]+|\d+)\s*,", wb)}
for a, _ in acc:
    if a not in wacc:
        die("no numeric value for WinAccess::" + a)

# Linux signal numbers / si_code used by represents_general_protection_fault
lx = rd("minidump-common/src/errors/linux.rs")
lsig = {n: int(re.sub(r"u32$", "", v), 0) for n, v in re.findall(r"(SIG\w+)\s*=\s*(0x[0-9a-fA-F]+(?:u32)?|\d+)\s*,",
                                                          fn_body(lx, r"pub enum ExceptionCodeLinux\s*\{", "ExceptionCodeLinux"))}
lsi = {n: v for n, v in re.findall(r"(SI_\w+)\s*=\s*(0x[0-9a-fA-F]+|\d+)\s*,",
                                   fn_body(lx, r"pub enum ExceptionCodeLinuxSicode\s*\{", "ExceptionCodeLinuxSicode"))}
for need in ("SIGSEGV", "SIGBUS"):
    if need not in lsig:
        die("no numeric value for ExceptionCodeLinux::" + need)
if "SI_KERNEL" not in lsi:
    die("no numeric value for ExceptionCodeLinuxSicode::SI_KERNEL")

# ------------------------------------------------------------------ try_bit_flips, the adjusted-address helpers, the GPF arms
# (until round 5, second pass, pinned textually here) are now COMPILED to Gallina by translate/c19_src.py -> Gen/C19Src.v.
# This translator keeps the NON_CANONICAL_RANGE constant and the GPF constants.
nc = norm(fn_body(pr, r"fn try_get_non_canonical_crash_address\(", "try_get_non_canonical_crash_address"))
m = re.search(r"const NON_CANONICAL_RANGE: RangeInclusive<u64> = (0x[0-9a-fA-F_]+)\.\.=(0x[0-9a-fA-F_]+); ", nc)
if not m:
    die("try_get_non_canonical_crash_address: NON_CANONICAL_RANGE not found:\n" + nc)
nc_lo, nc_hi = int(m.group(1).replace("_", ""), 16), int(m.group(2).replace("_", ""), 16)

# ------------------------------------------------------------------ confidence(): the whole body as a list of steps
cf = norm(fn_body(ps, r"pub fn confidence\(&self\) -> f32\s*\{", "confidence"))
CONST_NAMES = {"BASELINE": "BASELINE_c", "NON_CANONICAL": "NON_CANONICAL_c", "NULL": "NULL_c", "ORIGINAL_LOW": "ORIGINAL_LOW_c",
               "POISON": "POISON_c"}          # defined by translate/bitflip_consts.py in Gen/BitflipConsts.v
FLAG_NAMES = {"was_non_canonical": "FNonCanonical", "is_null": "FNull", "was_low": "FLow", "poison_registers": "FPoison"}


def cname(n):
    if n not in CONST_NAMES:
        die("confidence(): constant %s is not one the constants translator knows" % n)
    return CONST_NAMES[n]


def fname(n):
    if n not in FLAG_NAMES:
        die("confidence(): unknown details flag self.%s" % n)
    return FLAG_NAMES[n]


mh = re.match(r"use confidence::\*; let mut values = Vec::with_capacity\(\d+\); ", cf)
if not mh:
    die("confidence(): unrecognised prologue:\n" + cf)
pos = mh.end()
conf_steps, conf_post = [], []
gop = gk = idx = None
while True:
    rest = cf[pos:]
    mm = re.match(r"values\.push\((\w+)\); ", rest)
    if mm:
        conf_steps.append("CPush %s" % cname(mm.group(1)))
        pos += mm.end()
        continue
    mm = re.match(r"if self\.(\w+) \{ values\.push\((\w+)\); \} ", rest)
    if mm:
        conf_steps.append("CIfPush %s %s" % (fname(mm.group(1)), cname(mm.group(2))))
        pos += mm.end()
        continue
    mm = re.match(r"if self\.(\w+) \{ let mut val = (\w+); if self\.(\w+) \{ val \*= (\w+); \} values\.push\(val\); \} ", rest)
    if mm:
        conf_steps.append("CIfMulPush %s %s %s %s" % (fname(mm.group(1)), cname(mm.group(2)), fname(mm.group(3)), cname(mm.group(4))))
        pos += mm.end()
        continue
    mm = re.match(r"if self\.nearby_registers (>|>=|!=) (\d+) \{ let nearby = ([^;{}]+); values\.push\(NEARBY_REGISTER\[nearby\]\); \} ", rest)
    if mm:
        if gop is not None:
            die("confidence(): more than one NEARBY_REGISTER lookup")
        gop, gk, idx = mm.group(1), int(mm.group(2)), mm.group(3)
        conf_steps.append("CNearby")
        pos += mm.end()
        continue
    break
mm = re.match(r"let mut ret = combine\(&values\); ", cf[pos:])
if not mm:
    die("confidence(): unrecognised statement at: " + cf[pos:pos + 200])
pos += mm.end()
while True:
    mm = re.match(r"if self\.(\w+) \{ ret \*= (\w+); \} ", cf[pos:])
    if not mm:
        break
    conf_post.append("(%s, %s)" % (fname(mm.group(1)), cname(mm.group(2))))
    pos += mm.end()
if cf[pos:] != "ret":
    die("confidence(): unrecognised epilogue: " + cf[pos:pos + 200])
if gop is None:
    die("confidence(): no NEARBY_REGISTER lookup found")
guard = {">": "(n >? %d)", ">=": "(n >=? %d)", "!=": "(negb (n =? %d))"}[gop] % gk


def idx_term(s):
    s = s.strip()
    if s == "self.nearby_registers as usize":
        return "n"
    if s == "NEARBY_REGISTER.len()":
        return "NEARBY_LEN"
    if re.fullmatch(r"\d+", s):
        return s
    die("confidence(): unrecognised index term " + s)


def idx_expr(s):
    s = s.strip()
    mm = re.fullmatch(r"(.+) - (\d+)", s)
    if mm:
        return "(%s - %s)" % (idx_expr(mm.group(1)), mm.group(2))
    mm = re.fullmatch(r"std::cmp::(min|max)\((.+?), (.+?)\)", s)
    if mm:
        return "(Z.%s %s %s)" % (mm.group(1), idx_term(mm.group(2)), idx_term(mm.group(3)))
    return idx_term(s)


index = idx_expr(idx)

# ------------------------------------------------------------------ calculate_heuristics and MinidumpException::get_crash_address
# are compiled by translate/c19_src.py (Gen/C19Src.v: g_h_*, g_crash_address); here only the two Windows exception codes
mdrs = rd("minidump/src/minidump.rs")
wcodes = {n: int(v, 0) for n, v in re.findall(r"(EXCEPTION_ACCESS_VIOLATION|EXCEPTION_IN_PAGE_ERROR)\s*=\s*(0x[0-9a-fA-F]+)(?:u32)?\s*,",
                                              fn_body(errs, r"pub enum ExceptionCodeWindows\s*\{", "ExceptionCodeWindows"))}
if set(wcodes) != {"EXCEPTION_ACCESS_VIOLATION", "EXCEPTION_IN_PAGE_ERROR"}:
    die("ExceptionCodeWindows: EXCEPTION_ACCESS_VIOLATION / EXCEPTION_IN_PAGE_ERROR values not found")

# ------------------------------------------------------------------ Os / platform id / crash-reason classes (minidump crate)
os_variants = [v.strip() for v in norm(fn_body(si, r"pub enum Os\s*\{", "enum Os")).split(",") if v.strip()]
if not os_variants or os_variants[-1] != "Unknown(u32)" or not all(re.fullmatch(r"\w+", v) for v in os_variants[:-1]):
    die("enum Os has an unrecognised shape: %r" % os_variants)
oses = os_variants[:-1] + ["Unknown"]
plat_vals = {n: int(v, 0) for n, v in re.findall(r"(\w+)\s*=\s*(0x[0-9a-fA-F]+|\d+)\s*,",
                                                 fn_body(fmt, r"pub enum PlatformId\s*\{", "enum PlatformId"))}
fp = norm(fn_body(si, r"pub fn from_platform_id\(id: u32\) -> Os\s*\{", "from_platform_id"))
m = re.fullmatch(r"match PlatformId::from_u32\(id\) \{ (.*) _ => Os::Unknown\(id\), \}", fp)
if not m:
    die("from_platform_id has an unrecognised shape: " + fp)
parm = r"((?:\|? ?Some\(PlatformId::\w+\) ?)+)=> Os::(\w+),"
plat_map = []
for pats, o in re.findall(parm, m.group(1)):
    if o not in oses or o == "Unknown":
        die("from_platform_id: unknown Os " + o)
    for a in re.findall(r"PlatformId::(\w+)", pats):
        if a not in plat_vals:
            die("from_platform_id: no numeric value for PlatformId::" + a)
        plat_map.append((plat_vals[a], o))
if re.sub(parm, "", m.group(1)).strip():
    die("from_platform_id: unrecognised arm in " + m.group(1))
fe = norm(fn_body(mdrs, r"fn from_exception\(raw: &md::MINIDUMP_EXCEPTION_STREAM, os: Os, cpu: Cpu\) -> CrashReason\s*\{", "CrashReason::from_exception"))
m = re.search(r"let reason = match os \{ (.*?) _ => None, \};", fe)
if not m:
    die("CrashReason::from_exception: the per-OS dispatch is not recognised: " + fe)
farm = r"((?:\|? ?Os::\w+ ?)+)=> Self::from_(\w+)_exception\(raw, cpu\),"
fam_of = {}
for pats, famname in re.findall(farm, m.group(1)):
    if famname not in ("windows", "mac", "linux"):
        die("from_exception: unknown family " + famname)
    for o in re.findall(r"Os::(\w+)", pats):
        fam_of[o] = famname
if re.sub(farm, "", m.group(1)).strip():
    die("from_exception: unrecognised arm in " + m.group(1))
if "reason.unwrap_or(CrashReason::Unknown(exception_code, exception_flags))" not in fe:
    die("from_exception: default reason changed")
# the fragments of the three family functions the GPF test depends on
fw = norm(fn_body(mdrs, r"pub fn from_windows_exception\(", "from_windows_exception"))
# (the EXCEPTION_ACCESS_VIOLATION refinement itself — its number_parameters guard — is compiled by translate/c19_src.py: g_win_av_guard)
if "let mut reason = CrashReason::from_windows_code(exception_code);" not in fw:
    die("from_windows_exception: no longer starts from CrashReason::from_windows_code(exception_code):\n" + fw[:1500])
fwc = norm(fn_body(mdrs, r"pub fn from_windows_code\(exception_code: u32\) -> CrashReason\s*\{", "from_windows_code"))
if not fwc.startswith("if let Some(err) = err::ExceptionCodeWindows::from_u32(exception_code) { Self::WindowsGeneral(err) }"):
    die("from_windows_code changed: " + fwc)
fl = norm(fn_body(mdrs, r"pub fn from_linux_exception\(", "from_linux_exception"))
for frag in ("let linux_reason = err::ExceptionCodeLinux::from_u32(exception_code)?; let mut reason = CrashReason::LinuxGeneral(linux_reason, exception_flags);",
             "err::ExceptionCodeLinux::SIGSEGV => { if let Some(ty) = err::ExceptionCodeLinuxSigsegvKind::from_u32(exception_flags) { reason = CrashReason::LinuxSigsegv(ty); } }",
             "err::ExceptionCodeLinux::SIGBUS => { if let Some(ty) = err::ExceptionCodeLinuxSigbusKind::from_u32(exception_flags) { reason = CrashReason::LinuxSigbus(ty); } }"):
    if frag not in fl:
        die("from_linux_exception: changed around: " + frag)
fm = norm(fn_body(mdrs, r"pub fn from_mac_exception\(", "from_mac_exception"))
for frag in ("let mac_reason = err::ExceptionCodeMac::from_u32(exception_code)?; let mut reason = CrashReason::MacGeneral(mac_reason, exception_flags);",
             "ExceptionCodeMac::EXC_BAD_ACCESS => { if let Some(ty) = err::ExceptionCodeMacBadAccessKernType::from_u32(exception_flags) { "
             "reason = CrashReason::MacBadAccessKern(ty); } else { match cpu {",
             "Cpu::X86 | Cpu::X86_64 => { if let Some(ty) = err::ExceptionCodeMacBadAccessX86Type::from_u32(exception_flags) { "
             "reason = CrashReason::MacBadAccessX86(ty); } }"):
    if frag not in fm:
        die("from_mac_exception: changed around: " + frag)
mc = rd("minidump-common/src/errors/macos.rs")


def enum_vals(src, name):
    return {n: int(v, 0) for n, v in re.findall(r"(\w+)\s*=\s*(0x[0-9a-fA-F]+|\d+)(?:u32|u64)?\s*,", fn_body(src, r"pub enum %s\s*\{" % name, name))}


mac_codes = enum_vals(mc, "ExceptionCodeMac")
mac_kern = enum_vals(mc, "ExceptionCodeMacBadAccessKernType")
mac_x86 = enum_vals(mc, "ExceptionCodeMacBadAccessX86Type")
segv_kinds = enum_vals(lx, "ExceptionCodeLinuxSigsegvKind")
bus_kinds = enum_vals(lx, "ExceptionCodeLinuxSigbusKind")
if "EXC_BAD_ACCESS" not in mac_codes or "EXC_I386_GPFLT" not in mac_x86 or not mac_kern or not segv_kinds or not bus_kinds:
    die("macOS / Linux error enums: expected members not found")

# ------------------------------------------------------------------ amd64 register names (BTreeSet<&'static str> order, rsp)
cx = rd("minidump/src/context.rs")
m = re.search(r"impl CpuContext for md::CONTEXT_AMD64 \{\s*type Register = u64;\s*const REGISTERS: &'static \[&'static str\] = &\[(.*?)\];", cx, re.S)
if not m:
    die("CONTEXT_AMD64::REGISTERS not found")
amd64_regs = re.findall(r'"(\w+)"', m.group(1))
if len(amd64_regs) != len(set(amd64_regs)) or "rsp" not in amd64_regs or "rip" not in amd64_regs:
    die("CONTEXT_AMD64::REGISTERS has an unexpected content: %r" % amd64_regs)
by_name = sorted(amd64_regs, key=lambda n: n.encode())        # Ord for &str is byte-wise lexicographic
amd64_rank = [by_name.index(n) for n in amd64_regs]

# ------------------------------------------------------------------ emit
L = []
L.append("(* GENERATED by translate/c19_check.py from minidump-processor/src/{processor,process_state}.rs, minidump/src/system_info.rs, "
         "minidump-common/src/format.rs — do not edit *)")
L.append("From Coq Require Import ZArith List Bool. Import ListNotations. Open Scope Z_scope.")
L.append("From RM Require Import Gen.BitflipConsts.")
L.append("")
L.append("(* system_info::Cpu, PointerWidth *)")
L.append("Inductive gcpu := " + " | ".join("G" + c for c in cpus) + ".")
L.append("Definition all_gcpu : list gcpu := [" + "; ".join("G" + c for c in cpus) + "].")
L.append("Definition gcpu_tag (c : gcpu) : Z := match c with " + " | ".join("G%s => %d" % (c, i) for i, c in enumerate(cpus)) + " end.")
L.append("Definition gcpu_eqb (a b : gcpu) : bool := gcpu_tag a =? gcpu_tag b.")
L.append("Inductive gwidth := WBits32 | WBits64 | WUnknown.")
L.append("Definition gwidth_eqb (a b : gwidth) : bool := match a, b with WBits32, WBits32 | WBits64, WBits64 | WUnknown, WUnknown => true | _, _ => false end.")
L.append("(* Cpu::pointer_width *)")
L.append("Definition pointer_width (c : gcpu) : gwidth := match c with " + " | ".join("G%s => W%s" % (c, pw_of[c]) for c in cpus) + " end.")
L.append("(* Cpu::from_processor_architecture over the numeric MINIDUMP_SYSTEM_INFO.processor_architecture *)")
e = "GUnknown"
for v, c in reversed(arch_map):
    e = "if arch =? %d then G%s else %s" % (v, c, e)
L.append("Definition cpu_of_arch (arch : Z) : gcpu := " + e + ".")
L.append("")
L.append("(* check_for_bitflips *)")
L.append("Inductive gbr := GBrAmd64Canononical | GBrAmd64NonCanonical | GBrAll.")
L.append("Inductive gadj := GAdjNone | GAdjNonCanonical (v : Z) | GAdjNullPointerWithOffset (off : Z).")
L.append("(* the `if .. { return; }` gates in front, in source order *)")
L.append("Definition g_gates (c : gcpu) (address : Z) : list bool := [" + "; ".join(gates) + "].")
L.append("Definition g_gate (c : gcpu) (address : Z) : bool := existsb (fun b => b) (g_gates c address).")
L.append("(* let bit_flip_address = match &info.adjusted_address { .. } *)")
L.append("Definition g_select (c : gcpu) (address : Z) (adj : gadj) : option (Z * gbr) :=")
L.append("  match adj with")
L.append("  | GAdjNonCanonical v => %s" % arm_nc)
L.append("  | GAdjNullPointerWithOffset _ => %s" % arm_null)
L.append("  | GAdjNone => %s" % arm_none)
L.append("  end.")
L.append("(* the body: gates; selection; address pass; register pass (only inside the address block, only with a context,")
L.append("   same bit range, operation and memory map: these are closed over in [try]) *)")
L.append("(* the bit range the register pass searches: the address pass's (br) or a constant *)")
L.append("Definition g_regpass_br (br : gbr) : gbr := %s." % regpass_br)
L.append("Section Check.")
L.append("  Context {flip : Type}.")
L.append("  Variable try : Z -> option Z -> gbr -> list flip.        (* address, source register, bit range *)")
L.append("  Definition g_check (c : gcpu) (address : Z) (adj : gadj) (has_context : bool) (iregs : list (Z * Z)) : list flip :=")
L.append("    if g_gate c address then [] else")
L.append("    match g_select c address adj with")
L.append("    | Some (a, br) =>")
L.append("        try a None br ++")
L.append("        (if has_context then flat_map (fun rv => try (snd rv) (Some (fst rv)) (g_regpass_br br)) iregs else [])")
L.append("    | None => []")
L.append("    end.")
L.append("End Check.")
L.append("")
L.append("(* MemoryOperation::from_crash_reason over the Windows access-violation kind (exception_information[0]);")
L.append("   0 = Undetermined, 1 = Read, 2 = Write, 3 = Execute *)")
opn = {"Undetermined": 0, "Read": 1, "Write": 2, "Execute": 3}
e = "0"
for a, o in reversed(acc):
    e = "if kind =? %d then %d else %s" % (wacc[a], opn[o], e)
L.append("Definition g_memop_of_access (kind : Z) : Z := " + e + ".")
L.append("(* MemoryOperation::is_possibly_allowed_for: which permission each operation asks for (0 = r, 1 = w, 2 = x) *)")
permn = {"readable": 0, "writable": 1, "executable": 2}
L.append("Definition g_allowed_undetermined : bool := %s." % allowed["Undetermined"])
L.append("Definition g_allowed_perm (op : Z) : Z := if op =? 1 then %d else if op =? 2 then %d else %d."
         % (permn[allowed["Read"]], permn[allowed["Write"]], permn[allowed["Execute"]]))
L.append("(* constants of represents_general_protection_fault *)")
L.append("Definition WIN_ACCESS_READ : Z := %d." % wacc["READ"])
L.append("Definition LINUX_SIGSEGV : Z := %d." % lsig["SIGSEGV"])
L.append("Definition LINUX_SIGBUS : Z := %d." % lsig["SIGBUS"])
L.append("Definition LINUX_SI_KERNEL : Z := %d." % int(lsi["SI_KERNEL"], 0))
L.append("")
L.append("(* try_get_non_canonical_crash_address: NON_CANONICAL_RANGE (inclusive) *)")
L.append("Definition NON_CANONICAL_LO : Z := %d." % nc_lo)
L.append("Definition NON_CANONICAL_HI : Z := %d." % nc_hi)
L.append("")
L.append("(* BitFlipDetails::confidence: guard and index of the NEARBY_REGISTER lookup (usize arithmetic: a negative or")
L.append("   too large value is an index/overflow panic) *)")
L.append("Definition NEARBY_GUARD (n : Z) : bool := %s." % guard)
L.append("Definition NEARBY_INDEX (NEARBY_LEN n : Z) : Z := %s." % index)
L.append("(* the body of confidence(): pushes onto `values` in source order, then combine(), then the multiplications of `ret` *)")
L.append("Inductive cflag := FNonCanonical | FNull | FLow | FPoison.")
L.append("Inductive cstep :=")
L.append("  | CPush (c : Z * option Z)                                       (* values.push(C) *)")
L.append("  | CIfPush (f : cflag) (c : Z * option Z)                        (* if self.f { values.push(C) } *)")
L.append("  | CIfMulPush (f1 : cflag) (c1 : Z * option Z) (f2 : cflag) (c2 : Z * option Z)")
L.append("                                                                  (* if self.f1 { let mut val = C1; if self.f2 { val *= C2 } values.push(val) } *)")
L.append("  | CNearby.                                                      (* the NEARBY_REGISTER lookup under NEARBY_GUARD *)")
L.append("Definition CONF_STEPS : list cstep := [%s]." % "; ".join(conf_steps))
L.append("Definition CONF_POST : list (cflag * (Z * option Z)) := [%s]." % "; ".join(conf_post))
L.append("")
L.append("(* get_crash_address (pinned textually): the Windows exception codes whose exception_information[1] is the address *)")
L.append("Definition WIN_EXCEPTION_ACCESS_VIOLATION : Z := %d." % wcodes["EXCEPTION_ACCESS_VIOLATION"])
L.append("Definition WIN_EXCEPTION_IN_PAGE_ERROR : Z := %d." % wcodes["EXCEPTION_IN_PAGE_ERROR"])
L.append("")
L.append("(* system_info::Os, Os::from_platform_id over MINIDUMP_SYSTEM_INFO.platform_id, and which family function")
L.append("   CrashReason::from_exception dispatches to (0 windows, 1 mac, 2 linux, 3 none) *)")
L.append("Inductive gosx := " + " | ".join("GOs" + o for o in oses) + ".")
e = "GOsUnknown"
for v, o in reversed(plat_map):
    e = "if id =? %d then GOs%s else %s" % (v, o, e)
L.append("Definition os_of_platform_id (id : Z) : gosx := " + e + ".")
famn = {"windows": 0, "mac": 1, "linux": 2}
L.append("Definition g_reason_family (o : gosx) : Z := match o with " +
         " | ".join("GOs%s => %d" % (o, famn[fam_of[o]] if o in fam_of else 3) for o in oses) + " end.")
L.append("Definition WIN_ACCESS_TYPES : list Z := [%s]." % "; ".join(str(v) for v in sorted(wacc.values())))
L.append("Definition LINUX_SIGSEGV_KINDS : list Z := [%s]." % "; ".join(str(v) for v in sorted(segv_kinds.values())))
L.append("Definition LINUX_SIGBUS_KINDS : list Z := [%s]." % "; ".join(str(v) for v in sorted(bus_kinds.values())))
L.append("Definition MAC_EXC_BAD_ACCESS : Z := %d." % mac_codes["EXC_BAD_ACCESS"])
L.append("Definition MAC_BAD_ACCESS_KERN_TYPES : list Z := [%s]." % "; ".join(str(v) for v in sorted(mac_kern.values())))
L.append("Definition MAC_BAD_ACCESS_X86_TYPES : list Z := [%s]." % "; ".join(str(v) for v in sorted(mac_x86.values())))
L.append("Definition MAC_EXC_I386_GPFLT : Z := %d." % mac_x86["EXC_I386_GPFLT"])
L.append("")
L.append("(* CONTEXT_AMD64::REGISTERS = %s; register id = position in that list (valid_registers() order).")
L[-1] = L[-1] % " ".join(amd64_regs)
L.append("   AMD64_NAME_RANK: rank of each id when the NAMES are sorted (the order of a BTreeSet<&'static str>) *)")
L.append("Definition AMD64_NAME_RANK : list Z := [%s]." % "; ".join(map(str, amd64_rank)))
L.append("Definition AMD64_RSP_ID : Z := %d." % amd64_regs.index("rsp"))
L.append("Definition AMD64_RIP_ID : Z := %d." % amd64_regs.index("rip"))
out = "\n".join(L) + "\n"
os.makedirs(outdir, exist_ok=True)
p = os.path.join(outdir, "C19Check.v")
try:
    same = open(p).read() == out
except OSError:
    same = False
if not same:
    open(p, "w").write(out)
