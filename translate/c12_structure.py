#!/usr/bin/env python3
"""Translator for C12: the structure of the once-per-key pattern -> coq/Gen/C12Structure.v.

usage: c12_structure.py <repo> <outdir>

Reads breakpad-symbols/src/lib.rs and http.rs (non-test code) and emits, as Coq data:
  * the operations of `CachedAsyncResult::get` in order (lock held across the await, store, clone),
  * the fields of `CachedAsyncResult` and what `FutMutex` is,
  * the components of `module_key` / `ModuleKey` / `file_key` / `FileKey`,
  * the operations of the closure `Symbolizer::get_symbols` passes to `get` (counter increments around the supplier
    await, stats classification per answer, stats insert, return) and the expression the closure is passed through
    (`self.symbols.cache_default(module_key(module)).get(..).await`),
  * every function of the non-test code that mentions the counters, the stats map, the slot maps or the supplier,
  * how fill_symbol / walk_frame / get_file_path / locate_file_internal start.
coq/C12/Structure.v holds what C12/Model.v was written from; C12/Properties.v proves the two equal, so a
restructuring (lock released before the await, a counter moved, a key component dropped, a new writer of the counters)
breaks a proof obligation even when no schedule of the search exposes it.  Aborts on statements it does not recognise."""
import os
import re
import sys


def die(msg):
    print("c12_structure.py: ABORT: " + msg, file=sys.stderr)
    sys.exit(1)


def strip_comments(src):
    out, i, n = [], 0, len(src)
    while i < n:
        c = src[i]
        if c == '"':
            j = i + 1
            while j < n and src[j] != '"':
                j += 2 if src[j] == "\\" else 1
            out.append(src[i:j + 1])
            i = j + 1
        elif src.startswith("//", i):
            j = src.find("\n", i)
            i = n if j < 0 else j
        elif src.startswith("/*", i):
            j = src.find("*/", i)
            if j < 0:
                die("unterminated block comment")
            i = j + 2
        elif c == "'" and i + 2 < n and src[i + 2] == "'":
            out.append(src[i:i + 3])
            i += 3
        elif c == "'" and src[i + 1:i + 2] == "\\" and i + 3 < n and src[i + 3] == "'":
            out.append(src[i:i + 4])
            i += 4
        else:
            out.append(c)
            i += 1
    return "".join(out)


def match_close(s, i):
    pairs = {"(": ")", "[": "]", "{": "}"}
    depth, j, n = 0, i, len(s)
    while j < n:
        c = s[j]
        if c == '"':
            j += 1
            while j < n and s[j] != '"':
                j += 2 if s[j] == "\\" else 1
        elif c == "'" and j + 2 < n and s[j + 2] == "'":
            j += 2
        elif c in pairs:
            depth += 1
        elif c in pairs.values():
            depth -= 1
            if depth == 0:
                return j
        j += 1
    die("unbalanced bracket")


def non_test(src):
    cut = len(src)
    for pat in (r"#\[test\]", r"#\[cfg\(test\)\]", r"#\[tokio::test\]"):
        m = re.search(pat, src)
        if m:
            cut = min(cut, m.start())
    return src[:cut]


def squash(s):
    return re.sub(r"\s+", "", s)


def fn_body(src, pattern, what):
    ms = list(re.finditer(pattern, src))
    if len(ms) != 1:
        die("%s: expected exactly one match of /%s/, found %d" % (what, pattern, len(ms)))
    m = ms[0]
    # the body's `{` is the first one at bracket depth 0 after the signature
    i, depth = (m.end() - 1 if m.group(0).endswith("(") else m.end()), 0
    while i < len(src):
        c = src[i]
        if c in "([":
            depth += 1
        elif c in ")]":
            depth -= 1
        elif c == "{" and depth == 0:
            break
        elif c == ";" and depth == 0:
            die("%s: declaration without a body" % what)
        i += 1
    j = match_close(src, i)
    return src[i + 1:j]


def statements(body):
    """top-level statements of a block: split at `;` and after a `}` that ends a block statement, depth 0"""
    out, cur, i, n = [], [], 0, len(body)
    while i < n:
        c = body[i]
        if c in "([{":
            j = match_close(body, i)
            cur.append(body[i:j + 1])
            i = j + 1
            if c == "{":
                rest = body[i:].lstrip()
                head = "".join(cur).lstrip()
                if re.match(r"(if|match|for|while|loop)\b", head) and not rest.startswith(("else", ".", "?")):
                    out.append("".join(cur))
                    cur = []
            continue
        if c == '"':
            j = i + 1
            while j < n and body[j] != '"':
                j += 2 if body[j] == "\\" else 1
            cur.append(body[i:j + 1])
            i = j + 1
            continue
        if c == ";":
            out.append("".join(cur) + ";")
            cur = []
        else:
            cur.append(c)
        i += 1
    if "".join(cur).strip():
        out.append("".join(cur))
    return [squash(s) for s in out if squash(s)]


def fns_of(src):
    """(name, body) of every fn item with a body (methods included), source order"""
    out = []
    for m in re.finditer(r"\bfn\s+([A-Za-z_][A-Za-z0-9_]*)", src):
        i, depth = m.end(), 0
        while i < len(src):
            c = src[i]
            if c in "([":
                depth += 1
            elif c in ")]":
                depth -= 1
            elif c == "{" and depth == 0:
                break
            elif c == ";" and depth == 0:
                i = -1
                break
            i += 1
        if i < 0 or i >= len(src):
            continue
        j = match_close(src, i)
        out.append((m.group(1), src[i + 1:j]))
    return out


GET_OPS = [
    (r"^letmutguard=self\.inner\.lock\(\)\.await;$", "GLockAwait"),
    (r"^ifguard\.is_none\(\)\{\*guard=Some\(Arc::new\(f\(\)\.await\)\);\}$", "GIfNoneStoreCallAwait"),
    (r"^guard\.as_ref\(\)\.unwrap\(\)\.clone\(\)$", "GReturnClone"),
]
CLOSURE_OPS = [
    (r"^trace!\(.*\);$", None),
    (r"^self\.pending_stats\.lock\(\)\.unwrap\(\)\.symbols_requested\+=1;$", "CRequestedInc"),
    (r"^letresult=self\.supplier\.locate_symbols\(module\)\.await;$", "CSupplierAwait"),
    (r"^self\.pending_stats\.lock\(\)\.unwrap\(\)\.symbols_processed\+=1;$", "CProcessedInc"),
    (r"^letmutstats=SymbolStats::default\(\);$", "CStatsNew"),
    (r"^match&result\{.*\}$", "CStatsClassify"),
    (r"^letkey=leafname\(module\.code_file\(\)\.as_ref\(\)\)\.to_string\(\);$", "CLeafKey"),
    (r"^self\.stats\.lock\(\)\.unwrap\(\)\.insert\(key,stats\);$", "CStatsInsert"),
    (r"^result\.map\(\|r\|r\.symbols\)$", "CReturnResult"),
]


def classify(stmts, table, what):
    ops = []
    for s in stmts:
        for pat, op in table:
            if re.match(pat, s):
                if op:
                    ops.append(op)
                break
        else:
            die("%s: statement not recognised (the model was written for another shape): %s" % (what, s[:200]))
    return ops


def stats_arms(match_stmt):
    """(variant, loaded, corrupt) per arm of `match &result { .. }`; SymbolStats::default() has both false"""
    inner = match_stmt[match_stmt.index("{") + 1:-1]
    arms, i = [], 0
    while i < len(inner):
        m = re.match(r"(Ok\(res\)|Err\(SymbolError::([A-Za-z]+)(?:\([^)]*\))?\))=>\{", inner[i:])
        if not m:
            die("get_symbols: match arm not recognised at: " + inner[i:i + 80])
        name = "Ok" if m.group(1).startswith("Ok") else m.group(2)
        j = match_close(inner, i + m.end() - 1)
        body = inner[i + m.end():j]
        loaded = corrupt = False
        for st in [x for x in body.split(";") if x]:
            a = re.match(r"^stats\.(loaded_symbols|corrupt_symbols)=(true|false)$", st)
            if a:
                if a.group(1) == "loaded_symbols":
                    loaded = a.group(2) == "true"
                else:
                    corrupt = a.group(2) == "true"
            elif re.match(r"^stats\.(symbol_url|extra_debug_info)\.clone_from\(&res\.", st):
                pass
            else:
                die("get_symbols: statement in arm %s not recognised: %s" % (name, st[:120]))
        arms.append((name, loaded, corrupt))
        i = j + 1
        if inner[i:i + 1] == ",":
            i += 1
    return arms


WATCH = ["pending_stats", "symbols_requested", "symbols_processed", "self.stats", "self.symbols", "cached_file_paths",
         "self.supplier", "cache_default", "CachedAsyncResult", "FutMutex"]


def main():
    repo, outdir = sys.argv[1], sys.argv[2]
    lib = non_test(strip_comments(open(os.path.join(repo, "breakpad-symbols/src/lib.rs")).read()))
    http = non_test(strip_comments(open(os.path.join(repo, "breakpad-symbols/src/http.rs")).read()))

    m = re.search(r"use\s+futures_util::lock::Mutex\s+as\s+FutMutex\s*;", lib)
    futmutex = "futures_util::lock::Mutex" if m else die("FutMutex is not futures_util::lock::Mutex any more")
    m = re.search(r"struct\s+CachedAsyncResult\s*<T,\s*E>\s*\{(.*?)\}", lib, re.S)
    if not m:
        die("struct CachedAsyncResult<T, E> not found")
    fields = [squash(x) for x in m.group(1).split(",\n") if squash(x)]
    fields = [f.rstrip(",") for f in fields]

    get_body = fn_body(lib, r"pub\s+async\s+fn\s+get\s*<'a,\s*F,\s*Fut>\s*\(\s*&self\s*,\s*f:\s*F\s*\)", "CachedAsyncResult::get")
    # skip the where clause: fn_body starts at the first `{` after the signature, which is the body (where has no braces)
    get_ops = classify(statements(get_body), GET_OPS, "CachedAsyncResult::get")

    m = re.search(r"type\s+ModuleKey\s*=\s*(.*?);", lib, re.S)
    if not m:
        die("type ModuleKey not found")
    module_key_ty = squash(m.group(1))
    mk_body = squash(fn_body(lib, r"\bfn\s+module_key\s*\(", "module_key"))
    m = re.match(r"^\((.*)\)$", mk_body)
    if not m:
        die("module_key is not a tuple expression: " + mk_body[:200])
    comps = []
    for part in [p for p in re.split(r",(?=module\.)", m.group(1)) if p]:
        part = part.rstrip(",")
        a = re.match(r"^module\.([a-z_]+)\(\)\.to_string\(\)$", part) or re.match(r"^module\.([a-z_]+)\(\)\.map\(\|s\|s\.to_string\(\)\)$", part)
        if not a:
            die("module_key component not recognised (normalised / truncated?): " + part)
        comps.append(a.group(1))

    gs_body = squash(fn_body(lib, r"async\s+fn\s+get_symbols\s*\(", "Symbolizer::get_symbols"))
    a = re.match(r"^(self\.symbols\.cache_default\(module_key\(module\)\)\.get\(\|\|async)\{(.*)\}\)\.await$", gs_body)
    if not a:
        die("get_symbols is not `self.symbols.cache_default(module_key(module)).get(|| async {..}).await`: " + gs_body[:200])
    gs_wrapper = a.group(1) + "{..}).await"
    raw_closure = fn_body(lib, r"async\s+fn\s+get_symbols\s*\(", "Symbolizer::get_symbols")
    i = raw_closure.index("async", raw_closure.index(".get("))
    i = raw_closure.index("{", i)
    closure_stmts = statements(raw_closure[i + 1:match_close(raw_closure, i)])
    closure_ops = classify(closure_stmts, CLOSURE_OPS, "get_symbols closure")
    arms = stats_arms([s for s in closure_stmts if s.startswith("match&result")][0])

    m = re.search(r"symbols\s*:\s*CacheMap<\s*ModuleKey\s*,\s*CachedAsyncResult<\s*SymbolFile\s*,\s*SymbolError\s*>\s*>", lib)
    if not m:
        die("Symbolizer.symbols is not CacheMap<ModuleKey, CachedAsyncResult<SymbolFile, SymbolError>>")

    def first_stmt(name, src):
        fs = [b for n, b in fns_of(src) if n == name]
        if len(fs) != 1:
            die("expected exactly one fn %s, found %d" % (name, len(fs)))
        st = statements(fs[0])
        return st[0] if st else ""
    entries = [
        ("fill_symbol", first_stmt("fill_symbol", lib.split("impl Symbolizer", 1)[1])),
        ("walk_frame", first_stmt("walk_frame", lib.split("impl Symbolizer", 1)[1])),
        ("get_file_path", first_stmt("get_file_path", lib.split("impl Symbolizer", 1)[1])),
    ]

    fk_body = squash(fn_body(http, r"\bfn\s+file_key\s*\(", "file_key"))
    m = re.search(r"type\s+FileKey\s*=\s*(.*?);", http, re.S)
    if not m:
        die("type FileKey not found in http.rs")
    file_key_ty = squash(m.group(1))
    lf = squash(fn_body(http, r"pub\s+async\s+fn\s+locate_file_internal\s*\(", "locate_file_internal"))
    a = re.match(r"^(self\.cached_file_paths\.cache_default\(file_key\(module,file_kind\)\)\.get\(\|\|async)\{.*\}\)(\.await\.as_ref\(\)\.clone\(\))$", lf)
    if not a:
        die("locate_file_internal is not `self.cached_file_paths.cache_default(file_key(module, file_kind)).get(|| async {..}).await...`")
    lf_wrapper = a.group(1) + "{..})" + a.group(2)
    m = re.search(r"cached_file_paths\s*:\s*([^\n]+),\n", http)
    cfp_ty = squash(m.group(1)) if m else die("HttpSymbolSupplier.cached_file_paths not found")

    touch = []
    for fname, src in (("lib.rs", lib), ("http.rs", http)):
        for name, body in fns_of(src):
            hit = [w for w in WATCH if w in body]
            if hit:
                touch.append((fname, name, hit))

    def q(s):
        return '"' + s.replace('"', '""') + '"'

    def lst(items):
        return "[" + "; ".join(items) + "]"
    o = []
    o.append("(* GENERATED by translate/c12_structure.py from breakpad-symbols/src/{lib,http}.rs — do not edit. *)")
    o.append("From Coq Require Import List String Bool.")
    o.append("Import ListNotations.")
    o.append("Open Scope string_scope.")
    o.append("")
    o.append("Inductive get_op := GLockAwait | GIfNoneStoreCallAwait | GReturnClone.")
    o.append("Inductive closure_op := CRequestedInc | CSupplierAwait | CProcessedInc | CStatsNew | CStatsClassify | CLeafKey | CStatsInsert | CReturnResult.")
    o.append("")
    o.append("Definition src_futmutex : string := %s." % q(futmutex))
    o.append("Definition src_slot_fields : list string := %s." % lst(q(f) for f in fields))
    o.append("Definition src_get_ops : list get_op := %s." % lst(get_ops))
    o.append("Definition src_module_key_type : string := %s." % q(module_key_ty))
    o.append("Definition src_module_key : list string := %s." % lst(q(c) for c in comps))
    o.append("Definition src_get_symbols_wrapper : string := %s." % q(gs_wrapper))
    o.append("Definition src_closure_ops : list closure_op := %s." % lst(closure_ops))
    o.append("(* per answer of the supplier: (variant, stats.loaded_symbols, stats.corrupt_symbols) *)")
    o.append("Definition src_stats_arms : list (string * bool * bool) := %s." %
             lst("(%s, %s, %s)" % (q(n), str(l).lower(), str(c).lower()) for n, l, c in arms))
    o.append("Definition src_entry_points : list (string * string) := %s." % lst("(%s, %s)" % (q(n), q(s)) for n, s in entries))
    o.append("Definition src_file_key_type : string := %s." % q(file_key_ty))
    o.append("Definition src_file_key : string := %s." % q(fk_body))
    o.append("Definition src_cached_file_paths_type : string := %s." % q(cfp_ty))
    o.append("Definition src_locate_file_wrapper : string := %s." % q(lf_wrapper))
    o.append("(* every fn of the non-test code that mentions the counters, the stats map, a slot map, the slot type or the supplier *)")
    o.append("Definition src_touching : list (string * string * list string) := [")
    o.append(";\n".join("  (%s, %s, %s)" % (q(f), q(n), lst(q(h) for h in hs)) for f, n, hs in touch))
    o.append("].")
    text = "\n".join(o) + "\n"
    os.makedirs(outdir, exist_ok=True)
    path = os.path.join(outdir, "C12Structure.v")
    if not os.path.exists(path) or open(path).read() != text:
        with open(path, "w") as f:
            f.write(text)


if __name__ == "__main__":
    main()
