#!/usr/bin/env python3
"""c20_dump_sequence.py <repo> <outdir>  ->  <outdir>/C20DumpSeq.v

Textual tie for C20: harness/src/bin/c20.rs carries a copy of the call sequence of
`print_minidump_dump` (minidump-stackwalk/src/main.rs), because that function lives in a binary crate
and cannot be called in-process.  This translator extracts, from both files, the ordered sequence of
    get_stream::<T>      stream lookups
    x.print(args)        printer calls (receiver and arguments, whitespace removed)
    raw stream names     the Linux/Mozilla raw streams printed at the end
    literal writes       write!(output, "...") of fixed text
and aborts (exit 2) if they differ or if the expected shapes are not found — the check then records a
broken obligation.  The sequence of main.rs is written to Gen/C20DumpSeq.v, where
`c20_dump_sequence_pinned` pins it."""
import os
import re
import sys


def die(msg):
    sys.stderr.write("c20_dump_sequence.py: %s\n" % msg)
    sys.exit(2)


def body_of(src, what):
    m = re.search(r"^fn print_minidump_dump<", src, re.M)
    if not m:
        die("%s: fn print_minidump_dump not found" % what)
    if len(re.findall(r"\bfn print_minidump_dump\b", src)) != 1 or (what == "main.rs" and len(re.findall(r"\bprint_minidump_dump\(", src)) != 1):
        die("%s: print_minidump_dump is defined or called more than once" % what)
    end = src.find("\n}\n", m.start())
    if end < 0:
        die("%s: end of print_minidump_dump not found" % what)
    return src[m.start():end]


def sequence(body, what):
    ev = []
    for m in re.finditer(r"get_stream::<\s*(\w+)", body):
        ev.append((m.start(), "get:" + m.group(1)))
    for m in re.finditer(r"(\w+)\s*\.print\((.*?)\)\?", body, re.S):
        args = re.sub(r"\s+", "", m.group(2)).rstrip(",")
        ev.append((m.start(), "print:%s(%s)" % (m.group(1), args)))
    for m in re.finditer(r"write!\(\s*output\s*,\s*\"([^\"{}]*)\"\s*\)\?", body):
        ev.append((m.start(), "lit:" + m.group(1)))
    # raw streams: `in streams!( A, B, ... )` in main.rs, `(ST::A, "A")` pairs in the harness
    raws = []
    m = re.search(r"\bin\s+streams!\(([^)]*)\)", body)
    if m:
        raws = [(m.start(), x.strip()) for x in m.group(1).split(",") if x.strip()]
    else:
        for m2 in re.finditer(r"\(\s*ST::(\w+)\s*,\s*\"(\w+)\"\s*\)", body):
            if m2.group(1) != m2.group(2):
                die("%s: raw stream %s printed under the name %s" % (what, m2.group(1), m2.group(2)))
            raws.append((m2.start(), m2.group(1)))
    for i, (pos, name) in enumerate(raws):
        ev.append((pos + i * 1e-3, "raw:" + name))
    if "get_raw_stream(stream as u32)" not in re.sub(r"\s+", " ", body):
        die("%s: raw stream loop not recognised" % what)
    if not re.search(r"writeln!\(out, \"Stream \{name\}:\"\)\?;", body) or '.join("\\\\0\\n")' not in body or \
            'write!(out, "{s}\\n\\n")' not in body:
        die("%s: print_raw_stream has an unrecognised shape" % what)
    # how the unified memory list is chosen (lazily: the plain MemoryList is only consumed when there is no Memory64List)
    um = re.search(r"let unified_memory = (.*?);", body, re.S)
    if not um:
        die("%s: `let unified_memory = ..;` not found" % what)
    ev.append((um.start(), "unified:" + re.sub(r"\s+", "", um.group(1))))
    seq = [s for _p, s in sorted(ev)]
    if sum(1 for s in seq if s.startswith("print:")) < 15 or sum(1 for s in seq if s.startswith("raw:")) < 1:
        die("%s: implausibly short sequence (%d entries)" % (what, len(seq)))
    return seq


def program(body):
    """the statements of print_minidump_dump (main.rs) as a PROGRAM over the vocabulary of coq/C20/DumpSpec.v: every statement
    of the function body must be one of the seven shapes below; whatever is left over after the recognised statements are cut
    out must be exactly the scaffolding this translator knows (signature, comments, the streams! macro, print_raw_stream,
    the loop head, `Ok(())`) - anything else aborts"""
    what = "main.rs"
    m = re.search(r"\{\n", body)
    text = body[m.end():]
    text = re.sub(r"//[^\n]*", "", text)
    steps, spans = [], []

    def take(rx, mk, flags=re.S):
        for mm in re.finditer(rx, text, flags):
            steps.append((mm.start(), mk(mm)))
            spans.append((mm.start(), mm.end()))
    ty = r"(\w+)(?:<'_>)?"
    take(r"\bdump\.print\(output\)\?;", lambda mm: "SHeader")
    take(r"\blet\s+(?:mut\s+)?(\w+)\s*=\s*dump\.get_stream::<" + ty + r">\(\)\.ok\(\);", lambda mm: 'SLoad "%s" "%s"' % (mm.group(1), mm.group(2)))
    take(r"\blet\s+(\w+)\s*=\s*(\w+)\s*\.take\(\)\s*\.map\(UnifiedMemoryList::Memory64\)\s*\.or_else\(\|\|\s*(\w+)\.take\(\)\.map\(UnifiedMemoryList::Memory\)\);",
         lambda mm: 'SUnify "%s" "%s" "%s"' % (mm.group(1), mm.group(2), mm.group(3)))
    take(r"\bif let Ok\((\w+)\) = dump\.get_stream::<" + ty + r">\(\) \{\s*(\w+)\s*\.print\(([^;]*?)\)\?;\s*\}",
         lambda mm: ('SPrintGet "%s"' % mm.group(2)) if mm.group(1) == mm.group(3) else die("printer called on %s, bound %s" % (mm.group(3), mm.group(1))))
    take(r"\bif let Some\((\w+)\) = (\w+) \{\s*(\w+)\s*\.print\(([^;]*?)\)\?;\s*\}",
         lambda mm: ('SPrintVar "%s"' % mm.group(2)) if mm.group(1) == mm.group(3) else die("printer called on %s, bound %s" % (mm.group(3), mm.group(1))))
    take(r"\bmatch dump\.get_stream::<" + ty + r">\(\) \{\s*Ok\((\w+)\) => (\w+)\.print\(output\)\?,\s*Err\(Error::StreamNotFound\) => \(\),\s*"
         r"Err\(_\) => write!\(output, \"([^\"{}]*)\"\)\?,\s*\}",
         lambda mm: ('SPrintGetOrLit "%s" "%s"' % (mm.group(1), mm.group(4))) if mm.group(2) == mm.group(3) else die("crashpad arm prints another binding"))
    loop = re.search(r"for &\(stream, name\) in streams!\(([^)]*)\) \{\s*if let Ok\(contents\) = dump\.get_raw_stream\(stream as u32\) \{\s*"
                     r"print_raw_stream\(name, contents, output\)\?;\s*\}\s*\}", text, re.S)
    if not loop:
        die("%s: the raw stream loop has an unrecognised shape" % what)
    for i, nm in enumerate(x.strip() for x in loop.group(1).split(",") if x.strip()):
        steps.append((loop.start() + i * 1e-3, 'SRaw "%s"' % nm))
    spans.append((loop.start(), loop.end()))
    # what is left over
    spans.sort()
    rest, pos = [], 0
    for a, b in spans:
        if a < pos:
            die("%s: overlapping statements at offset %d" % (what, a))
        rest.append(text[pos:a])
        pos = b
    rest.append(text[pos:])
    residue = re.sub(r"\s+", "", "".join(rest))
    expected = re.sub(r"\s+", "", r"""
        macro_rules! streams { ( $( $x:ident ),* ) => { &[$( ( minidump_common::format::MINIDUMP_STREAM_TYPE::$x, stringify!($x) ) ),*] }; }
        fn print_raw_stream<T: Write>(name: &str, contents: &[u8], out: &mut T) -> std::io::Result<()> {
            writeln!(out, "Stream {name}:")?;
            let s = contents.split(|&v| v == 0).map(String::from_utf8_lossy).collect::<Vec<_>>().join("\\0\n");
            write!(out, "{s}\n\n")
        }
        Ok(())""")
    if residue != expected:
        k = next((i for i in range(min(len(residue), len(expected))) if residue[i] != expected[i]), min(len(residue), len(expected)))
        die("%s: print_minidump_dump contains a statement this translator does not recognise, near: %r" % (what, residue[max(0, k - 30):k + 90]))
    return [s2 for _p, s2 in sorted(steps)]


def main():
    repo, outdir = sys.argv[1], sys.argv[2]
    root = os.path.dirname(os.path.dirname(os.path.abspath(__file__)))
    a = sequence(body_of(open(os.path.join(repo, "minidump-stackwalk", "src", "main.rs")).read(), "main.rs"), "main.rs")
    for s in a:
        if '"' in s:
            die("unexpected quote in %r" % s)
    out = "(* generated by translate/c20_dump_sequence.py from minidump-stackwalk/src/main.rs — do not edit *)\n" \
          "From Coq Require Import String List.\nImport ListNotations.\nLocal Open Scope string_scope.\n" \
          "Definition DUMP_SEQ : list string := [\n  " + ";\n  ".join('"%s"' % s for s in a) + "\n].\n"
    prog = program(body_of(open(os.path.join(repo, "minidump-stackwalk", "src", "main.rs")).read(), "main.rs"))
    out2 = "(* generated by translate/c20_dump_sequence.py from print_minidump_dump of minidump-stackwalk/src/main.rs — do not edit *)\n" \
           "From Coq Require Import List.\nImport ListNotations.\nFrom RM Require Import C20.ClapSpec C20.DumpSpec.\n" \
           "Local Open Scope str_scope.\nDefinition DUMP_PROG : list dstep := [\n  " + ";\n  ".join(prog) + "\n].\n"
    os.makedirs(outdir, exist_ok=True)
    for name, content in (("C20DumpSeq.v", out), ("C20DumpProg.v", out2)):
        path = os.path.join(outdir, name)
        try:
            if open(path).read() == content:
                continue
        except OSError:
            pass
        with open(path, "w") as f:
            f.write(content)
    # the harness's copy (compared AFTER the files are written: the model is regenerated from main.rs whatever the copy says)
    b = sequence(body_of(open(os.path.join(root, "harness", "src", "bin", "c20.rs")).read(), "harness c20.rs"), "harness c20.rs")
    if a != b:
        k = next((i for i in range(min(len(a), len(b))) if a[i] != b[i]), min(len(a), len(b)))
        die("print_minidump_dump of main.rs and its copy in harness/src/bin/c20.rs differ at step %d: main.rs %r, harness %r "
            "(%d vs %d steps)" % (k, a[k] if k < len(a) else None, b[k] if k < len(b) else None, len(a), len(b)))


main()
